#!/bin/bash
# like run_seeds.sh, but on a scratch worktree (never touches /repo's working tree, never rewrites /verif/evidence): every kept seeded
# change against the check of its own property.  usage: run_seeds_scratch.sh [out-file] [id-prefix]
cd /verif
out="${1:-/verif/build/seed_matrix_scratch.txt}"; pre="$2"
: > "$out"
for d in seeded/${pre}*/; do
  id=$(basename "$d"); prop=${id:0:3}
  r=$(tools/try_seed.sh "/verif/$d/patch.diff" "$prop" 2>&1 | grep -v "^WARNING" | tail -1 | cut -c1-160)
  echo "$id $r" | tee -a "$out"
done
echo "caught: $(grep -c 'rc=1' "$out") of $(wc -l < "$out")"
