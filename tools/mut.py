#!/usr/bin/env python3
"""self-test helper: apply a textual mutation to /repo (file, old, new), run checks, revert.
usage: mut.py <file> <old> <new> -- C05 C06 ...   (never commits anything in /repo)"""
import subprocess, sys, os
args = sys.argv[1:]
k = args.index('--')
f, old, new = args[:k]
props = args[k + 1:]
p = os.path.join('/repo', f)
s = open(p).read()
if s.count(old) != 1:
    sys.exit('pattern occurs %d times' % s.count(old))
open(p, 'w').write(s.replace(old, new))
try:
    for pr in props:
        r = subprocess.run(['/verif/check', pr], capture_output=True, text=True)
        lines = [l for l in r.stdout.split('\n') if l.startswith(('OK', 'VIOLATION', 'INCONCLUSIVE', 'KNOWN', '  '))]
        print(pr, 'rc=%d' % r.returncode, ' | '.join(lines)[:600])
finally:
    subprocess.run(['git', '-C', '/repo', 'checkout', '--', f])
