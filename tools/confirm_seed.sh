#!/bin/bash
# confirm_seed.sh <worktree> <demo-apply-cmd> <demo-run-cmd>
# In the scratch worktree: (1) bug applied: workspace builds, the 55 existing tests pass; (2) bug + demo: demo fails;
# (3) demo only: demo passes. Leaves the worktree clean. Prints a summary that goes into meta.json.
wt="$1"; demo_apply="$2"; demo_run="$3"
export CARGO_NET_OFFLINE=true CARGO_TARGET_DIR="$wt/target"
cd "$wt" || exit 9
git checkout -q -- . ; git clean -fdq -e _seed -e target
git apply _seed/patch.diff || { echo "PATCH-APPLY-FAILED"; exit 9; }
cargo build --workspace --offline >/dev/null 2>&1 && echo "build_with_bug=ok" || echo "build_with_bug=FAIL"
n=$(cargo test --workspace --no-fail-fast --offline 2>&1 | grep -E "^test result" | awk '{p+=$4; f+=$6} END {print p" passed "f" failed"}')
echo "suite_with_bug=$n"
eval "$demo_apply" >/dev/null 2>&1 || echo "DEMO-APPLY-FAILED"
if eval "$demo_run" >/tmp/seed_demo_bug.log 2>&1; then echo "demo_with_bug=PASS(unexpected)"; else echo "demo_with_bug=fails(expected)"; fi
git apply -R _seed/patch.diff || echo "PATCH-REVERT-FAILED"
if eval "$demo_run" >/tmp/seed_demo_ok.log 2>&1; then echo "demo_without_bug=passes(expected)"; else echo "demo_without_bug=FAILS(unexpected)"; fi
git checkout -q -- . ; git clean -fdq -e _seed -e target
