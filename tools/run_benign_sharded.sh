#!/bin/bash
# run_benign.sh in N parallel shards (each on its own scratch worktree /tmp/verif-try-b<i>); usage: run_benign_sharded.sh <N> <out-file>
cd /verif
n="${1:-4}"; out="${2:-/verif/build/benign_sharded.log}"
: > "$out"
ids=( $(ls -d benign/*/ | xargs -n1 basename) )
for ((i=0; i<n; i++)); do
  (
    for ((j=i; j<${#ids[@]}; j+=n)); do
      id=${ids[$j]}
      TRY_SCRATCH=/tmp/verif-try-b$i tools/try_seed.sh "/verif/benign/$id/patch.diff" $(cat benign/$id/props) 2>&1 | grep -v "^WARNING" | cut -c1-300 | sed "s/^/$id /" >> "$out"
    done
  ) &
done
wait
sort -o "$out" "$out"
echo "runs: $(grep -c ' rc=' "$out")  exit0: $(grep -c ' rc=0' "$out")  exit2: $(grep -c ' rc=2' "$out")  FALSE ALARMS (exit 1): $(grep -c ' rc=1' "$out")"
