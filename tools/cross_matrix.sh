#!/bin/bash
# self-test (not a registered check): for every kept seed, run ALL checks on a scratch copy of /repo with the seed applied.
# Expectation: the seed's own property is red; every other check is green unless the seed really breaks that property too
# (triage by reading).  Uses VERIF_REPO so that /repo itself is never touched.  usage: cross_matrix.sh [seed-id ...]
cd /verif
scratch=/tmp/verif-cross-repo
out=/verif/build/cross_matrix.txt
seeds="${@:-$(ls seeded)}"
for id in $seeds; do
  rm -rf "$scratch"; git -C /repo worktree prune; git -C /repo worktree add -q --detach "$scratch" HEAD || exit 1
  git -C "$scratch" apply "/verif/seeded/$id/patch.diff" || { echo "$id PATCH-DOES-NOT-APPLY" | tee -a "$out"; git -C /repo worktree remove --force "$scratch"; continue; }
  line="$id:"
  for p in C01 C02 C03 C04 C05 C06 C07 C08 C09 C10 C11 C12 C13 C14 C16 C17 C18 C19; do
    VERIF_EVIDENCE_DIR=/verif/build/cross-evidence VERIF_REPO="$scratch" ./check $p > /verif/build/cross-$id-$p.log 2>&1; rc=$?
    [ $rc -ne 0 ] && line="$line $p=$rc"
  done
  echo "$line" | tee -a "$out"
  git -C /repo worktree remove --force "$scratch"
done
rm -rf /verif/build/replay-src-tmp_verif_cross_repo /verif/build/replay-tmp_verif_cross_repo /verif/build/mir-*-tmp_verif_cross_repo /verif/build/ws-dlib-tmp_verif_cross_repo
