#!/bin/bash
# the seed matrix in N parallel shards, each on its own scratch worktree (/tmp/verif-try-s<i>); never touches /repo's working tree or
# /verif/evidence.  usage: run_seeds_sharded.sh <N> <out-file> [id-prefix]
cd /verif
n="${1:-4}"; out="${2:-/verif/build/seed_matrix_sharded.txt}"; pre="$3"
: > "$out"
ids=( $(ls -d seeded/${pre}*/ | xargs -n1 basename) )
for ((i=0; i<n; i++)); do
  (
    for ((j=i; j<${#ids[@]}; j+=n)); do
      id=${ids[$j]}; prop=${id:0:3}
      r=$(TRY_SCRATCH=/tmp/verif-try-s$i tools/try_seed.sh "/verif/seeded/$id/patch.diff" "$prop" 2>&1 | grep -v "^WARNING" | tail -1 | cut -c1-160)
      echo "$id $r" >> "$out"
    done
  ) &
done
wait
sort -o "$out" "$out"
echo "caught: $(grep -c 'rc=1' "$out") of $(wc -l < "$out")"
