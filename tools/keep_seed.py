#!/usr/bin/env python3
"""keep_seed.py <worktree> <seed-id> <property> <needs> <demo_run_cmd> <conf-file> <detected-by> : copy a confirmed seeded change into /verif/seeded/<id>/"""
import json, os, shutil, sys
wt, sid, prop, needs, demo_run, conf, detected = sys.argv[1:8]
dst = os.path.join('/verif/seeded', sid)
os.makedirs(dst, exist_ok=True)
src = os.path.join(wt, '_seed')
for name in os.listdir(src):
    if name in ('tmp', 'logs', 'target'):
        continue
    s = os.path.join(src, name)
    d = os.path.join(dst, name)
    if os.path.isdir(s):
        shutil.copytree(s, d, dirs_exist_ok=True, ignore=shutil.ignore_patterns('target', 'tmp'))
    else:
        shutil.copy(s, d)
meta = {'id': sid, 'property': prop, 'needs_to_manifest': needs, 'demo_run_cmd': demo_run,
        'confirmed_in_scratch_worktree': open(conf).read().strip().split('\n'),
        'how_confirmed': 'tools/confirm_seed.sh: bug applied -> cargo build + full existing suite; bug+demo -> demo fails; demo only -> demo passes',
        'detected_by': detected, 'author': 'fresh sub-agent given only the property text and its own worktree'}
json.dump(meta, open(os.path.join(dst, 'meta.json'), 'w'), indent=1)
print('kept', dst)
