#!/usr/bin/env python3
"""Regenerates /verif/MANIFEST.json from the table below (single source of truth for what is claimed)."""
import json
import subprocess

TECH_M = ("symbolic execution of the MIR of the real functions into SMT (z3: LIA, float enclosures, uninterpreted products refined by "
          "incremental linearisation); every obligation decided by the solver over the whole stated domain; counterexamples replayed natively")
TECH_W = ("event programs extracted from the MIR of write()/snapshot() by symbolic execution, composed into an axiomatic RC11 "
          "(release/acquire/relaxed/fence) encoding with integer reads-from variables; z3 decides every execution of the bounded program; "
          "models re-checked by an independent RC11 checker and replayed on the natively compiled snapshot() through the atomic shim")
NOTE_NOW = ("Trusted: rustc nightly MIR pretty-printer, the MIR->SMT translator (validated every run against the native function on the repo's "
            "unit-test vectors and random vectors), z3. Stub: clock_gettime_safe returns an arbitrary in-domain timespec or an error. Floats: "
            "binary64 enclosure (relative 2^-53 per operation), hence the 2^-49 relative tolerance on the growth term. Domain: timestamps within "
            "+-68 years, tv_nsec in [0,1e9), bound < 2^60.")
NOTE_D = ("Trusted: MIR pretty-printer, MIR->SMT translator (differentially validated every run against the natively compiled function through the cfg-gated re-exports), z3. "
          "Stubs: std::time (SystemTime::elapsed, Duration constructors/comparison) as exact integer nanoseconds; <f64 as From<ChronyFloat>>::from returns an arbitrary finite double; "
          "tracing macros replaced by an empty-bodied shim crate in the analysed build; in C08/C09 extract_bound_from_tracking and ShmWrite::write are environment. "
          "Virtual calls are dispatched on the concrete type recorded at the unsizing cast.")
NOTE_W = ("A writer that keeps private state across calls is modelled by carrying its object from ShmWriter::new through every write() of the scenario; code that looks inside the record gets the "
          "record content as an uninterpreted function of (word, publication) and is replayed natively by a sequential publish/snapshot run with the contents the solver chose. " +"Trusted: MIR pretty-printer, the event extractor, the RC11 encoding (exact for one writer + read-only readers), z3. Assumed: plain and "
          "volatile record accesses behave as per-word relaxed atomics (racy plain accesses are UB under the letter of the model); one writer at a "
          "time; SeqCst treated as AcqRel. Stubs: open/mmap of the segment (one region at offset 0). Bounds as listed in the evidence; calls that need "
          "more than R = 2N+1 retry iterations and more than N overlapping publications are outside the claim.")

CHECKS = {
    'C01': ('M+C', "Composition query over code-derived relations: for every sequence of 1..2 (quick) / 1..3 (thorough) daemon steps over {report with arbitrary wire values, PHC term and timing; silence within / beyond "
                   "grace; daemon restart}, the real extract_bound_from_tracking + ShmUpdater + FSM relation (daemon MIR) and the real compute_bound_at relation (shm MIR) are conjoined with the physical "
                   "assumptions A1 (valid chrony numbers for synchronised fresh reports), A2 (bounded drift), A3 (exact clock instants): no client call on any publication, at any later instant, obtains a "
                   "Synchronized/FreeRunning interval that excludes true time (tolerance 3 ns + 2^-47 relative). Transport and ordering facts are those decided by C02-C04 and C12 on the same tree.",
            "Trusted: the MIR translator and z3 for both halves; the physical assumptions; the interface facts (each decided by its own check). max_drift_ppb ranges over a small set of constants so that all "
            "products are exact linear arithmetic. Longer gaps between measurement and client than the bounded history are covered by C08's inductive step, not by this query.", TECH_M + "; one composition query per history shape with ghost true-time variables"),
    'C02': ('W', "Every RC11 execution of the bounded program (N <= 2 quick / 4 thorough publications overlapping one snapshot() call, retry loop unrolled 2N+1 times, "
                 "any start generation, any reader cache state): no accepted snapshot mixes words of two publications or returns a never-completed record.", NOTE_W, TECH_W),
    'C03': ('W', "Every RC11 execution of M successive snapshot() calls against N publications plus one call ordered after the writer went idle: returned publications "
                 "never go back; the idle call returns the latest publication unless the cached generation coincides with the live one (the documented exception).", NOTE_W, TECH_W),
    'C04': ('W', "Writer histories 'a updates; crash after any event of the next update (any subset of its record words); restart (version store); b updates' against two concurrent "
                 "reader calls and one call ordered after everything: only complete records, in publication order, and the restarted writer's publication is seen; plus, from the MIR of "
                 "ShmHeader::is_valid / ShmReader::new / ShmWriter::new: every header a crash can leave in a published segment is accepted, so the segment is not wiped. "
                 "A start-up cut short inside wipe() (any prefix of its file writes, over any unusable prior file, with or without truncation as the code asks) must not leave a file clients can open. Other file-system clauses (inode identity, rename) are NOT covered.", NOTE_W, TECH_W),
    'C05': ('M', "All inputs of the stated domain (no unrolling bound: the code is loop-free): for every return path of ClockErrorBound::now() the solver proves symmetry, ordering, "
                 "normalisation and the growth law (to 1 ns + 2^-49 relative), plus the 2-safety claim that the half-width is monotone in age.", NOTE_NOW, TECH_M),
    'C06': ('M', "All inputs of the stated domain: the status returned by now() is proved, per return path, to obey the four decay/pass-through clauses for every ordering of the monotonic "
                 "reading against as_of, as_of+5s and void_after (exact integer nanoseconds, so the +-1 ns neighbours are covered).", NOTE_NOW, TECH_M),
    'C07': ('M', "All finite wire values of the stated range: for every return path of extract_bound_from_tracking the solver proves bound >= 0, bound >= (|offset|+dispersion+delay/2)*1e9 and "
                 "bound < that sum rounded up (+2^-49 relative enclosure tolerance); the PHC term is added by process_clock_update (read off the MIR, C08 checks the sum), and its source - "
                 "get_phc_error_bound_from_path - is executed over a byte-level file model: for every decimal string of 1..18 digits (each digit a solver variable; quick: 6 lengths) with or without a "
                 "newline the value handed on is the number in the file.", NOTE_D + " Stubs for the PHC file reader: byte-level semantics of File::open/read/read_to_string/read_to_end, fs::read_to_string, "
                 "String/str views, trim, parse::<int>, from_utf8, range slicing; any other std call there ends INCONCLUSIVE.", TECH_M),
    'C08': ('M', "All histories of 1..3 (quick) / 1..4 (thorough) poll outcomes from a fresh daemon, each outcome with arbitrary (bound, class, PHC term, as_of), through the real ShmUpdater and the "
                 "status FSM's vtable: after every step exactly one record is published and it carries the latest synchronised measurement, void_after = as_of+1000 s, the configured drift, and "
                 "(once synchronised) the class of the latest outcome; plus one inductive step from an arbitrary updater state for clauses (a)-(c); and the writer thread's message loop hands every outcome message it takes from its mailbox to the updater - one call per message per turn (native: the same outcomes queued as messages publish the same records as direct calls).", NOTE_D, TECH_M),
    'C09': ('M', "Same symbolic histories as C08: in every history prefix without a synchronised report the published status is Unknown; plus, with the real classifier in the loop, a fresh updater "
                 "processing its first report (arbitrary wire values, update interval of either sign) publishes a status other than Unknown only if that report is synchronised and fresh by the documented rules.", NOTE_D, TECH_M),
    'C10': ('M', "All 65536 leap values, every finite update interval in [-2^40, 2^40] s (for a negative interval the threshold is 0), every reference-time age of either sign: the class returned by "
                 "extract_bound_from_tracking equals the documented one (within 1 ns of the eight-interval threshold either neighbouring class is accepted: ages and Durations have 1 ns resolution); and "
                 "that class is the status of the record published after the report, for every history of <= 3 (quick) / 4 (thorough) poll outcomes ending in a report (each FSM state, each value of "
                 "private updater state such a history produces; reports carry symbolic reference times, so repeated reports are included).", NOTE_D, TECH_M),
    'C11': ('M+W', "For all 65536 values a previous writer can have left in the segment (symbolic) and for a wiped segment: a writer created by the real ShmWriter::new stores two values into the "
                   "generation per write() that obey the protocol (odd in flight, even non-zero different final, wrap to 2, continue from an odd value); inductive when write() keeps no private state, "
                   "otherwise chained over 3 (quick) / 6 (thorough) successive writes; and under RC11 a conforming third-party reader (acquire fence / acquire load) never sees data of an update under the previous "
                   "even generation, nor the final generation before the data (N <= 2/3 updates).", NOTE_W, TECH_W),
    'C12': ('M', "All paths of one iteration of the poller loop: the monotonic (COARSE) clock is read before chronyd is queried, and the as-of instant attached to a report is a well-formed timespec not later than that reading; "
                 "all return paths of ClockErrorBound::now() (any number of clock reads): REALTIME is read first, the monotonic clock second, and the interval is centred on that first reading. The order is structural, so it holds "
                 "for every delay between the steps.", NOTE_D, TECH_M),
    'C13': ('M+K', "All combinations of environment answers in one iteration of the real poller loop (clock read, chronyd answer, PHC configured, reference ids, PHC read, grace period): exactly one message to "
                 "the ShmWriter mailbox, of the documented kind (the grace-period answer that counts is the one given once chronyd's silence is known: the answers before and after the query are "
                 "independent unknowns), with the PHC bound added iff the ids match; and the grace-period arithmetic of ClockErrorBoundPoller for all instants of a symbolic "
                 "monotone clock (outside right after start; inside iff less than 5 s since the last tracking reply; only a tracking reply records the instant); the configured reference id: a Kani/CBMC harness proves refid_to_u32 is the big-endian packing of its bytes for every ASCII string of <= 4 bytes and an error for 5 (unwind 6). Socket I/O is environment.", NOTE_D + " Kani 0.68 (CBMC 6.11, cadical) on the compiled crate with the tracing shims for the refid harness.", TECH_M + "; Kani bounded model checking for refid_to_u32"),
    'C14': ('M', "All inputs of the stated domain: every panic/overflow site reachable from now() (asserts of the overflow-checked MIR, nix's range panics) is proved unreachable, and the error "
                 "kinds are proved to be returned exactly under their documented conditions.", NOTE_NOW, TECH_M),
    'C15': ('M+C', "Bounded protocol-level check. Step relations extracted from the MIR by symbolic execution: one iteration of the receive loop of thread_manager::run and what follows it (broadcast_abort "
                   "executed from its MIR over the abstract key set, joins, return), one iteration of the poller loop and of the writer loop over a symbolic mailbox outcome, <Context as Drop>::drop for both "
                   "values of panicking(), the entry functions and thread closures (which Context they pass on; where the Context may flow); both iteration orders of the channel map; collect-into-Result "
                   "short-circuits; send results tied to the liveness of the receiver; the real ClockErrorBoundPoller::{get_tracking, is_within_grace_period} over a symbolic outage length for delays "
                   "no message interrupts (budget 2 s). Every table entry is a solver query. Composition (z3, bounded "
                   "model checking): three processes over FIFO queues, rounds of one step per thread in arbitrary order, one injected worker fault (panic or return, at start-up or any iteration) plus the "
                   "deaths the code itself produces; for every schedule of K = 6 (quick) / 11 (thorough) rounds, main has returned R = 3 / 6 rounds after the first death (queues <= 4 / 6). A counterexample "
                   "is replayed by running the real thread_manager::run in the sandbox with the fault injected through cfg-gated fault points under a 10 s watchdog; three (six) such native runs are "
                   "made on every check as well.",
            "Trusted: MIR pretty-printer, translator, z3. Assumed (environment): std::sync::mpsc is FIFO, send succeeds while the receiver exists, recv blocks until a message arrives; thread::spawn/join; "
            "fair scheduling (rounds); unwinding runs drop glue (panic = unwind); the HashMap of the channel web is an abstract key set and DispatchBox::send delivers to the mailbox registered under the key; "
            "chronyd query / PHC read / clock read / ShmUpdater calls are environment. Wall-clock: a round costs at most one chrony query time-out since receives wake on a message; measured natively. "
            "Outside: a worker blocked forever inside a system call, signals, the supervisor, several simultaneous faults, schedules longer than K rounds.",
            TECH_M + "; bounded model checking of the composed step relations (z3); native fault-injection replay of the real thread_manager::run"),
    'C16': ('M', "Every header (all 2^128 values of the 16 header bytes, as the four typed fields they are in bijection with) x every read length -1..16 x every success/failure of open, read and mmap: "
                 "ShmReader::new succeeds exactly for (magic, version != 0, generation != 0, declared size >= 72, calls ok) and otherwise returns the documented error kind with the failing call's errno "
                 "and origin; no panic, no read of uninitialised header bytes, descriptor closed and mapping released on every path - the reader's drop glue is "
                 "run and the length it unmaps is the length that was mapped -; both clients' error conversions; ShmWriter::wipe's file image "
                 "(72 bytes, documented header, zeros) and the validity of the header after wipe + version store + first publication.",
            "Trusted: MIR pretty-printer, translator, z3. Environment: libc open/read/mmap/close/munmap/errno (POSIX contract, any errno), File/WriteBytesExt/Seek operations of wipe() as append events. "
            "User Drop impls (FdGuard, MmapGuard) are inlined at drop terminators. Uninitialised-read and outcome counterexamples are replayed natively (real ShmReader::new on the constructed file, "
            "valgrind memcheck for uninitialised reads). Kinds of path (directory, missing file) appear only as the failing system call they cause; file-system semantics are outside.", TECH_M),
    'C17': ('M+CBMC', "Constants of the real compilers on every run: -Zprint-type-sizes layout of ShmHeader/ClockErrorBound and the offsets extracted from the writer's/reader's pointer arithmetic equal the table "
                      "transcribed from docs/PROTOCOL.md; CBMC proves 17 sizeof/offsetof/enumerator assertions on the real clockbound.h against the Rust FFI types; engine M proves that clockbound_now and "
                      "ClockBoundClient::now return the same interval/status/error kind/errno for every (snapshot result, now() result), that clockbound_open and new_with_path perform the same reader operations "
                      "(ShmReader::new only) with the same error mapping, and that both From<ShmError> conversions agree; ShmWriter::write over a typed record stores every field for every start generation. "
                      "A native cross-check runs both libraries on 12 segment files and 3 open-then-change scenarios under one virtual clock.",
            "Trusted: rustc's layout dump, CBMC's C front end, the MIR translator, z3. The layout part is a comparison of constants (the solver's verdict there is trivial; the value is that the numbers "
            "come from the real compilers). A C *program* built against libclockbound is not symbolically executed.", TECH_M + "; CBMC on the C header"),
    'C18': ('M+W', "Termination by induction, no unrolling bound: a loop-carried counter of snapshot()'s retry loop is proved to decrease on every retry path and to force an exit at 0; the "
                   "initial budget is a constant read from the MIR, giving an explicit bound on shared accesses per call; all reader events are loads/fences; stalled-writer RC11 scenarios "
                   "(update cut at any event) admit no stuck state. When snapshot() has several loops each one needs its own ranking argument; a loop without one is run natively against a writer "
                   "dead on an odd generation (from the start / from the second load on) and against a writer that never stops.", NOTE_W, TECH_W),
    'C19': ('M', "All 2^32 + 1 option values: on the release-profile MIR of main (plain u32 arithmetic wraps there), every path that reaches thread_manager::run passes exactly 1000 x the "
                 "option as integers (1000 when omitted), and every representable rate reaches run on some path; the record's max_drift_ppb is stored into the segment by every write() (typed execution of "
                 "ShmWriter::write, any start generation, any prior content - a segment left by a previous daemon included); counterexamples are replayed with the real release binary / the real writer.",
            "Trusted: MIR pretty-printer, the slice executor (data dependences of run()'s first argument plus the branch conditions computed from the option), z3. Stub: Cli::parse() returns an arbitrary "
            "Option<u32>; statements outside the slice are skipped (a mutable borrow of a slice local makes the check inconclusive). clap's own string parsing is outside.", TECH_M),
}

NOT_YET = {
}

NA = {
}

ALL = ['C%02d' % i for i in range(1, 20)]


def main():
    hooks = subprocess.run(['git', '-C', '/repo', 'log', '--format=%h %s'], capture_output=True, text=True).stdout.strip().split('\n')
    hook_commits = [l.split()[0] for l in hooks if l.split(' ', 1)[1].startswith('verif hooks')]
    m = {
        'version': 1,
        'setup_cmd': './setup.sh',
        'hooks': {'guard': 'aws_clock_bound_verif',
                  'enable': 'RUSTFLAGS="--cfg aws_clock_bound_verif" in the environment of the builds that need the hooks (replay harness, Kani harnesses); the MIR analysed by engines M/W is that of the UN-hooked build',
                  'baseline_off_cmd': 'cd /repo && cargo test --workspace --no-fail-fast --offline',
                  'source_commits': hook_commits, 'add_only': True},
        'engines': [
            {'name': 'M', 'path': 'mirsym/', 'serves_properties': sorted(k for k, v in CHECKS.items() if 'M' in v[0]),
             'kind_free_text': 'MIR symbolic executor (Python) -> z3: nightly --emit=mir dump of /repo\'s crates and their dependencies, regenerated on every run'},
            {'name': 'W', 'path': 'mirsym/seqlock.py mirsym/wmm.py vcheck/seqlock_model.py', 'serves_properties': sorted(k for k, v in CHECKS.items() if 'W' in v[0]),
             'kind_free_text': 'axiomatic RC11 encoding (single writer, read-only readers) over event programs extracted from the MIR by M'},
            {'name': 'K', 'path': 'kani/', 'serves_properties': ['C13'], 'kind_free_text': 'Kani 0.68 / CBMC harness crate (path dependency on /repo, tracing shims): iterator/Vec/closure code that engine M does not interpret'},
            {'name': 'R', 'path': 'replay/', 'serves_properties': sorted(CHECKS),
             'kind_free_text': 'native replay harness: real crates (dev and release), virtual clock by interposing clock_gettime, scripted observations through the cfg-gated atomic shim'},
        ],
        'checks': [],
        'not_applicable': [],
        'notes': 'exit 0 = held / only listed known findings; 1 = replayed violation; 2 = inconclusive (solver unknown, encoder limitation, non-reproducing model). known_findings.json lists defects (open / fixed).',
    }
    for pid in ALL:
        if pid in CHECKS:
            eng, text, note, tech = CHECKS[pid]
            m['checks'].append({'property_id': pid, 'quick_cmd': './check %s --tier quick' % pid, 'thorough_cmd': './check %s --tier thorough' % pid,
                                'evidence_file': 'evidence/%s.json' % pid, 'replay_cmd_template': './check %s --replay {path}' % pid, 'engine': eng + '+R',
                                'level_claimed': {'category': 'model_checking', 'text': text, 'design_ref': 'DESIGN.md section 5'}, 'level_note': note, 'technique': tech})
        elif pid in NA:
            m['not_applicable'].append({'property_id': pid, 'reason': NA[pid]})
        else:
            m['not_applicable'].append({'property_id': pid, 'reason': NOT_YET.get(pid, 'check under construction in this session (DESIGN.md section 11 build order); not yet claimed')})
    json.dump(m, open('/verif/MANIFEST.json', 'w'), indent=1)
    import jsonschema
    jsonschema.validate(m, json.load(open('/root/.vp/MANIFEST.schema.json')))
    print('manifest ok:', len(m['checks']), 'checks,', len(m['not_applicable']), 'not applicable/unclaimed')


if __name__ == '__main__':
    main()
