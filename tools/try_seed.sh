#!/bin/bash
# try_seed.sh <patch.diff> <prop> [<prop> ...] : run checks against a scratch copy of /repo with the patch applied (never touches /repo)
patch="$1"; shift
scratch=/tmp/verif-try-repo
cd /verif
git -C /repo worktree remove --force "$scratch" 2>/dev/null; rm -rf "$scratch"; git -C /repo worktree prune
git -C /repo worktree add -q --detach "$scratch" HEAD || exit 1
git -C "$scratch" apply "$patch" || { echo "PATCH-DOES-NOT-APPLY"; git -C /repo worktree remove --force "$scratch"; exit 1; }
for p in "$@"; do
  VERIF_EVIDENCE_DIR=/verif/build/try-evidence VERIF_REPO="$scratch" ./check $p > /verif/build/try-$p.log 2>&1; rc=$?
  echo "$p rc=$rc $(grep -m2 -E 'VIOLATION|INCONCLUSIVE|^OK|^  ' /verif/build/try-$p.log | cut -c1-330 | tr '\n' '|')"
done
git -C /repo worktree remove --force "$scratch"
