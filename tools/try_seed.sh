#!/bin/bash
# try_seed.sh <patch.diff> <prop> [<prop> ...] : run checks against a scratch copy of /repo with the patch applied (never touches /repo)
patch="$1"; shift
scratch=${TRY_SCRATCH:-/tmp/verif-try-repo}   # a second concurrent user sets TRY_SCRATCH (and gets its own logs / evidence dir)
tag=$(basename "$scratch")
cd /verif
exec 9> /tmp/verif-try.lock          # concurrent users (sharded matrix) serialise their worktree bookkeeping
flock 9
git -C /repo worktree remove --force "$scratch" 2>/dev/null; rm -rf "$scratch"; git -C /repo worktree prune
git -C /repo worktree add -q --detach "$scratch" HEAD || exit 1
flock -u 9
git -C "$scratch" apply "$patch" || { echo "PATCH-DOES-NOT-APPLY"; git -C /repo worktree remove --force "$scratch"; exit 1; }
for p in "$@"; do
  VERIF_EVIDENCE_DIR=/verif/build/try-evidence-$tag VERIF_REPO="$scratch" ./check $p > /verif/build/try-$tag-$p.log 2>&1; rc=$?
  echo "$p rc=$rc $(grep -m2 -E 'VIOLATION|INCONCLUSIVE|^OK|^  ' /verif/build/try-$tag-$p.log | cut -c1-330 | tr '\n' '|')"
done
flock 9
git -C /repo worktree remove --force "$scratch"
flock -u 9
