#!/usr/bin/env python3
"""gen_seed_prompts.py <round-tag> <Pnn[:suffix[:hint]]> ... : create scratch worktrees /tmp/w<round>-<tag> of /repo and self-contained prompt
files /tmp/prompt<round>-<tag>.txt for fresh sub-agents (they get the property text and the list of ideas already used, nothing from /verif)."""
import json, glob, subprocess, sys
props = {json.loads(l)['id']: json.loads(l) for l in open('/verif/properties.jsonl')}
used = {}
for d in sorted(glob.glob('/verif/seeded/*/meta.json')):
    m = json.load(open(d))
    used.setdefault(m['property'], []).append('%s: %s' % (m['id'], m['needs_to_manifest']))
extra_used = {'C15': ['main loop only logs ThreadTerminate', 'broadcast_abort filter inverted / sends only to one worker', 'writer loop ignores ThreadAbort', 'Context::drop reports only panics', 'mem::forget(ctx) after the poller loop']}


def prompt(pid, tag, rnd, hint=''):
    p = props[pid]; wt = '/tmp/w%s-%s' % (rnd, tag); a = p['anchors']
    ideas = used.get(pid, []) + extra_used.get(pid, [])
    return f"""You are working in your own scratch git worktree of the aws/clock-bound repository (Rust workspace: a daemon that polls chronyd and publishes
clock-error bounds through a seqlock-style shared-memory segment, plus Rust and C client libraries). Your worktree is {wt} .
Work ONLY inside {wt}. Do not read or touch /repo or /verif. Do NOT use `git stash` (the stash is shared between worktrees and other
people work in sibling worktrees); use `git diff > file`, `git apply`, `git apply -R`, `git checkout -- .` instead.
Use CARGO_TARGET_DIR={wt}/target and --offline for every cargo command (there is no network).

PROPERTY {pid}: {p['title']}
Statement: {p['statement']}
Quantified over: {p['quantifier']['text']}
Why the existing tests cannot settle it: {p['why_tests_cant']}
Where it lives: files {', '.join(a.get('files', []))}; mechanism: {'; '.join('%s (%s)' % (m['name'], m['where']) for m in a.get('mechanism', []))}

TASK. Make ONE realistic change to the production code (the kind of thing a developer could plausibly commit: an optimisation, a
clean-up, a robustness tweak, a refactoring, a fix for something else that goes slightly wrong) that BREAKS this property, such that:
 (a) `cargo build --workspace --offline` still succeeds;
 (b) the existing test suite, unedited, still passes: `cargo test --workspace --no-fail-fast --offline` (55 unit tests + 1 doc-test);
 (c) the breakage needs something specific to manifest (a particular input value, timing, interleaving, crash point or history) - it
     must not be wrong on every run. Subtle is better than blatant; ideally two places in the code cooperate.
Code under `#[cfg(aws_clock_bound_verif)]` is verification instrumentation: leave it alone and do not depend on it.
{hint}
Ideas that have ALREADY been used for this property - do NOT reuse them or close variants, find a genuinely different mechanism
(a different function, a different kind of mistake):
{chr(10).join(' - ' + i for i in ideas) if ideas else ' - (none yet)'}

DELIVERABLES, all under {wt}/_seed/ :
 - patch.diff : `git diff` of the bug ONLY (production code), applies to a clean checkout with `git apply`;
 - demo.diff  : a SEPARATE patch (test code only, e.g. a new #[cfg(test)] module or test file) that applies with or without patch.diff and
                contains a test that FAILS with the bug and PASSES without it; say how to run it;
 - README.md  : what you changed, exactly when it manifests, why the existing tests miss it, and the exact commands you ran with their results
                (build with bug, full suite with bug, demo with bug = fails, demo without bug = passes).
Leave the worktree clean at the end (`git status` shows only the untracked _seed/ directory) and delete {wt}/target.
Finish with a short summary: the change, when it manifests, the demo command, and the four results."""


rnd = sys.argv[1]
for spec in sys.argv[2:]:
    parts = spec.split(':', 2)
    pid = parts[0]; tag = pid + (parts[1] if len(parts) > 1 else ''); hint = parts[2] if len(parts) > 2 else ''
    wt = '/tmp/w%s-%s' % (rnd, tag)
    subprocess.run(['git', '-C', '/repo', 'worktree', 'remove', '--force', wt], capture_output=True)
    subprocess.run(['rm', '-rf', wt])
    subprocess.run(['git', '-C', '/repo', 'worktree', 'add', '-q', '--detach', wt, 'HEAD'], check=True)
    open('/tmp/prompt%s-%s.txt' % (rnd, tag), 'w').write(prompt(pid, tag, rnd, hint))
    print('prepared', wt)
