#!/bin/bash
# self-test of the machinery (not a registered check): behaviour-preserving variants of /repo (benign/<id>/patch.diff) must never
# make a check print VIOLATION.  Exit 0 (decided) or 2 (INCONCLUSIVE: the variant leaves the encodable fragment) are both
# acceptable; exit 1 is a false alarm.  Runs on a scratch worktree, never on /repo itself.
# usage: run_benign.sh [<id> <props...>]   (default: every variant against the properties listed in its props file)
cd /verif
run_one() {
  id="$1"; shift
  echo "== $id"
  tools/try_seed.sh "/verif/benign/$id/patch.diff" "$@" | sed "s/^/$id /"
}
if [ -n "$1" ]; then run_one "$@"; exit; fi
for d in benign/*/; do id=$(basename "$d"); run_one "$id" $(cat "$d/props"); done
