#!/bin/bash
# self-test of the machinery (not a registered check): every kept seeded change must turn its property's check red (exit 1),
# and the unchanged tree must be green.  Applies each patch to /repo's working tree and reverts it straight afterwards.
cd /verif
tier="${1:-quick}"
out="${2:-/verif/build/seed_matrix.txt}"
: > "$out"
for d in seeded/*/; do
  id=$(basename "$d"); prop=${id:0:3}
  if ! git -C /repo apply --check "/verif/$d/patch.diff" 2>/dev/null; then echo "$id $prop PATCH-DOES-NOT-APPLY" | tee -a "$out"; continue; fi
  git -C /repo apply "/verif/$d/patch.diff"
  ./check "$prop" --tier "$tier" > "/verif/build/seed-$id.log" 2>&1; rc=$?
  git -C /repo checkout -- . ; git -C /repo clean -fdq -- clock-bound-shm clock-bound-d clock-bound-ffi clock-bound-client 2>/dev/null
  echo "$id $prop rc=$rc $(grep -m1 -E 'VIOLATION|INCONCLUSIVE|^OK' /verif/build/seed-$id.log | cut -c1-120)" | tee -a "$out"
done
git -C /repo status --short | head -3
