"""Symbolic values of engine M."""
from fractions import Fraction

import z3


class EngineError(Exception):
    """The executor met something it cannot interpret precisely: the check is INCONCLUSIVE (exit 2)."""


class Struct:
    """structs, tuples, arrays, closures' captures: a list of field values"""
    __slots__ = ('f',)

    def __init__(self, fields):
        self.f = list(fields)

    def __repr__(self):
        return 'S%r' % (self.f,)


class Rec(Struct):
    """an opaque multi-word record (the 56-byte ClockErrorBound seen as 8-byte words carrying publication
    tags): may be copied, merged and stored; projecting a field out of it is an EngineError, which is how the
    data-independence assumption of the seqlock checks is enforced."""
    __slots__ = ()

    def __repr__(self):
        return 'Rec%r' % (self.f,)


UNIT = Struct([])


class Enum:
    """d: discriminant (python int or z3 Int); p: {variant name: Struct of payload fields}"""
    __slots__ = ('d', 'p')

    def __init__(self, d, p=None):
        self.d = d; self.p = p or {}

    def __repr__(self):
        return 'E(%r,%r)' % (self.d, self.p)

    def disc(self):
        return z3.IntVal(self.d) if isinstance(self.d, int) else self.d


class Ref:
    """reference / raw pointer to a local of some frame, with a projection path"""
    __slots__ = ('frame', 'local', 'path')

    def __init__(self, frame, local, path=()):
        self.frame, self.local, self.path = frame, local, tuple(path)

    def __repr__(self):
        return 'Ref(%s,%s,%r)' % (self.frame, self.local, self.path)

    def key(self):
        return (self.frame, self.local, self.path)


class IteRef:
    __slots__ = ('c', 'a', 'b')

    def __init__(self, c, a, b):
        self.c, self.a, self.b = c, a, b


class Ptr:
    """pointer into a named memory region (the mapped segment) at a byte offset (python int)"""
    __slots__ = ('region', 'off')

    def __init__(self, region, off=0):
        self.region, self.off = region, off

    def __repr__(self):
        return 'Ptr(%s+%s)' % (self.region, self.off)


class Opaque:
    """a value whose structure the executor does not know; may be copied around, not computed with"""
    __slots__ = ('tag',)

    def __init__(self, tag):
        self.tag = tag

    def __repr__(self):
        return 'Opaque(%s)' % (self.tag,)


class Dyn:
    """Box<dyn Trait> / &dyn Trait produced by an unsizing cast: remembers the concrete type name"""
    __slots__ = ('ty', 'val')

    def __init__(self, ty, val):
        self.ty, self.val = ty, val

    def __repr__(self):
        return 'Dyn(%s,%r)' % (self.ty, self.val)


class IteDyn:
    """a Dyn whose concrete type depends on conditions: list of (cond, Dyn)"""
    __slots__ = ('alts',)

    def __init__(self, alts):
        self.alts = alts


# ------------------------------------------------------------------ floating point enclosures
class FConst:
    """an exactly known binary64 constant"""
    __slots__ = ('q',)

    def __init__(self, q):
        self.q = Fraction(q)

    def __repr__(self):
        return 'FConst(%s)' % (self.q,)


class FMono:
    """(product of integer sources) / den, computed with k roundings to nearest (each 1 +- 2^-53)"""
    __slots__ = ('num', 'den', 'k', 'p')

    def __init__(self, num, den, k, p=53):
        # p: precision in bits of the roundings (53: binary64, 24: binary32); mixed computations count every rounding at the coarser one
        self.num, self.den, self.k, self.p = list(num), den, k, p

    def __repr__(self):
        return 'FMono(%r/%r,k=%d%s)' % (self.num, self.den, self.k, '' if self.p == 53 else ',p=%d' % self.p)


class FLin:
    """a binary64 value known as a z3 Real term x (the *computed* value; rounding slack is carried by
    fresh variables constrained in the executor's side conditions)"""
    __slots__ = ('x',)

    def __init__(self, x):
        self.x = x

    def __repr__(self):
        return 'FLin(%s)' % (self.x,)


def is_float(v):
    return isinstance(v, (FConst, FMono, FLin))


# ------------------------------------------------------------------ merging
def same(a, b):
    if a is b:
        return True
    if isinstance(a, z3.ExprRef) and isinstance(b, z3.ExprRef):
        return a.eq(b)
    if isinstance(a, int) and isinstance(b, int):
        return a == b
    if isinstance(a, Ref) and isinstance(b, Ref):
        return a.key() == b.key()
    if isinstance(a, Ptr) and isinstance(b, Ptr):
        return a.region == b.region and a.off == b.off
    if isinstance(a, Opaque) and isinstance(b, Opaque):
        return a.tag == b.tag
    if isinstance(a, str) and isinstance(b, str):
        return a == b
    if isinstance(a, FConst) and isinstance(b, FConst):
        return a.q == b.q
    return False


def ite(c, a, b):
    """structural if-then-else over symbolic values"""
    if same(a, b):
        return a
    if a is None:
        return b
    if b is None:
        return a
    if isinstance(a, Struct) and isinstance(b, Struct):
        if len(a.f) != len(b.f):
            n = max(len(a.f), len(b.f))
            af = a.f + [None] * (n - len(a.f)); bf = b.f + [None] * (n - len(b.f))
            return Struct([ite(c, x, y) for x, y in zip(af, bf)])
        if a.__class__ is not b.__class__:
            raise EngineError('cannot merge an opaque record with a structured value')
        return a.__class__([ite(c, x, y) for x, y in zip(a.f, b.f)])
    if isinstance(a, Enum) and isinstance(b, Enum):
        pl = {}
        for k in set(a.p) | set(b.p):
            if k in a.p and k in b.p:
                pl[k] = ite(c, a.p[k], b.p[k])
            else:
                pl[k] = a.p.get(k, b.p.get(k))
        if isinstance(a.d, int) and isinstance(b.d, int) and a.d == b.d:
            d = a.d
        else:
            d = z3.If(c, a.disc(), b.disc())
        return Enum(d, pl)
    if isinstance(a, (Ref, IteRef)) and isinstance(b, (Ref, IteRef)):
        return IteRef(c, a, b)
    if isinstance(a, (Dyn, IteDyn)) and isinstance(b, (Dyn, IteDyn)):
        alts = []
        for cond, side in ((c, a), (z3.Not(c), b)):
            if isinstance(side, Dyn):
                alts.append((cond, side))
            else:
                alts += [(z3.And(cond, cc), d) for cc, d in side.alts]
        # merge alternatives of the same concrete type
        by = {}
        for cc, d in alts:
            by.setdefault(d.ty, []).append((cc, d))
        out = []
        for ty, lst in by.items():
            v = lst[-1][1].val
            for cc, d in reversed(lst[:-1]):
                v = ite(cc, d.val, v)
            out.append((z3.Or([cc for cc, _ in lst]) if len(lst) > 1 else lst[0][0], Dyn(ty, v)))
        if len(out) == 1:
            return out[0][1]
        return IteDyn(out)
    if isinstance(a, FLin) and isinstance(b, FLin):
        return FLin(z3.If(c, a.x, b.x))
    if is_float(a) and is_float(b):
        # mixed float representations: bring both to FLin when trivially possible
        def lin(v):
            if isinstance(v, FLin):
                return v.x
            if isinstance(v, FConst):
                return z3.RealVal(str(v.q))
            raise EngineError('cannot merge float values %r / %r' % (a, b))
        return FLin(z3.If(c, lin(a), lin(b)))
    if isinstance(a, z3.ExprRef) and isinstance(b, z3.ExprRef):
        if a.sort() != b.sort():
            raise EngineError('ite over different sorts: %s / %s' % (a, b))
        return z3.If(c, a, b)
    if isinstance(a, int) and isinstance(b, z3.ExprRef):
        return z3.If(c, z3.IntVal(a), b)
    if isinstance(b, int) and isinstance(a, z3.ExprRef):
        return z3.If(c, a, z3.IntVal(b))
    if isinstance(a, int) and isinstance(b, int):
        return z3.If(c, z3.IntVal(a), z3.IntVal(b))
    if isinstance(a, Opaque) or isinstance(b, Opaque):
        return Opaque('ite(%s|%s)' % (getattr(a, 'tag', a), getattr(b, 'tag', b)))
    raise EngineError('cannot merge values %r / %r' % (a, b))


def subst(v, pairs):
    """substitute z3 constants inside a symbolic value (pairs: list of (old, new) z3 terms)"""
    if not pairs:
        return v
    if isinstance(v, z3.ExprRef):
        return z3.substitute(v, *pairs)
    if isinstance(v, Struct):
        return v.__class__([subst(x, pairs) for x in v.f])
    if isinstance(v, Enum):
        return Enum(v.d if isinstance(v.d, int) else z3.substitute(v.d, *pairs), {k: subst(x, pairs) for k, x in v.p.items()})
    if isinstance(v, IteRef):
        return IteRef(z3.substitute(v.c, *pairs), subst(v.a, pairs), subst(v.b, pairs))
    if isinstance(v, Dyn):
        return Dyn(v.ty, subst(v.val, pairs))
    if isinstance(v, IteDyn):
        return IteDyn([(z3.substitute(c, *pairs), subst(d, pairs)) for c, d in v.alts])
    if isinstance(v, FLin):
        return FLin(z3.substitute(v.x, *pairs))
    return v
