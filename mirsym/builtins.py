"""Hand-written semantics for the (short) list of core/std items whose MIR is not in the crate dumps.
Each entry is exercised by the translator-validation runs (tests vectors + differential)."""
import re
from fractions import Fraction

import z3

from .parser import strip_generics
from .program import INTTY, base_type_name, strip_turbofish_tail
from .values import Struct, UNIT, Enum, Ref, IteRef, Ptr, Opaque, Dyn, IteDyn, FConst, FMono, FLin, is_float, ite, EngineError

USED = {}


def _used(name):
    USED[name] = USED.get(name, 0) + 1


def _some(v):
    return Enum(1, {'Some': Struct([v])})


NONE = Enum(0, {'None': UNIT})


def _ok(v):
    return Enum(0, {'Ok': Struct([v])})


def _err(v):
    return Enum(1, {'Err': Struct([v])})


def _val(ex, st, a):
    return ex.deref(st, a) if isinstance(a, (Ref, IteRef)) else a


def _ordering(a, b):
    return Enum(z3.If(a < b, z3.IntVal(-1), z3.If(a == b, z3.IntVal(0), z3.IntVal(1))), {})


def _int_method(ex, st, c, ty, meth, args, fn):
    lo, hi = INTTY[ty]
    a = args[0]
    b = args[1] if len(args) > 1 else None
    from .exec import wrap_int, tdiv
    if meth in ('wrapping_add', 'wrapping_sub', 'wrapping_mul'):
        r = a + b if meth == 'wrapping_add' else a - b if meth == 'wrapping_sub' else ex.mul_term(a, b)
        return wrap_int(r, ty)
    if meth in ('saturating_add', 'saturating_sub', 'saturating_mul'):
        r = a + b if meth == 'saturating_add' else a - b if meth == 'saturating_sub' else ex.mul_term(a, b)
        return z3.If(r > hi, z3.IntVal(hi), z3.If(r < lo, z3.IntVal(lo), r))
    if meth in ('checked_add', 'checked_sub', 'checked_mul'):
        r = a + b if meth == 'checked_add' else a - b if meth == 'checked_sub' else ex.mul_term(a, b)
        ok = z3.And(r >= lo, r <= hi)
        return Enum(z3.If(ok, z3.IntVal(1), z3.IntVal(0)), {'Some': Struct([r]), 'None': UNIT})
    if meth in ('overflowing_add', 'overflowing_sub', 'overflowing_mul'):
        r = a + b if meth == 'overflowing_add' else a - b if meth == 'overflowing_sub' else ex.mul_term(a, b)
        return Struct([wrap_int(r, ty), z3.Or(r < lo, r > hi)])
    if meth == 'abs':
        from .exec import Obligation
        ex.obligations.append(Obligation(z3.And(st.pcond(), a == lo), 'abs() overflow', fn.name))
        return z3.If(a >= 0, a, -a)
    if meth == 'unsigned_abs' or meth == 'abs_diff':
        if meth == 'abs_diff':
            return z3.If(a >= b, a - b, b - a)
        return z3.If(a >= 0, a, -a)
    if meth == 'wrapping_abs':
        return wrap_int(z3.If(a >= 0, a, -a), ty)
    if meth == 'wrapping_neg':
        return wrap_int(-a, ty)
    if meth == 'signum':
        return z3.If(a > 0, z3.IntVal(1), z3.If(a == 0, z3.IntVal(0), z3.IntVal(-1)))
    if meth == 'is_negative':
        return a < 0
    if meth == 'is_positive':
        return a > 0
    if meth == 'pow':
        bs = z3.simplify(b)
        if z3.is_int_value(bs) and z3.is_int_value(z3.simplify(a)):
            return z3.IntVal(z3.simplify(a).as_long() ** bs.as_long())
        raise EngineError('symbolic pow')
    if meth in ('min', 'max'):
        return z3.If(a <= b, a, b) if meth == 'min' else z3.If(a >= b, a, b)
    if meth == 'clamp' and len(args) == 3:
        return z3.If(a < args[1], args[1], z3.If(a > args[2], args[2], a))
    if meth in ('checked_div', 'checked_rem', 'checked_div_euclid', 'checked_rem_euclid'):
        # truncating division of the machine type (euclidean variants coincide for non-negative operands: only those are modelled)
        if meth.endswith('euclid') and lo < 0:
            raise EngineError('signed euclidean checked division')
        q = z3.If(z3.And(a >= 0, b > 0), a / b, z3.If(z3.And(a < 0, b > 0), -((-a) / b), z3.If(z3.And(a >= 0, b < 0), -(a / (-b)), (-a) / (-b))))
        r = a - q * b
        val = q if 'div' in meth else r
        ok = z3.And(b != 0, z3.Not(z3.And(a == lo, b == -1))) if lo < 0 else (b != 0)
        return Enum(z3.If(ok, z3.IntVal(1), z3.IntVal(0)), {'Some': Struct([val]), 'None': UNIT})
    if meth in ('checked_neg', 'checked_abs'):
        val = -a if meth == 'checked_neg' else z3.If(a >= 0, a, -a)
        ok = z3.And(val >= lo, val <= hi)
        return Enum(z3.If(ok, z3.IntVal(1), z3.IntVal(0)), {'Some': Struct([val]), 'None': UNIT})
    if meth in ('saturating_abs', 'saturating_neg'):
        val = -a if meth == 'saturating_neg' else z3.If(a >= 0, a, -a)
        return z3.If(val > hi, z3.IntVal(hi), z3.If(val < lo, z3.IntVal(lo), val))
    if meth == 'rem_euclid':
        return a % b
    if meth == 'div_euclid':
        return a / b
    if meth in ('from_ne_bytes', 'to_ne_bytes', 'from_le_bytes', 'to_le_bytes', 'from_be_bytes', 'to_be_bytes'):
        raise EngineError('byte conversion ' + meth)
    if meth in ('count_ones', 'leading_zeros', 'trailing_zeros'):
        raise EngineError('bit counting ' + meth)
    return NotImplemented


def builtin(ex, st, callee, args, fn):
    c = strip_generics(strip_turbofish_tail(callee))
    r = _builtin(ex, st, c, callee, args, fn)
    if r is not NotImplemented:
        _used(re.sub(r'<impl [^>]*>', '<impl>', c)[-70:])
    return r


def _builtin(ex, st, c, callee, args, fn):
    from .exec import Panic, Obligation
    # ---------------------------------------------------------------- panics
    if re.search(r'(^|::)(begin_panic|panic_fmt|panic|panic_nounwind|panic_const_\w+|unwrap_failed|expect_failed|panic_display|'
                 r'panic_explicit|assert_failed|unreachable_display|panic_cold_explicit|panic_in_cleanup|panic_bounds_check|handle_alloc_error)$', c):
        raise Panic(c.split('::')[-1])
    if c.endswith('result::unwrap_failed') or c.endswith('option::unwrap_failed') or c.endswith('option::expect_failed'):
        raise Panic(c)
    # ---------------------------------------------------------------- integers
    m = re.search(r'(?:^|::)num::<impl (\w+)>::(\w+)$', c) or re.match(r'^(i8|i16|i32|i64|i128|isize|u8|u16|u32|u64|u128|usize)::(\w+)$', c)
    if m and m.group(1) in INTTY:
        r = _int_method(ex, st, c, m.group(1), m.group(2), args, fn)
        if r is not NotImplemented:
            return r
    m = re.match(r'^<(\w+) as (?:Ord|PartialOrd|PartialEq|PartialOrd<\w+>|PartialEq<\w+>)>::(\w+)$', c)
    if m and (m.group(1) in INTTY or m.group(1) == 'bool'):
        a, b = _val(ex, st, args[0]), _val(ex, st, args[1])
        if isinstance(a, z3.ExprRef) and isinstance(b, z3.ExprRef):
            meth = m.group(2)
            if z3.is_bool(a):
                a = z3.If(a, z3.IntVal(1), z3.IntVal(0)); b = z3.If(b, z3.IntVal(1), z3.IntVal(0))
            if meth == 'cmp':
                return _ordering(a, b)
            if meth == 'partial_cmp':
                return _some(_ordering(a, b))
            if meth in ('lt', 'le', 'gt', 'ge', 'eq', 'ne'):
                return {'lt': a < b, 'le': a <= b, 'gt': a > b, 'ge': a >= b, 'eq': a == b, 'ne': a != b}[meth]
            if meth in ('min', 'max'):
                return z3.If(a <= b, a, b) if meth == 'min' else z3.If(a >= b, a, b)
    if re.match(r'^(?:std|core)::cmp::(min|max)$', c) or re.match(r'^<\w+ as Ord>::(min|max)$', c):
        a, b = args
        if isinstance(a, z3.ExprRef) and z3.is_int(a):
            return z3.If(a <= b, a, b) if c.endswith('min') else z3.If(a >= b, a, b)
    # PartialOrd's provided methods on a user type: via the type's own partial_cmp body
    m = re.match(r'^<(.+) as PartialOrd(?:<.+>)?>::(lt|le|gt|ge)$', c)
    if m:
        cands = ex.prog.resolve('<%s as PartialOrd>::partial_cmp' % m.group(1), 2)
        if len(cands) == 1:
            (s2, v), = ex.inline(cands[0], args, st)
            o = v.p['Some'].f[0].disc() if 'Some' in v.p else None
            if o is None:
                raise EngineError('partial_cmp returned no Some payload')
            return [(s2, {'lt': o == -1, 'le': o != 1, 'gt': o == 1, 'ge': o != -1}[m.group(2)])]
    m = re.match(r'^<(.+) as PartialEq(?:<.+>)?>::ne$', c)
    if m:
        cands = ex.prog.resolve('<%s as PartialEq>::eq' % m.group(1), 2)
        if len(cands) == 1:
            (s2, v), = ex.inline(cands[0], args, st)
            return [(s2, z3.Not(v))]
    if re.match(r'^<\[\w+; \d+\] as PartialEq(<.*>)?>::(eq|ne)$', c) or re.match(r'^<\[\w+\] as PartialEq(<.*>)?>::(eq|ne)$', c):
        a, b = _val(ex, st, args[0]), _val(ex, st, args[1])
        if isinstance(a, Struct) and isinstance(b, Struct) and len(a.f) == len(b.f):
            e = z3.And([x == y for x, y in zip(a.f, b.f)]) if a.f else z3.BoolVal(True)
            return e if c.endswith('::eq') else z3.Not(e)
    m = re.match(r'^<(libc::)?(timespec|timeval) as PartialEq>::(eq|ne)$', c)
    if m:
        # libc's extra_traits PartialEq for plain C structs: field-wise equality
        a, b = _val(ex, st, args[0]), _val(ex, st, args[1])
        if isinstance(a, Struct) and isinstance(b, Struct) and len(a.f) == len(b.f) and all(isinstance(x, z3.ExprRef) for x in a.f + b.f):
            e = z3.And([x == y for x, y in zip(a.f, b.f)])
            return e if m.group(3) == 'eq' else z3.Not(e)
    m = re.match(r'^<(?:libc::)?(?:unix::)?(timespec|timeval) as PartialEq>::(eq|ne)$', c)
    if m and len(args) == 2:
        # libc's derived PartialEq: field by field
        from .values import Ptr as _Ptr
        vals = []
        for a_ in args:
            if isinstance(a_, _Ptr) and ex.deref_hook is not None:
                # a timespec field of the shared record
                try:
                    vals.append(ex.deref_hook(ex, st, a_, whole=False))
                except TypeError:
                    vals.append(ex.deref_hook(ex, st, a_))
            else:
                vals.append(_val(ex, st, a_))
        a, b = vals
        if isinstance(a, Struct) and isinstance(b, Struct) and len(a.f) == len(b.f) and all(isinstance(x, z3.ExprRef) for x in a.f + b.f):
            e = z3.And([x == y for x, y in zip(a.f, b.f)])
            return e if m.group(2) == 'eq' else z3.Not(e)
    m = re.match(r'^<((?:std::option::|core::option::)?Option<.+>|(?:std::time::)?(?:SystemTime|Instant|Duration)) as PartialEq>::(eq|ne)$', c)
    if m:
        # std types whose PartialEq is derived: structural equality of the values (Option<T> for such T, SystemTime, Instant, Duration)
        inner = re.sub(r'^.*?Option<(.+)>$', r'\1', m.group(1))
        if re.fullmatch(r'(?:std::time::)?(?:SystemTime|Instant|Duration)|[iu](?:8|16|32|64|128|size)|bool', inner.strip()):
            e = _struct_eq(_val(ex, st, args[0]), _val(ex, st, args[1]))
            if e is not None:
                return e if m.group(2) == 'eq' else z3.Not(e)
        elif m.group(1).rstrip().endswith('>') and 'Option<' in m.group(1):
            # Option<T> for a T whose (derived or hand-written) PartialEq::eq is in the dump: None == None, Some(x) == Some(y) iff x == y
            a, b = _val(ex, st, args[0]), _val(ex, st, args[1])
            tname = inner.strip().split('::')[-1]
            cands = ex.prog.resolve('<%s as PartialEq>::eq' % tname, 2) if re.fullmatch(r'\w+', tname) else []
            if isinstance(a, Enum) and isinstance(b, Enum) and len(cands) == 1:
                da, db = a.disc(), b.disc()
                if 'Some' in a.p and 'Some' in b.p:
                    s2 = st.fork()
                    s2.mem[('clo', 'opt_eq_a')] = a.p['Some'].f[0]; s2.mem[('clo', 'opt_eq_b')] = b.p['Some'].f[0]
                    outs = ex.inline(cands[0], [Ref('clo', 'opt_eq_a'), Ref('clo', 'opt_eq_b')], s2)
                    if outs and all(isinstance(o[1], z3.ExprRef) and z3.is_bool(o[1]) for o in outs):
                        base = len(st.pc)
                        inner_eq = z3.Or([z3.And(z3.And(o[0].pc[base:]) if len(o[0].pc) > base else z3.BoolVal(True), o[1]) for o in outs])
                        e = z3.And(da == db, z3.Implies(da == 1, inner_eq))
                        return e if m.group(2) == 'eq' else z3.Not(e)
                else:
                    e = z3.And(da == db, da == 0)
                    return e if m.group(2) == 'eq' else z3.Not(e)
    m = re.match(r'^<\(((?:[iu](?:8|16|32|64|128|size))(?:, (?:[iu](?:8|16|32|64|128|size)))*),?\) as (PartialOrd|PartialEq)>::(lt|le|gt|ge|eq|ne)$', c)
    if m:
        # tuples of integers: lexicographic order
        a, b = _val(ex, st, args[0]), _val(ex, st, args[1])
        if isinstance(a, Struct) and isinstance(b, Struct) and len(a.f) == len(b.f) and all(isinstance(x, z3.ExprRef) for x in a.f + b.f):
            lt = z3.BoolVal(False); eq = z3.BoolVal(True)
            for x, y in reversed(list(zip(a.f, b.f))):
                lt = z3.Or(x < y, z3.And(x == y, lt))
            eq = z3.And([x == y for x, y in zip(a.f, b.f)])
            k = m.group(3)
            return {'lt': lt, 'le': z3.Or(lt, eq), 'gt': z3.Not(z3.Or(lt, eq)), 'ge': z3.Not(lt), 'eq': eq, 'ne': z3.Not(eq)}[k]
    if re.match(r'^<(Ordering|std::cmp::Ordering) as PartialEq>::(eq|ne)$', c):
        a, b = _val(ex, st, args[0]), _val(ex, st, args[1])
        e = a.disc() == b.disc()
        return e if c.endswith('eq') else z3.Not(e)
    m = re.match(r'^(?:std::cmp::|core::cmp::)?Ordering::(is_lt|is_le|is_gt|is_ge|is_eq|is_ne|reverse|then)$', c)
    if m:
        o = args[0].disc()
        k = m.group(1)
        if k == 'reverse':
            return Enum(-o, {})
        if k == 'then':
            return Enum(z3.If(o == 0, args[1].disc(), o), {})
        return {'is_lt': o == -1, 'is_le': o != 1, 'is_gt': o == 1, 'is_ge': o != -1, 'is_eq': o == 0, 'is_ne': o != 0}[k]
    # ---------------------------------------------------------------- floats
    m = re.fullmatch(r'(?:(?:std|core)::intrinsics::)?(ceil|floor|round|trunc|fabs)f(32|64)', c)
    if m and len(args) == 1:
        # the intrinsics the float methods lower to in optimised MIR
        return ex.float_round_fn(args[0], 'abs' if m.group(1) == 'fabs' else m.group(1))
    m = re.search(r'(?:^|::)f32::<impl f32>::(\w+)$', c) or re.match(r'^f32::(\w+)$', c)
    if m and m.group(1) in ('ceil', 'floor', 'round', 'trunc', 'abs') and len(args) == 1:
        return ex.float_round_fn(args[0], m.group(1))
    m = re.search(r'(?:^|::)f(?:64|32)::<impl f(?:64|32)>::(\w+)$', c) or re.match(r'^f(?:64|32)::(\w+)$', c)
    if m:
        k = m.group(1)
        if k in ('ceil', 'floor', 'round', 'trunc', 'abs'):
            return ex.float_round_fn(args[0], k)
        if k in ('log2', 'exp2') and len(args) == 1:
            # monotone transcendental functions, known exactly at the powers of two 2^-64 .. 2^64: the result is an otherwise
            # unconstrained real that respects those anchors (x >= 2^n <=> log2 x >= n ; z >= n <=> exp2 z >= 2^n ; exp2 of an integer is
            # exact).  Enough to bracket every value within a factor of two; finer claims come back as candidates for the native replay
            from .values import FLin
            x = ex.to_lin(args[0])
            y = ex.fresh('f' + k, z3.RealSort())
            if k == 'log2':
                for n in range(-64, 65):
                    p2 = z3.RealVal(str(Fraction(2) ** n))
                    ex.side.append(z3.And(z3.Implies(x >= p2, y >= n), z3.Implies(x < p2, y < n), z3.Implies(x == p2, y == n)))
            else:
                ex.side.append(y > 0)
                for n in range(-64, 65):
                    p2 = z3.RealVal(str(Fraction(2) ** n))
                    ex.side.append(z3.And(z3.Implies(x >= n, y >= p2), z3.Implies(x < n, y < p2), z3.Implies(x == n, y == p2)))
            ex.transcendental_calls = getattr(ex, 'transcendental_calls', 0) + 1
            return FLin(y)
        if k in ('max', 'min'):
            a, b = ex.to_lin(args[0]), ex.to_lin(args[1])
            from .values import FLin
            return FLin(z3.If(a >= b, a, b) if k == 'max' else z3.If(a <= b, a, b))
        if k in ('is_nan', 'is_infinite'):
            return z3.BoolVal(False)        # finite values only (stated domain)
        if k in ('is_finite',):
            return z3.BoolVal(True)
        if k in ('is_sign_negative',):
            return ex.to_lin(args[0]) < 0
        if k in ('is_sign_positive',):
            return ex.to_lin(args[0]) >= 0
    # ---------------------------------------------------------------- ranges
    if c.endswith('RangeInclusive::new'):
        return Struct(args)
    if c.endswith('RangeInclusive::contains') or c.endswith('Range::contains'):
        r = _val(ex, st, args[0]); x = _val(ex, st, args[1])
        if c.endswith('RangeInclusive::contains'):
            return z3.And(r.f[0] <= x, x <= r.f[1])
        return z3.And(r.f[0] <= x, x < r.f[1])
    # ---------------------------------------------------------------- conversions
    m = re.match(r'^<(\w+) as (?:From|Into)<(\w+)>>::(from|into)$', c)
    if m and m.group(1) in INTTY and m.group(2) in INTTY:
        return args[0]        # lossless by construction of the std impls
    if m and m.group(1) == 'f64' and m.group(2) in INTTY and m.group(3) == 'from':
        return FConst(args[0].as_long()) if z3.is_int_value(args[0]) else FMono([args[0]], 1, 0)
    m = re.match(r'^<(\w+) as TryFrom<(\w+)>>::try_from$|^<(\w+) as TryInto<(\w+)>>::try_into$', c)
    if m:
        dst = m.group(1) or m.group(4); src = m.group(2) or m.group(3)
        if dst in INTTY and src in INTTY:
            lo, hi = INTTY[dst]; v = args[0]
            ok = z3.And(v >= lo, v <= hi)
            return Enum(z3.If(ok, z3.IntVal(0), z3.IntVal(1)), {'Ok': Struct([v]), 'Err': Struct([Opaque('TryFromIntError')])})
    if re.match(r'^<(.+) as Into<(.+)>>::into$', c):
        m = re.match(r'^<(.+) as Into<(.+)>>::into$', c)
        cands = ex.prog.resolve('<%s as From<%s>>::from' % (m.group(2), m.group(1)), 1)
        if len(cands) == 1:
            return ex.inline(cands[0], args, st)
        if base_type_name(m.group(1)) == base_type_name(m.group(2)):
            return args[0]
    if re.match(r'^<(.+) as From<(.+)>>::from$', c):
        m = re.match(r'^<(.+) as From<(.+)>>::from$', c)
        if m.group(1) == m.group(2):
            return args[0]
    m = re.match(r'^<(?:std::boxed::)?Box<(.+)> as Default>::default$', c)
    if m:
        cands = ex.prog.resolve('<%s as Default>::default' % m.group(1), 0)
        if len(cands) == 1:
            return ex.inline(cands[0], [], st)
    if re.match(r'^<.+ as Clone>::clone$', c):
        cands = ex.prog.resolve(callee, 1)
        if len(cands) != 1:
            return _val(ex, st, args[0])
    if re.match(r'^<.+ as (Deref|DerefMut|AsRef<.+>|AsMut<.+>|Borrow<.+>)>::(deref|deref_mut|as_ref|as_mut|borrow)$', c):
        cands = ex.prog.resolve(callee, 1)
        if len(cands) != 1:
            v = _val(ex, st, args[0])
            if isinstance(v, (Ref, IteRef)):
                return v
            return args[0]
    # ---------------------------------------------------------------- Try / Option / Result plumbing
    if re.match(r'^<(Result|Option|std::result::Result|std::option::Option)<.*> as (std::ops::)?Try>::branch$', c):
        v = args[0]
        if c.startswith('<Result') or 'result::Result' in c:
            ok = v.p.get('Ok'); er = v.p.get('Err')
            brk = Enum(1, {'Err': er}) if er is not None else Enum(1, {})
            pl = {}
            if ok is not None:
                pl['Continue'] = Struct([ok.f[0]])
            pl['Break'] = Struct([brk])
            return Enum(v.disc() if not isinstance(v.d, int) else v.d, pl)      # Ok=0->Continue=0, Err=1->Break=1
        sm = v.p.get('Some')
        pl = {'Break': Struct([Enum(0, {'None': UNIT})])}
        if sm is not None:
            pl['Continue'] = Struct([sm.f[0]])
        d = v.d
        return Enum((1 - d) if isinstance(d, int) else (1 - d), pl)          # Some=1->Continue=0, None=0->Break=1
    if re.match(r'^<(Result|std::result::Result)<.*> as (std::ops::)?FromResidual<.*>>::from_residual$', c):
        v = args[0]
        er = v.p.get('Err')
        if er is None:
            raise EngineError('from_residual without Err payload')
        # `?` converts the error with From: identity when the error types agree
        m = re.match(r'^<(?:std::result::)?Result<(.*)> as (?:std::ops::)?FromResidual<(?:std::result::)?Result<(.*)>>>::from_residual$', c)
        from .parser import split_top
        dst_e = split_top(m.group(1))[-1]; src_e = split_top(m.group(2))[-1]
        payload = er.f[0]
        if base_type_name(dst_e) != base_type_name(src_e):
            cands = ex.prog.resolve('<%s as From<%s>>::from' % (dst_e, src_e), 1)
            if len(cands) == 1:
                (s2, pv), = ex.inline(cands[0], [payload], st)
                return [(s2, Enum(1, {'Err': Struct([pv])}))]
            payload = Opaque('from(%s)' % src_e)
        return Enum(1, {'Err': Struct([payload])})
    if re.match(r'^<(Option|std::option::Option)<.*> as (std::ops::)?FromResidual<.*>>::from_residual$', c):
        return NONE
    m = re.match(r'^(?:std::option::|core::option::)?Option::(\w+)$', c)
    if m:
        k = m.group(1); v = _val(ex, st, args[0])
        if isinstance(v, Opaque) and k in ('unwrap', 'expect', 'unwrap_or_default'):
            return Opaque('unwrap(%s)' % v.tag)
        if not isinstance(v, Enum):
            return NotImplemented
        d = v.disc()
        if k in ('is_some', 'is_none'):
            return d == 1 if k == 'is_some' else d == 0
        if k in ('unwrap', 'expect'):
            ex.obligations.append(Obligation(z3.And(st.pcond(), d == 0), 'Option::%s on None' % k, fn.name))
            st.pc.append(d == 1)
            if 'Some' not in v.p:
                raise Panic('Option::%s on None' % k)
            return v.p['Some'].f[0]
        if k == 'unwrap_or':
            if 'Some' not in v.p:
                return args[1]
            return ite(d == 1, v.p['Some'].f[0], args[1])
        if k == 'map_or' and len(args) == 3 and 'Some' in v.p:
            r = call_closure(ex, st.fork(), callee, args[2], [v.p['Some'].f[0]])
            if r is not None:
                return ite(d == 1, r[1], args[1])
        if k == 'filter' and len(args) == 2 and 'Some' in v.p:
            st2 = st.fork(); st2.mem[('clo', 'filter_arg')] = v.p['Some'].f[0]
            r = call_closure(ex, st2, callee, args[1], [Ref('clo', 'filter_arg')])
            if r is not None and isinstance(r[1], z3.ExprRef) and z3.is_bool(r[1]):
                return Enum(z3.If(z3.And(d == 1, r[1]), z3.IntVal(1), z3.IntVal(0)), {'Some': v.p['Some'], 'None': UNIT})
        if k == 'map' and len(args) == 2 and 'Some' in v.p:
            s_some = st.fork()
            r = call_closure(ex, s_some, callee, args[1], [v.p['Some'].f[0]])
            if r is not None:
                s2 = r[0]
                if len(s2.trace) == len(st.trace) and len(s2.pc) == len(st.pc):
                    return Enum(v.d, {'Some': Struct([r[1]]), 'None': UNIT})
                # the closure has effects (environment events) or constrains the path: it runs only when the option is Some
                if isinstance(v.d, int):
                    st.mem, st.pc, st.trace, st.visits = s2.mem, s2.pc, s2.trace, s2.visits
                    return Enum(v.d, {'Some': Struct([r[1]]), 'None': UNIT})
                s2.pc.append(d == 1)
                st.pc.append(d == 0)
                return [(st, NONE), (s2, Enum(1, {'Some': Struct([r[1]]), 'None': UNIT}))]
        if k in ('as_ref', 'as_mut') and len(args) == 1 and isinstance(args[0], Ref):
            r0 = args[0]
            pl = {'None': UNIT}
            if 'Some' in v.p:
                pl['Some'] = Struct([Ref(r0.frame, r0.local, tuple(r0.path) + (('as', 'Some'), 0))])
            return Enum(v.d, pl)
        if k == 'unwrap_or_else' and len(args) == 2:
            r = call_closure(ex, st.fork(), callee, args[1], [])
            if r is not None:
                return ite(d == 1, v.p['Some'].f[0], r[1]) if 'Some' in v.p else r[1]
        if k == 'ok_or':
            pl = {'Err': Struct([args[1]])}
            if 'Some' in v.p:
                pl['Ok'] = v.p['Some']
            return Enum(1 - d, pl)
        if k == 'ok_or_else' and len(args) == 2:
            r = call_closure(ex, st.fork(), callee, args[1], [])
            if r is not None:
                pl = {'Err': Struct([r[1]])}
                if 'Some' in v.p:
                    pl['Ok'] = v.p['Some']
                return Enum(1 - d, pl)
        if k == 'and_then' and len(args) == 2 and 'Some' in v.p:
            r = call_closure(ex, st.fork(), callee, args[1], [v.p['Some'].f[0]])
            if r is not None and isinstance(r[1], Enum):
                return Enum(z3.If(d == 1, r[1].disc(), z3.IntVal(0)), dict(r[1].p, **{'None': UNIT}))
        if k in ('or', 'xor') and len(args) == 2 and isinstance(_val(ex, st, args[1]), Enum) and k == 'or':
            return ite(d == 1, v, _val(ex, st, args[1]))
        if k == 'or_else' and len(args) == 2:
            r = call_closure(ex, st.fork(), callee, args[1], [])
            if r is not None and isinstance(r[1], Enum):
                return ite(d == 1, v, r[1])
        if k == 'is_some_and' and len(args) == 2 and 'Some' in v.p:
            r = call_closure(ex, st.fork(), callee, args[1], [v.p['Some'].f[0]])
            if r is not None and isinstance(r[1], z3.ExprRef) and z3.is_bool(r[1]):
                return z3.And(d == 1, r[1])
        if k in ('copied', 'cloned') and len(args) == 1:
            if 'Some' in v.p:
                inner = v.p['Some'].f[0]
                return Enum(v.d, {'Some': Struct([_val(ex, st, inner)]), 'None': UNIT})
            return v
        if k in ('take', 'replace') and isinstance(args[0], Ref):
            r0 = args[0]
            newv = NONE if k == 'take' else Enum(1, {'Some': Struct([args[1]]), 'None': UNIT})
            ex.store(st, r0.frame, (r0.local, list(r0.path)), newv)
            return v
        if k == 'insert' and isinstance(args[0], Ref) and len(args) == 2:
            r0 = args[0]
            ex.store(st, r0.frame, (r0.local, list(r0.path)), Enum(1, {'Some': Struct([args[1]]), 'None': UNIT}))
            return Ref(r0.frame, r0.local, tuple(r0.path) + (('as', 'Some'), 0))
    m = re.match(r'^(?:std::result::|core::result::)?Result::(\w+)$', c)
    if m:
        k = m.group(1); v = _val(ex, st, args[0])
        if isinstance(v, Opaque) and k in ('unwrap', 'expect', 'unwrap_or_default'):
            return Opaque('unwrap(%s)' % v.tag)
        if not isinstance(v, Enum):
            return NotImplemented
        d = v.disc()
        if k in ('is_ok', 'is_err'):
            return d == 0 if k == 'is_ok' else d == 1
        if k in ('unwrap', 'expect'):
            ex.obligations.append(Obligation(z3.And(st.pcond(), d == 1), 'Result::%s on Err' % k, fn.name))
            st.pc.append(d == 0)
            if 'Ok' not in v.p:
                raise Panic('Result::%s on Err' % k)
            return v.p['Ok'].f[0]
        if k == 'ok':
            pl = {'None': UNIT}
            if 'Ok' in v.p:
                pl['Some'] = v.p['Ok']
            return Enum(1 - d, pl)
        if k == 'err':
            pl = {'None': UNIT}
            if 'Err' in v.p:
                pl['Some'] = v.p['Err']
            return Enum(d, pl)
        if k == 'unwrap_or':
            if 'Ok' not in v.p:
                return args[1]
            return ite(d == 0, v.p['Ok'].f[0], args[1])
        if k == 'unwrap_or_default':
            mt = re.search(r'Result::<\s*([^,<>]+(?:<[^<>]*>)?)\s*,', callee)
            tname = mt.group(1).strip().split('::')[-1] if mt else ''
            dflt = Struct([z3.IntVal(0)]) if tname == 'Duration' else z3.IntVal(0) if tname in INTTY else z3.BoolVal(False) if tname == 'bool' else None
            if dflt is not None:
                if 'Ok' not in v.p:
                    return dflt
                return ite(d == 0, v.p['Ok'].f[0], dflt)
        if k == 'map_err' and len(args) == 2:
            return _call_closure_on(ex, st, fn, v, 'Err', args[1], callee, wrap=lambda x: Enum(1, {'Err': Struct([x])}))
        if k == 'map' and len(args) == 2:
            return _call_closure_on(ex, st, fn, v, 'Ok', args[1], callee, wrap=lambda x: Enum(0, {'Ok': Struct([x])}))
        if k == 'map_or' and len(args) == 3 and 'Ok' in v.p:
            r = call_closure(ex, st.fork(), callee, args[2], [v.p['Ok'].f[0]])
            if r is not None:
                return ite(d == 0, r[1], args[1])
        if k == 'unwrap_or_else' and len(args) == 2 and 'Err' in v.p:
            r = call_closure(ex, st.fork(), callee, args[1], [v.p['Err'].f[0]])
            if r is not None:
                return ite(d == 0, v.p['Ok'].f[0], r[1]) if 'Ok' in v.p else r[1]
        if k == 'and_then' and len(args) == 2 and 'Ok' in v.p:
            r = call_closure(ex, st.fork(), callee, args[1], [v.p['Ok'].f[0]])
            if r is not None and isinstance(r[1], Enum):
                pl = dict(r[1].p)
                if 'Err' in v.p and 'Err' not in pl:
                    pl['Err'] = v.p['Err']
                elif 'Err' in v.p and 'Err' in pl:
                    pl['Err'] = ite(d == 0, pl['Err'], v.p['Err'])
                return Enum(z3.If(d == 0, r[1].disc(), z3.IntVal(1)), pl)
        if k in ('is_ok_and', 'is_err_and') and len(args) == 2:
            var = 'Ok' if k == 'is_ok_and' else 'Err'
            if var in v.p:
                r = call_closure(ex, st.fork(), callee, args[1], [v.p[var].f[0]])
                if r is not None and isinstance(r[1], z3.ExprRef) and z3.is_bool(r[1]):
                    return z3.And(d == (0 if var == 'Ok' else 1), r[1])
        if k in ('unwrap_err', 'expect_err') and 'Err' in v.p:
            ex.obligations.append(Obligation(z3.And(st.pcond(), d == 0), 'Result::%s on Ok' % k, fn.name))
            st.pc.append(d == 1)
            return v.p['Err'].f[0]
        if k == 'unwrap_or_default' and 'Ok' in v.p:
            okv = v.p['Ok'].f[0]
            if isinstance(okv, z3.ExprRef) and z3.is_int(okv):
                return ite(d == 0, okv, z3.IntVal(0))
    # ---------------------------------------------------------------- integer ranges (for loops): Struct([start, end])
    if re.match(r'^<(?:std::ops::|core::ops::)?Range<\w+> as IntoIterator>::into_iter$', c):
        return args[0]
    if re.match(r'^<(?:std::ops::|core::ops::)?Range<\w+> as Iterator>::next$', c) and isinstance(args[0], Ref):
        r0 = args[0]
        rng = ex.deref(st, r0)
        if isinstance(rng, Struct) and len(rng.f) == 2 and all(isinstance(x, z3.ExprRef) for x in rng.f):
            a_, b_ = rng.f
            s_some = st.fork(); s_some.pc.append(a_ < b_)
            ex.store(s_some, r0.frame, (r0.local, list(r0.path)), Struct([a_ + 1, b_]))
            st.pc.append(z3.Not(a_ < b_))
            return [(st, NONE), (s_some, Enum(1, {'Some': Struct([a_]), 'None': UNIT}))]
    # ---------------------------------------------------------------- std::time::Duration as exact integer nanoseconds (Struct([ns]))
    m = re.search(r'(^|::)Duration::(new|from_secs|from_millis|from_micros|from_nanos|as_secs_f32|as_secs_f64|as_secs|as_nanos|as_millis|as_micros|subsec_nanos)$', c)
    if m:
        k = m.group(2)
        NSv = 10 ** 9
        if k == 'new' and len(args) == 2:
            return Struct([args[0] * NSv + args[1]])
        if k in ('from_secs', 'from_millis', 'from_micros', 'from_nanos') and len(args) == 1 and isinstance(args[0], z3.ExprRef):
            return Struct([args[0] * {'from_secs': NSv, 'from_millis': 10 ** 6, 'from_micros': 1000, 'from_nanos': 1}[k]])
        a0 = _val(ex, st, args[0])
        if isinstance(a0, Struct) and len(a0.f) == 1 and isinstance(a0.f[0], z3.ExprRef):
            ns = a0.f[0]
            if k == 'as_secs_f32':
                # (secs as f32) + (nanos as f32) / 1e9: the exact quotient ns / 1e9 within four binary32 roundings
                return FMono([ns], NSv, 4, 24)
            if k == 'as_secs_f64':
                return FMono([ns], NSv, 3, 53)
            if k == 'as_secs':
                return ns / NSv
            if k == 'subsec_nanos':
                return ns % NSv
            if k in ('as_nanos', 'as_millis', 'as_micros'):
                return ns / {'as_nanos': 1, 'as_millis': 10 ** 6, 'as_micros': 1000}[k]
    if re.search(r'(^|::)SystemTimeError::duration$', c) and args:
        # SystemTimeError(Duration): how far the other instant lies ahead
        v = _val(ex, st, args[0])
        if isinstance(v, Struct) and len(v.f) == 1 and isinstance(v.f[0], Struct):
            return v.f[0]
    m = re.search(r'(^|::)NonZero(?:[IU]\w+)?::(new|get|new_unchecked)$', c)
    if m and len(args) == 1:
        k = m.group(2)
        if k == 'new' and isinstance(args[0], z3.ExprRef):
            return Enum(z3.If(args[0] != 0, z3.IntVal(1), z3.IntVal(0)), {'Some': Struct([Struct([args[0]])]), 'None': UNIT})
        if k == 'new_unchecked' and isinstance(args[0], z3.ExprRef):
            ex.obligations.append(Obligation(z3.And(st.pcond(), args[0] == 0), 'NonZero::new_unchecked(0) (undefined behaviour)', fn.name))
            return Struct([args[0]])
        if k == 'get':
            v = _val(ex, st, args[0])
            if isinstance(v, Struct) and len(v.f) == 1:
                return v.f[0]
    if re.search(r'(const_ptr|mut_ptr)::<impl \*(const|mut) [^>]*>::is_null$', c) and len(args) == 1:
        # a raw pointer the caller handed in: null only when the harness says so (Opaque('nullptr'))
        from .values import Ptr as _Ptr
        a0 = args[0]
        if isinstance(a0, Opaque):
            return z3.BoolVal(a0.tag == 'nullptr')
        if isinstance(a0, (Ref, _Ptr)):
            return z3.BoolVal(False)
    m = re.search(r'(^|::)cmp::(min|max)$', c)
    if m and len(args) == 2:
        a, b = _val(ex, st, args[0]), _val(ex, st, args[1])
        k = m.group(2)
        if isinstance(a, z3.ExprRef) and isinstance(b, z3.ExprRef) and z3.is_int(a) and z3.is_int(b):
            return z3.If(a <= b, a, b) if k == 'min' else z3.If(a >= b, a, b)
        if isinstance(a, Struct) and isinstance(b, Struct) and len(a.f) == 1 and len(b.f) == 1 and isinstance(a.f[0], z3.ExprRef) and isinstance(b.f[0], z3.ExprRef):
            x, y = a.f[0], b.f[0]       # Duration / Instant / SystemTime as exact integer ns
            return Struct([z3.If(x <= y, x, y) if k == 'min' else z3.If(x >= y, x, y)])
    m = re.search(r'(^|::)cmp::(min|max)::<(.+)>$', callee.strip())
    if m and len(args) == 2:
        # a user type: through the type's own Ord::cmp body (std: max(a, b) = if a > b { a } else { b }; min(a, b) = if b < a { b } else { a })
        cands = ex.prog.resolve('<%s as Ord>::cmp' % m.group(3).split('::')[-1], 2)
        if len(cands) == 1:
            a, b = args
            ra, rb = a, b
            if not isinstance(a, (Ref, IteRef)):
                st.mem[('clo', id(a))] = a; ra = Ref('clo', id(a))
            if not isinstance(b, (Ref, IteRef)):
                st.mem[('clo', id(b))] = b; rb = Ref('clo', id(b))
            outs = ex.inline(cands[0], [ra, rb], st)
            res = []
            for s2, v in outs:
                o = v.disc()
                res.append((s2, ite(o == 1, _val(ex, s2, a), _val(ex, s2, b))))
            return res
    # pure Duration arithmetic / comparisons (exact integer nanoseconds)
    m = (re.search(r'(^|::)Duration::(saturating_sub|saturating_add|checked_add|checked_sub|subsec_micros|subsec_millis|is_zero|abs_diff)$', c)
         or re.search(r'^<(?:std::time::)?Duration as (?:Ord|PartialOrd|PartialEq)>::(max|min|clamp|gt|ge|lt|le|eq|ne)$', c)
         or re.search(r'^<(?:std::time::)?Duration as (?:Add|Sub)(?:<(?:std::time::)?Duration>)?>::(add|sub)$|^<(?:std::time::)?Duration as (?:Mul|Div)<u32>>::(mul|div)$', c))
    if m and args:
        k = [g for g in m.groups() if g and not g.startswith(':') and g != ''][-1]
        DMAX = (2 ** 64 - 1) * 10 ** 9 + 999_999_999
        vs = [_val(ex, st, a) for a in args]
        ns = [v.f[0] if isinstance(v, Struct) and len(v.f) == 1 else v for v in vs]
        if all(isinstance(x, z3.ExprRef) for x in ns):
            x = ns[0]; y = ns[1] if len(ns) > 1 else None
            if k == 'is_zero':
                return x == 0
            if k == 'subsec_micros':
                return (x % 10 ** 9) / 1000
            if k == 'subsec_millis':
                return (x % 10 ** 9) / 10 ** 6
            if k in ('gt', 'ge', 'lt', 'le', 'eq', 'ne'):
                return {'gt': x > y, 'ge': x >= y, 'lt': x < y, 'le': x <= y, 'eq': x == y, 'ne': x != y}[k]
            if k == 'max':
                return Struct([z3.If(x >= y, x, y)])
            if k == 'min':
                return Struct([z3.If(x <= y, x, y)])
            if k == 'clamp' and len(ns) == 3:
                return Struct([z3.If(x < y, y, z3.If(x > ns[2], ns[2], x))])
            if k == 'abs_diff':
                return Struct([z3.If(x >= y, x - y, y - x)])
            if k == 'saturating_sub':
                return Struct([z3.If(x >= y, x - y, z3.IntVal(0))])
            if k == 'saturating_add':
                return Struct([z3.If(x + y <= DMAX, x + y, z3.IntVal(DMAX))])
            if k in ('checked_add', 'checked_sub'):
                v = x + y if k == 'checked_add' else x - y
                return Enum(z3.If(z3.And(v >= 0, v <= DMAX), z3.IntVal(1), z3.IntVal(0)), {'Some': Struct([Struct([v])]), 'None': UNIT})
            if k == 'add':
                ex.obligations.append(Obligation(z3.And(st.pcond(), x + y > DMAX), 'overflow when adding durations', fn.name))
                return Struct([x + y])
            if k == 'sub':
                ex.obligations.append(Obligation(z3.And(st.pcond(), x < y), 'overflow when subtracting durations', fn.name))
                return Struct([x - y])
            if k == 'mul':
                return Struct([x * y])
            if k == 'div':
                ex.obligations.append(Obligation(z3.And(st.pcond(), y == 0), 'division of a duration by zero', fn.name))
                return Struct([x / y])
    # ---------------------------------------------------------------- OnceLock / OnceCell / LazyLock: the value the initialiser computes
    # (the first caller runs it; later callers see that same value: an arbitrary-but-fixed environment answers identically)
    if re.search(r'(^|::)Once(Lock|Cell)(::<.*>)?::get_or_init(::<.*>)?$', callee.strip()) and len(args) == 2:
        outs = _closure_outcomes(ex, st.fork(), callee, args[1], [])
        if outs:
            res = []
            for s2, val in outs:
                key = ('once', len(s2.mem))
                s2.mem[key] = val
                res.append((s2, Ref(*key)))
            if len(res) == 1:
                s2 = res[0][0]
                st.mem, st.pc, st.trace, st.visits = s2.mem, s2.pc, s2.trace, s2.visits
                return res[0][1]
            return res
    # ---------------------------------------------------------------- memory
    if re.search(r'MaybeUninit::uninit$', c):
        return Struct([None])
    if re.search(r'MaybeUninit::(as_mut_ptr|as_ptr)$', c):
        r = args[0]
        if isinstance(r, Ref):
            return Ref(r.frame, r.local, r.path + (0,))
    if re.search(r'MaybeUninit::assume_init$', c):
        v = args[0]
        if isinstance(v, Struct) and v.f and v.f[0] is not None:
            return v.f[0]
        raise Panic('assume_init of uninitialised memory (undefined behaviour)')
    if re.search(r'(^|::)mem::size_of$', c) or c.endswith('::size_of') or c == 'size_of':
        m = re.search(r'size_of::<(.+)>$', callee.strip())
        if m:
            return z3.IntVal(ex.size_of(m.group(1)))
    if re.search(r'(^|::)mem::(forget|drop)$', c) or c in ('drop', 'std::mem::drop', 'forget'):
        return UNIT
    m = re.search(r'(^|::)mem::(replace|swap|take)$', c) or re.fullmatch(r'(replace|swap)', c)
    if m and args and isinstance(args[0], Ref):
        k = m.group(m.lastindex)
        r0 = args[0]
        old_v = ex.deref(st, r0)
        if k == 'replace' and len(args) == 2:
            ex.store(st, r0.frame, (r0.local, list(r0.path)), args[1])
            return old_v
        if k == 'swap' and len(args) == 2 and isinstance(args[1], Ref):
            r1 = args[1]
            other = ex.deref(st, r1)
            ex.store(st, r0.frame, (r0.local, list(r0.path)), other)
            ex.store(st, r1.frame, (r1.local, list(r1.path)), old_v)
            return UNIT
        if k == 'take' and isinstance(old_v, z3.ExprRef):
            ex.store(st, r0.frame, (r0.local, list(r0.path)), z3.BoolVal(False) if z3.is_bool(old_v) else z3.IntVal(0))
            return old_v
    if re.search(r'(^|::)Box::new$', c) or re.search(r'(^|::)Box::<.*>::new$', c):
        return args[0]
    if re.search(r'(^|::)hint::(black_box|must_use)$', c):
        return args[0]
    if re.search(r'(^|::)(hint::)?spin_loop$', c) or re.search(r'(^|::)thread::yield_now$', c) or c == 'yield_now':
        return UNIT
    if re.search(r'ptr::(const_ptr|mut_ptr)::<impl \*(const|mut) .+>::(cast|cast_mut|cast_const)$', c):
        return args[0]
    m = re.search(r'ptr::(?:const_ptr|mut_ptr)::<impl \*(?:const|mut) (.+)>::(add|byte_add|offset|sub)$', c)
    if m:
        p, n = args
        n = z3.simplify(n)
        if isinstance(p, Ptr) and z3.is_int_value(n):
            sz = ex.size_of(m.group(1)) if m.group(2) != 'byte_add' else 1
            k = n.as_long() * sz
            return Ptr(p.region, p.off + (k if m.group(2) != 'sub' else -k))
        raise EngineError('pointer arithmetic on %r' % (p,))
    if re.search(r'(^|::)null(_mut)?$', c):
        return Opaque('null')
    if re.search(r'ptr::(const_ptr|mut_ptr)::<impl \*(const|mut) .+>::is_null$', c):
        p = args[0]
        if isinstance(p, (Ptr, Ref)):
            return z3.BoolVal(False)
    return NotImplemented


def _struct_eq(a, b):
    """structural equality of two symbolic values as a z3 Bool; None when a component is not comparable"""
    if isinstance(a, z3.ExprRef) and isinstance(b, z3.ExprRef):
        return a == b
    if isinstance(a, int) and isinstance(b, (int, z3.ExprRef)) or isinstance(b, int) and isinstance(a, z3.ExprRef):
        return (z3.IntVal(a) if isinstance(a, int) else a) == (z3.IntVal(b) if isinstance(b, int) else b)
    if a is UNIT and b is UNIT:
        return z3.BoolVal(True)
    if isinstance(a, Struct) and isinstance(b, Struct) and len(a.f) == len(b.f):
        parts = [_struct_eq(x, y) for x, y in zip(a.f, b.f)]
        if any(p is None for p in parts):
            return None
        return z3.And(parts) if parts else z3.BoolVal(True)
    if isinstance(a, Enum) and isinstance(b, Enum) and set(a.p) | set(b.p) <= {'Some', 'None'}:
        # Option: None = 0, Some = 1; the payloads matter only when both are Some
        da, db = a.disc(), b.disc()
        if 'Some' in a.p and 'Some' in b.p:
            e = _struct_eq(a.p['Some'], b.p['Some'])
            if e is None:
                return None
            return z3.And(da == db, z3.Implies(da == 1, e))
        for x in (a, b):
            if 'Some' not in x.p and not z3.is_int_value(z3.simplify(x.disc())):
                return None
        return z3.And(da == db, da == 0)
    return None


class _ItemFn:
    name = '<fn item>'; ltypes = {}; params = []


def call_closure(ex, st, callee, closure, cargs):
    """invoke a closure whose body is in the dump; the closure type `{closure@file:l:c: l:c}` is read from the callee's
    generic arguments.  returns (state, value) or None"""
    locs = re.findall(r'\{closure@([^}]+)\}', callee)
    if isinstance(closure, Opaque) and closure.tag.startswith('item:'):
        # a plain function passed where a closure is expected
        cands = ex.prog.resolve(closure.tag[5:], len(cargs))
        if len(cands) == 1:
            outs = ex.inline(cands[0], list(cargs), st)
            if len(outs) == 1:
                return outs[0]
        elif not cands:
            # a std function the engine models itself (Duration::from_nanos, ...)
            outs = ex.call(closure.tag[5:], list(cargs), st, None, _ItemFn)
            if len(outs) == 1:
                return outs[0]
        return None
    if not locs:
        return None
    for loc in reversed(locs):
        cands = [f for lst in ex.prog.fns.values() for f in lst if '{closure#' in f.name and f.params and loc in f.ltypes.get(f.params[0], '')]
        if len(cands) > 1 and all(c.blocks == cands[0].blocks for c in cands[1:]):
            cands = cands[:1]
        if len(cands) == 1:
            f = cands[0]
            # closure bodies take (closure env, args...) ; FnOnce/FnMut/Fn differ in how the env is passed (by value / by ref)
            envp = f.ltypes.get(f.params[0], '')
            env = closure
            if envp.startswith('&') and not isinstance(closure, (Ref, IteRef)):
                st.mem[('clo', id(closure))] = closure
                env = Ref('clo', id(closure))
            outs = ex.inline(f, [env] + list(cargs), st)
            if len(outs) == 1:
                return outs[0]
    return None


def _closure_outcomes(ex, st, callee, closure, cargs):
    """like call_closure, but every return path of the closure: a list of (state, value), or None"""
    locs = re.findall(r'\{closure@([^}]+)\}', callee)
    for loc in reversed(locs):
        cands = [f for lst in ex.prog.fns.values() for f in lst if '{closure#' in f.name and f.params and loc in f.ltypes.get(f.params[0], '')]
        if len(cands) > 1 and all(c.blocks == cands[0].blocks for c in cands[1:]):
            cands = cands[:1]
        if len(cands) == 1:
            f = cands[0]
            envp = f.ltypes.get(f.params[0], '')
            env = closure
            if envp.startswith('&') and not isinstance(closure, (Ref, IteRef)):
                st.mem[('clo', id(closure))] = closure
                env = Ref('clo', id(closure))
            outs = ex.inline(f, [env] + list(cargs), st)
            return [o for o in outs] or None
    return None


def _call_closure_on(ex, st, fn, v, variant, closure, callee, wrap):
    """Result::map / map_err with a closure whose body is in the dump"""
    m = re.search(r'\{closure@([^}]+)\}', callee)
    if variant not in v.p and isinstance(v.d, int):
        return v          # the mapped variant is statically absent: the value passes through unchanged
    is_item = isinstance(closure, Opaque) and closure.tag.startswith('item:')
    if (not m and not is_item) or variant not in v.p:
        return NotImplemented
    if is_item:
        cands = ex.prog.resolve(closure.tag[5:], 1)
        if len(cands) > 1:
            return NotImplemented
        if cands:
            outs = ex.inline(cands[0], [v.p[variant].f[0]], st.fork())
        else:
            outs = ex.call(closure.tag[5:], [v.p[variant].f[0]], st.fork(), None, fn)
    else:
        loc = m.group(1)
        cands = [f for lst in ex.prog.fns.values() for f in lst if '{closure#' in f.name and f.params and loc in f.ltypes.get(f.params[0], '')]
        if len(cands) != 1:
            return NotImplemented
        outs = ex.inline(cands[0], [closure, v.p[variant].f[0]], st.fork())
    if len(outs) != 1:
        return NotImplemented
    s2, mapped = outs[0]
    d = v.disc()
    want = 1 if variant == 'Err' else 0
    other = 'Ok' if variant == 'Err' else 'Err'
    pl = {variant: Struct([mapped])}
    if other in v.p:
        pl[other] = v.p[other]
    return Enum(d if not isinstance(v.d, int) else v.d, pl)
