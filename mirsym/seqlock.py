"""Extraction of the shared-memory programs of the seqlock from MIR (front half of engine W).

`ShmWrite::write`, `ShmReader::snapshot` and the pointer set-up of `ShmWriter::new` / `ShmReader::new` are
executed by engine M with atomics, fences, volatile/plain pointer accesses and the mapping calls on the
environment list.  The result is, per function, a list of *groups*: an event list shared by all paths with
the same event skeleton, and per group the alternatives (guard, outcome kind, resulting state) that share it.
Loops are summarised per iteration (execution from the loop head back to the loop head).
"""
import re

import z3

from .exec import Exec, State, Event, parse_place
from .program import INTTY, base_type_name
from .values import Struct, Rec, Enum, Ref, Ptr, Opaque, EngineError, ite, subst, UNIT

ORDERS = {0: 'rlx', 1: 'rel', 2: 'acq', 3: 'acqrel', 4: 'sc'}
WORD = 8


def _order(v):
    if isinstance(v, Enum) and isinstance(v.d, int):
        return ORDERS[v.d]
    if isinstance(v, Enum):
        d = z3.simplify(v.d)
        if z3.is_int_value(d):
            return ORDERS[d.as_long()]
    raise EngineError('memory ordering is not a constant')


def _ptr(v):
    if isinstance(v, Ptr):
        return v
    raise EngineError('shared-memory access through %r (not a pointer into the mapped segment)' % (v,))


def _all_zero_value(v):
    """a typed value all of whose scalar fields are the constant 0 (enums: discriminant 0 without payload fields)"""
    from .values import Struct as _S, Enum as _E
    if isinstance(v, z3.ExprRef):
        x = z3.simplify(v)
        return z3.is_int_value(x) and x.as_long() == 0 or z3.is_false(x)
    if isinstance(v, _S):
        return all(_all_zero_value(x) for x in v.f)
    if isinstance(v, _E):
        d = v.disc() if not isinstance(v.d, int) else z3.IntVal(v.d)
        d = z3.simplify(d)
        return z3.is_int_value(d) and d.as_long() == 0 and all(_all_zero_value(p) for k, p in v.p.items() if p is not None and not (isinstance(p, _S) and not p.f))
    return False


class SharedEnv:
    """environment handlers that turn shared-memory accesses into trace events"""

    def __init__(self, prog, rec_size=56):
        self.prog = prog
        self.n = 0
        self.rec_size = rec_size

    def fresh(self, ex, prefix, ty='u16'):
        self.n += 1
        v = z3.Int('%s_%d' % (prefix, self.n))
        return v

    def _size_of_generic(self, ex, callee, default=None):
        m = re.search(r'Atomic::<(\w+)>', callee) or re.search(r'Atomic(U|I)(\d+)', callee)
        if m and m.group(1) in INTTY:
            return ex.size_of(m.group(1)), m.group(1)
        if m:
            return int(m.group(2)) // 8, ('u' if m.group(1) == 'U' else 'i') + m.group(2)
        raise EngineError('atomic of unknown width: ' + callee)

    def handlers(self):
        return [
            (r'(^|::)Atomic(::<\w+>|[UI]\d+)?::load$', self.h_load),
            (r'(^|::)Atomic(::<\w+>|[UI]\d+)?::store$', self.h_store),
            (r'(^|::)Atomic(::<\w+>|[UI]\d+)?::(swap|fetch_\w+|compare_exchange\w*|compare_and_swap)$', self.h_rmw),
            (r'(^|::)fence$', self.h_fence),
            (r'(^|::)compiler_fence$', self.h_cfence),
            (r'ptr::(const_ptr|mut_ptr)::<impl \*(const|mut) .+>::(read_volatile|read|read_unaligned)$', self.h_read),
            (r'(^|::)ptr::(read_volatile|read|read_unaligned)(::<.*>)?$', self.h_read),
            (r'ptr::mut_ptr::<impl \*mut .+>::(write_volatile|write|write_unaligned)$', self.h_write),
            (r'(^|::)ptr::(write_volatile|write|write_unaligned)(::<.*>)?$', self.h_write),
            (r'(^|::)(ptr::copy_nonoverlapping|ptr::copy|intrinsics::copy_nonoverlapping)', self.h_unsupported),
        ]

    def h_unsupported(self, ex, st, callee, args, fn):
        raise EngineError('unsupported shared-memory primitive ' + callee)

    def h_rmw(self, ex, st, callee, args, fn):
        # a read-modify-write by the single writer: no other thread stores to the segment, so it is its load followed by its store
        # (the ordering is split: acquire side on the load, release side on the store)
        k = callee.rsplit('::', 1)[1]
        if k not in ('fetch_add', 'fetch_sub', 'swap', 'fetch_max', 'fetch_min'):
            raise EngineError('read-modify-write atomic %s is outside the model' % k)
        p = _ptr(args[0]); size, ty = self._size_of_generic(ex, callee)
        o = _order(args[2])
        ld_o = 'acq' if o in ('acq', 'acqrel', 'sc') else 'rlx'
        st_o = 'rel' if o in ('rel', 'acqrel', 'sc') else 'rlx'
        v = self.fresh(ex, 'ld')
        lo, hi = INTTY[ty]
        ex.side.append(z3.And(v >= lo, v <= hi))
        st.trace = st.trace + (Event('load', (p.region, p.off, size, ld_o), v),)
        n = hi - lo + 1
        a = args[1]
        if k == 'fetch_add':
            new = (v + a - lo) % n + lo
        elif k == 'fetch_sub':
            new = (v - a - lo) % n + lo
        elif k == 'swap':
            new = a
        elif k == 'fetch_max':
            new = z3.If(v >= a, v, a)
        else:
            new = z3.If(v <= a, v, a)
        st.trace = st.trace + (Event('store', (p.region, p.off, size, st_o), None, {'val': new}),)
        return v

    def h_load(self, ex, st, callee, args, fn):
        if isinstance(args[0], Ref):
            # an atomic that lives in private memory (e.g. the header copy read from the file): an ordinary load
            v = ex.deref(st, args[0])
            while isinstance(v, Struct) and len(v.f) == 1:
                v = v.f[0]
            return v
        p = _ptr(args[0]); size, ty = self._size_of_generic(ex, callee)
        v = self.fresh(ex, 'ld')
        lo, hi = INTTY[ty]
        ex.side.append(z3.And(v >= lo, v <= hi))
        st.trace = st.trace + (Event('load', (p.region, p.off, size, _order(args[1])), v),)
        return v

    def h_store(self, ex, st, callee, args, fn):
        p = _ptr(args[0]); size, ty = self._size_of_generic(ex, callee)
        st.trace = st.trace + (Event('store', (p.region, p.off, size, _order(args[2])), None, {'val': args[1]}),)
        return UNIT

    def h_fence(self, ex, st, callee, args, fn):
        st.trace = st.trace + (Event('fence', (_order(args[0]),)),)
        return UNIT

    def h_cfence(self, ex, st, callee, args, fn):
        # a compiler fence emits no instruction and creates no synchronisation in the memory model
        st.trace = st.trace + (Event('cfence', (_order(args[0]),)),)
        return UNIT

    def _pointee_size(self, ex, callee, fn):
        m = re.search(r'<impl \*(?:const|mut) (.+?)>::\w+$', callee) or re.search(r'::<(.+)>$', callee)
        if not m:
            raise EngineError('pointee type of ' + callee)
        return ex.size_of(m.group(1)), m.group(1)

    def h_read(self, ex, st, callee, args, fn):
        p = _ptr(args[0]); size, ty = self._pointee_size(ex, callee, fn)
        return self.read(ex, st, p, size, 'vol' if 'volatile' in callee else 'na')

    def read(self, ex, st, p, size, flavour):
        if size > WORD:
            if size % WORD or p.off % WORD:
                raise EngineError('unaligned multi-word access')
            words = [self.fresh(ex, 'rw') for _ in range(size // WORD)]
            st.trace = st.trace + (Event('read', (p.region, p.off, size, flavour), Rec(words)),)
            return Rec(words)
        v = self.fresh(ex, 'rd')
        st.trace = st.trace + (Event('load', (p.region, p.off, size, 'na'), v),)
        return v

    def h_write(self, ex, st, callee, args, fn):
        p = _ptr(args[0]); size, ty = self._pointee_size(ex, callee, fn)
        self.write(ex, st, p, size, args[1], 'vol' if 'volatile' in callee else 'na')
        return UNIT

    def write(self, ex, st, p, size, val, flavour):
        if size > WORD:
            if not isinstance(val, Rec) and _all_zero_value(val):
                # the all-zero record (ClockErrorBound::default()): the same record a wiped segment / a new reader's cache holds
                val = Rec([z3.IntVal(getattr(self, 'default_tag', -1))] * (size // WORD))
                self.default_record_writes = getattr(self, 'default_record_writes', 0) + 1
            if not isinstance(val, Rec) or len(val.f) * WORD != size:
                raise EngineError('multi-word store of a value that is not the opaque record: %r' % (val,))
            st.trace = st.trace + (Event('write', (p.region, p.off, size, flavour), None, {'val': val}),)
        else:
            st.trace = st.trace + (Event('store', (p.region, p.off, size, 'na'), None, {'val': val}),)

    # plain MIR loads / stores through a segment pointer
    def deref_hook(self, ex, st, p, whole=True):
        if p.off == self.rec_off and whole:
            return self.read(ex, st, p, self.rec_size, 'na')
        lay = getattr(ex, 'rec_layout', None)
        if lay and self.rec_off <= p.off < self.rec_off + self.rec_size:
            # a plain load of ONE FIELD of the shared record (code that looks into the record it is about to overwrite / has just read):
            # the record is read as a whole (one event) and the field taken from it
            for i, f in enumerate(lay['fields']):
                if f['offset'] == p.off - self.rec_off:
                    from .values import Ptr as _P
                    rec = self.read(ex, st, _P(p.region, self.rec_off), self.rec_size, 'na')
                    return ex.rec_field(rec, i)
        raise EngineError('plain load from the segment at offset %d' % p.off)

    def store_hook(self, ex, st, p, path, val):
        if p.off == self.rec_off and not path:
            return self.write(ex, st, p, self.rec_size, val, 'na')
        raise EngineError('plain store into the segment at offset %d path %r' % (p.off, path))


# --------------------------------------------------------------------------------------- groups
class Alt:
    __slots__ = ('guard', 'kind', 'at', 'value', 'mem', 'locals')

    def __init__(self, guard, kind, at, value, mem, locals_):
        self.guard, self.kind, self.at, self.value, self.mem, self.locals = guard, kind, at, value, mem, locals_


class Group:
    """paths sharing one event skeleton"""
    __slots__ = ('events', 'alts')

    def __init__(self, events):
        self.events = events; self.alts = []

    def guard(self):
        return z3.Or([a.guard for a in self.alts]) if len(self.alts) > 1 else self.alts[0].guard


def skeleton(trace):
    return tuple((e.kind,) + e.args for e in trace)


def group_outcomes(outs, fr, watch_mem=(), skip_pc=0):
    """outs: Outcomes of a top-level run (frame fr).  Paths with the same event skeleton share events:
    the observation variables (event.ret) of later paths are renamed to those of the first."""
    groups = {}
    order = []
    for o in outs:
        key = skeleton(o.state.trace)
        g = groups.get(key)
        pairs = []
        if g is None:
            g = Group(list(o.state.trace)); groups[key] = g; order.append(key)
            evs = g.events
            for e in evs:
                if 'val' in e.info:
                    e.info['vals'] = [(None, e.info['val'])]
        else:
            for e0, e1 in zip(g.events, o.state.trace):
                if e1.ret is not None:
                    a = e1.ret.f if isinstance(e1.ret, Rec) else [e1.ret]
                    b = e0.ret.f if isinstance(e0.ret, Rec) else [e0.ret]
                    pairs += [(x, y) for x, y in zip(a, b) if isinstance(x, z3.ExprRef) and isinstance(y, z3.ExprRef) and z3.is_const(x) and not x.eq(y)]
        guard = z3.And(o.state.pc[skip_pc:]) if len(o.state.pc) > skip_pc else z3.BoolVal(True)
        if pairs:
            guard = z3.substitute(guard, *pairs)
        if len(g.alts) or pairs:
            for e0, e1 in zip(g.events, o.state.trace):
                if 'val' in e1.info and e1 is not e0:
                    e0.info['vals'].append((guard, subst(e1.info['val'], pairs)))
        locs = {l: subst(v, pairs) for (f, l), v in o.state.mem.items() if f == fr}
        mem = {k: subst(o.state.mem.get(k), pairs) for k in watch_mem}
        g.alts.append(Alt(guard, o.kind, o.at, subst(o.value, pairs) if o.value is not None else None, mem, locs))
    res = [groups[k] for k in order]
    for g in res:
        # the value stored by an event is the ite over the paths of the group
        for e in g.events:
            if 'vals' in e.info:
                vals = e.info['vals']
                v = vals[0][1]
                gd0 = g.alts[0].guard
                for gd, x in vals[1:]:
                    v = ite(gd, x, v)
                e.info['val'] = v
    return res


def loop_heads(fn):
    """blocks that are the target of a back edge (DFS over non-cleanup blocks)"""
    succ = {}
    for bb, stmts in fn.blocks.items():
        t = stmts[-1]
        succ[bb] = [x for x in re.findall(r'bb\d+', t.split(' -> ', 1)[1] if ' -> ' in t else '') if x not in fn.cleanup]
    heads = set(); color = {}
    back = {}
    stack = [('bb0', iter(succ.get('bb0', [])))]
    color['bb0'] = 1
    while stack:
        bb, it = stack[-1]
        for nx in it:
            if color.get(nx, 0) == 0:
                color[nx] = 1; stack.append((nx, iter(succ.get(nx, [])))); break
            if color.get(nx) == 1:
                heads.add(nx); back.setdefault(nx, set()).add(bb)
        else:
            color[bb] = 2; stack.pop()
    _BACK_EDGES[id(fn)] = back
    return heads, succ


_BACK_EDGES = {}


def loop_blocks(fn, head, succ):
    """the natural loop of `head`: the head plus every block that reaches one of its back-edge sources without passing through
    the head (so a loop nested in an outer loop does not swallow the outer one)"""
    back = _BACK_EDGES.get(id(fn), {}).get(head)
    if back:
        pred = {}
        for b, ns in succ.items():
            for n in ns:
                pred.setdefault(n, []).append(b)
        body = {head}; work = [t for t in back]
        while work:
            b = work.pop()
            if b in body:
                continue
            body.add(b)
            work.extend(pred.get(b, []))
        return body
    fwd = set(); work = [head]
    while work:
        b = work.pop()
        for n in succ.get(b, []):
            if n not in fwd:
                fwd.add(n); work.append(n)
    pred = {}
    for b, ns in succ.items():
        for n in ns:
            pred.setdefault(n, []).append(b)
    bwd = set(); work = [head]
    while work:
        b = work.pop()
        for n in pred.get(b, []):
            if n not in bwd:
                bwd.add(n); work.append(n)
    return (fwd & bwd) | {head}


def assigned_locals(fn, blocks):
    """locals that are (re)assigned as a whole or in a field inside the given blocks (stores through a
    dereference do not assign the pointer local itself)"""
    out = set()
    for bb in blocks:
        for s in fn.blocks[bb]:
            k = s.find(' = ')
            if k < 0 or s.startswith('assert(') or s.startswith('switchInt('):
                continue
            lhs = s[:k].strip()
            if lhs.startswith('discriminant('):
                lhs = lhs[len('discriminant('):-1]
            try:
                b, path = parse_place(lhs)
            except EngineError:
                continue
            if '*' not in path:
                out.add(b)
            # a local that is mutably borrowed inside the loop may be changed through the borrow (e.g. an iterator handed to next())
            for mb in re.finditer(r'&(?:raw )?mut \(?(_\d+)\b', s[k + 3:]):
                out.add(mb.group(1))
    return out


class FnSummary:
    """prefix groups (entry -> return | loop head) and, when the function has one loop, the groups of one
    iteration (loop head -> return | loop head) over symbolic loop-carried locals"""

    def __init__(self):
        self.prefix = []; self.iteration = []; self.head = None
        self.carried = {}       # local -> (z3 var, type)
        self.fn = None


_symn = [0]


def symbolic_of_type(ex, ty, name, depth=0):
    """an arbitrary value of a Rust type, from its printed name: integers, bool, Option / tuples / std time types of those, and
    structs whose field types are known from the sources.  None when the type is not understood."""
    from .parser import split_top
    ty = ty.strip()
    _symn[0] += 1
    tag = '%s_%d' % (name, _symn[0])
    if depth > 4:
        return None
    if ty in INTTY:
        v = z3.Int(tag); lo, hi = INTTY[ty]; ex.side.append(z3.And(v >= lo, v <= hi)); return v
    if ty == 'bool':
        return z3.Bool(tag)
    m = re.match(r'(?:std::option::|core::option::)?Option<(.+)>$', ty)
    if m:
        inner = symbolic_of_type(ex, m.group(1), name + '_some', depth + 1)
        if inner is None:
            return None
        d = z3.Int(tag + '_is_some'); ex.side.append(z3.And(d >= 0, d <= 1))
        return Enum(d, {'None': UNIT, 'Some': Struct([inner])})
    if ty.startswith('(') and ty.endswith(')'):
        parts = [x for x in split_top(ty[1:-1]) if x.strip()]
        vals = [symbolic_of_type(ex, x, name + '_%d' % i, depth + 1) for i, x in enumerate(parts)]
        return None if any(v is None for v in vals) else Struct(vals)
    m = re.match(r'(?:std::ops::|core::ops::)?Range<(\w+)>$', ty)
    if m and m.group(1) in INTTY:
        a = symbolic_of_type(ex, m.group(1), name + '_start', depth + 1); b = symbolic_of_type(ex, m.group(1), name + '_end', depth + 1)
        return Struct([a, b])
    if re.fullmatch(r'(?:std::time::)?(SystemTime|Instant|Duration)', ty):
        v = z3.Int(tag + '_ns'); ex.side.append(v >= 0); return Struct([v])
    b = base_type_name(ty)
    if b == 'timespec':
        return Struct([z3.Int(tag + '_s'), z3.Int(tag + '_n')])
    ftys = ex.prog.struct_field_types.get(b)
    if ftys:
        vals = [symbolic_of_type(ex, x, name + '_f%d' % i, depth + 1) for i, x in enumerate(ftys)]
        return None if any(v is None for v in vals) else Struct(vals)
    if b in ex.prog.enums and not any(True for _ in ()):        # a field-less enum of the sources: any of its discriminants
        tab = ex.prog.enums[b]
        d = z3.Int(tag + '_disc'); ex.side.append(z3.Or([d == x for x in tab.values()]))
        return Enum(d, {})
    return None


def summarise(ex, fn, args, st, watch_mem=(), obj_key=None):
    mem0 = {k: st.mem.get(k) for k in watch_mem}      # symbolic entry state of the watched memory
    heads, succ = loop_heads(fn)
    if len(heads) > 1:
        raise EngineError('%s has %d loops: outside the extraction' % (fn.name[-40:], len(heads)))
    S = FnSummary(); S.fn = fn
    fr = ex.new_frame()
    st0 = st
    outs = ex.run_body(fn, args, st0, fr=fr, stop=tuple(heads), top=True)
    S.frame = fr
    S.prefix = group_outcomes(outs, fr, watch_mem)
    if not heads:
        return S
    head = next(iter(heads)); S.head = head
    body = loop_blocks(fn, head, succ)
    assigned = assigned_locals(fn, body)
    # state at the loop head: take any prefix alternative that reached the head as the template
    at_head = [a for g in S.prefix for a in g.alts if a.kind == 'stop']
    if not at_head:
        return S
    tmpl = at_head[0]
    init = {}
    for l, v in tmpl.locals.items():
        if l in assigned:
            ty = fn.ltypes.get(l, '')
            if ty in INTTY or ty == 'bool':
                var = z3.Int('%s_%s' % (fn.name.split('::')[-1], l)) if ty != 'bool' else z3.Bool('%s_%s' % (fn.name.split('::')[-1], l))
                S.carried[l] = (var, ty); init[l] = var
            else:
                # structured loop-carried state (e.g. a cache in an Option): an arbitrary value of its type when the type is
                # understood, otherwise it must be written before it is read in every iteration
                sv = symbolic_of_type(ex, ty, '%s_%s' % (fn.name.split('::')[-1], l)) if ty and v is not None else None
                init[l] = sv
                if sv is not None:
                    S.carried_struct = getattr(S, 'carried_struct', {}); S.carried_struct[l] = (sv, ty)
        else:
            same_everywhere = all(_same_val(a.locals.get(l), v) for a in at_head)
            if not same_everywhere:
                raise EngineError('local %s differs between the paths reaching the loop head but is not assigned in the loop' % l)
            init[l] = v
    st1 = State()
    for k in watch_mem:
        # the watched memory is loop-carried state: an iteration starts from the same symbolic variables as the
        # function entry; the composition instantiates them with the memory the previous segment left behind
        st1.mem[k] = mem0.get(k)
    # memory the iteration may touch: copy the non-frame memory of the template path
    for o in outs:
        if o.kind == 'stop':
            for k, v in o.state.mem.items():
                if k[0] != fr and k not in st1.mem:
                    st1.mem[k] = v
            break
    for l, (var, ty) in S.carried.items():
        if ty in INTTY:
            lo, hi = INTTY[ty]
            ex.side.append(z3.And(var >= lo, var <= hi))
    fr2 = ex.new_frame()
    # arguments keep their values
    outs2 = ex.run_body(fn, [], st1, fr=fr2, start=head, stop=(head,), top=True, init_locals=init)
    S.iter_frame = fr2
    S.iteration = group_outcomes(outs2, fr2, watch_mem)
    S.iter_mem_template = tmpl.mem
    return S


def _same_val(a, b):
    from .values import same
    if same(a, b):
        return True
    if isinstance(a, Struct) and isinstance(b, Struct) and len(a.f) == len(b.f):
        return all(_same_val(x, y) for x, y in zip(a.f, b.f))
    if isinstance(a, Enum) and isinstance(b, Enum):
        return _same_val(a.d, b.d) and set(a.p) == set(b.p) and all(_same_val(a.p[k], b.p[k]) for k in a.p)
    return a is None and b is None


def loops_of(ex, fn, args, st, watch_mem=()):
    """every loop of fn on its own: for each loop head, the outcomes of one iteration started at the head over symbolic
    loop-carried locals (stopping at any loop head).  Returns list of dict(head, carried {local: (var, ty)}, outs [Outcome], frame).
    Loops are discovered in execution order; a loop is entered with the local values of the first path that reaches it."""
    heads, succ = loop_heads(fn)
    res = []
    fr = ex.new_frame()
    outs = ex.run_body(fn, args, st, fr=fr, stop=tuple(heads), top=True)
    pending = [(o.at, o, fr) for o in outs if o.kind == 'stop']
    seen = set()
    guard = 0
    while pending and guard < 16:
        guard += 1
        head, tmpl, tfr = pending.pop(0)
        if head in seen:
            continue
        seen.add(head)
        body = loop_blocks(fn, head, succ)
        assigned = assigned_locals(fn, body)
        carried = {}; init = {}
        for (f, l), v in tmpl.state.mem.items():
            if f != tfr:
                continue
            if l in assigned:
                ty = fn.ltypes.get(l, '')
                if ty in INTTY or ty == 'bool':
                    var = z3.Int('%s_%s_%s' % (fn.name.split('::')[-1], head, l)) if ty != 'bool' else z3.Bool('%s_%s_%s' % (fn.name.split('::')[-1], head, l))
                    carried[l] = (var, ty); init[l] = var
                    if ty in INTTY:
                        lo, hi = INTTY[ty]
                        ex.side.append(z3.And(var >= lo, var <= hi))
                else:
                    sv = symbolic_of_type(ex, ty, '%s_%s_%s' % (fn.name.split('::')[-1], head, l)) if ty and v is not None else None
                    init[l] = sv
                    if sv is not None:
                        carried[l] = (sv, ty)
            else:
                init[l] = v
        st1 = State()
        for k, v in tmpl.state.mem.items():
            if k[0] != tfr:
                st1.mem[k] = v
        fr2 = ex.new_frame()
        outs2 = ex.run_body(fn, [], st1, fr=fr2, start=head, stop=tuple(heads), top=True, init_locals=init)
        for o in outs2:
            if o.kind == 'stop' and o.at not in seen:
                pending.append((o.at, o, fr2))
        # a way round this loop may pass through a loop nested in its body: step over the inner loop (its own termination is a
        # separate obligation) by giving the locals it assigns arbitrary values and following the paths that leave it
        final = []
        work = [(o, fr2, 0) for o in outs2]
        while work:
            o, ofr, depth = work.pop()
            if not (o.kind == 'stop' and o.at != head and o.at in body and depth < 3):
                if ofr != fr2:
                    # re-home the locals of the continuation frame so that callers find them under this loop's frame
                    for (f_, l_), v_ in list(o.state.mem.items()):
                        if f_ == ofr:
                            o.state.mem[(fr2, l_)] = v_
                final.append(o)
                continue
            inner = o.at
            inner_assigned = assigned_locals(fn, loop_blocks(fn, inner, succ))
            init2 = {}
            for (f_, l_), v_ in o.state.mem.items():
                if f_ != ofr:
                    continue
                if l_ in inner_assigned:
                    init2[l_] = symbolic_of_type(ex, fn.ltypes.get(l_, ''), '%s_%s_after_%s' % (fn.name.split('::')[-1], l_, inner)) if v_ is not None else None
                else:
                    init2[l_] = v_
            st2 = State(dict((k_, v_) for k_, v_ in o.state.mem.items() if k_[0] != ofr), list(o.state.pc), o.state.trace, {})
            fr3 = ex.new_frame()
            cont = ex.run_body(fn, [], st2, fr=fr3, start=inner, stop=tuple(heads), top=True, init_locals=init2)
            for c in cont:
                if c.kind == 'stop' and c.at == inner:
                    continue            # another round of the inner loop: covered by the arbitrary values
                work.append((c, fr3, depth + 1))
        res.append(dict(head=head, carried=carried, outs=final, frame=fr2))
    return res
