"""MIR text parser for engine M.

Reads the `.mir` files that `rustc --emit=mir` writes next to every crate of a build and turns every
body (fn / const / static / promoted) into an `Fn` object: parameter list, local types, basic blocks
(list of statement strings, last one the terminator).  Nothing here interprets the code.

The grammar is that of the pinned nightly's pretty printer (`rustc_middle::mir::pretty`); anything
this parser does not recognise inside a body is kept verbatim as a statement string, so the executor
will fail loudly (INCONCLUSIVE) rather than silently skip it.
"""
import glob
import os
import re


class Fn:
    __slots__ = ('name', 'params', 'ret', 'kind', 'ltypes', 'blocks', 'crate', 'val', 'cleanup', 'debug')

    def __init__(self, name, params, ret, kind, crate):
        self.name, self.params, self.ret, self.kind, self.crate = name, params, ret, kind, crate
        self.ltypes, self.blocks, self.val = {}, {}, None
        self.cleanup = set()
        self.debug = {}

    def __repr__(self):
        return '<Fn %s [%s] %d blocks>' % (self.name[-60:], self.crate, len(self.blocks))


def split_top(s, sep=','):
    """split at top-level separators, aware of (), [], {}, <> and string literals"""
    out, depth, cur = [], 0, []
    i, n = 0, len(s)
    instr = False
    while i < n:
        c = s[i]
        if instr:
            cur.append(c)
            if c == '\\' and i + 1 < n:
                cur.append(s[i + 1]); i += 2; continue
            if c == '"':
                instr = False
            i += 1; continue
        if c == '"':
            instr = True
        elif c in '([{<':
            depth += 1
        elif c in ')]}':
            depth -= 1
        elif c == '>':
            if not (i > 0 and s[i - 1] in '-='):
                depth -= 1
        elif c == sep and depth == 0:
            out.append(''.join(cur).strip()); cur = []; i += 1; continue
        cur.append(c); i += 1
    t = ''.join(cur).strip()
    if t:
        out.append(t)
    return out


def strip_generics(s):
    """remove every `::<...>` turbofish group"""
    out = []
    i, n = 0, len(s)
    while i < n:
        if s.startswith('::<', i) and not s.startswith('::<impl ', i):
            d = 0; j = i + 2
            while j < n:
                if s[j] == '<':
                    d += 1
                elif s[j] == '>' and s[j - 1] not in '-=':
                    d -= 1
                    if d == 0:
                        break
                j += 1
            i = j + 1; continue
        out.append(s[i]); i += 1
    return ''.join(out)


def _fn_header(rest):
    """rest = text after 'fn ' and before the trailing '{'.  returns (name, params_str, ret)"""
    depth = 0; i0 = None
    for i, c in enumerate(rest):
        if c == '<':
            depth += 1
        elif c == '>' and rest[i - 1] not in '-=':
            depth -= 1
        elif c == '(' and depth == 0:
            i0 = i; break
    if i0 is None:
        return None
    d = 0; j = i0
    for j in range(i0, len(rest)):
        if rest[j] in '([':
            d += 1
        elif rest[j] in ')]':
            d -= 1
            if d == 0:
                break
    name = rest[:i0]; params = rest[i0 + 1:j]; tail = rest[j + 1:].strip()
    ret = tail[2:].strip() if tail.startswith('->') else '()'
    return name, params, ret


def parse_file(path, fns, crate=None):
    crate = crate or re.sub(r'-[0-9a-f]{16}$', '', os.path.basename(path)[:-4])
    cur = None; blk = None; seen_ctfe = False
    with open(path) as fh:
        for line in fh:
            line = line.rstrip('\n')
            if line.startswith('// MIR FOR CTFE'):
                seen_ctfe = True; continue
            if cur is None:
                if not line or line.startswith('//'):
                    continue
                mm = re.match(r'^(?:const|static(?: mut)?) (.+?): (.+?) = const (.+);$', line)
                if mm:
                    f = Fn(mm.group(1), [], mm.group(2), 'constval', crate); f.val = mm.group(3)
                    fns.setdefault(f.name, []).append(f); seen_ctfe = False; continue
                if line.endswith('{') and (line.startswith('fn ') or line.startswith('const ') or line.startswith('static ')):
                    kind, rest = line.split(' ', 1)
                    rest = rest[:-1].rstrip()
                    if rest.endswith('='):
                        rest = rest[:-1].rstrip()
                    if kind == 'fn':
                        h = _fn_header(rest)
                        if h is None:
                            continue
                        name, params, ret = h
                    else:
                        if rest.startswith('mut '):
                            rest = rest[4:]
                        k = rest.rfind(': ')
                        # the name may itself contain ': ' inside "<impl at a:b:c: d:e>"; the type never
                        # starts with a digit, so take the last ': ' that is not followed by a digit
                        while k > 0 and rest[k + 2:k + 3].isdigit():
                            k = rest.rfind(': ', 0, k)
                        name, params, ret = rest[:k], '', rest[k + 2:]
                    f = Fn(name, [], ret, kind, crate)
                    if params:
                        for p in split_top(params):
                            pm = re.match(r'(_\d+): (.+)$', p)
                            if pm:
                                f.params.append(pm.group(1)); f.ltypes[pm.group(1)] = pm.group(2)
                    f.ltypes['_0'] = ret
                    cur = f
                    cur_skip = seen_ctfe; seen_ctfe = False
                continue
            if line == '}':
                if not cur_skip:
                    fns.setdefault(cur.name, []).append(cur)
                cur = None; blk = None; continue
            s = line.strip()
            if blk is None:
                m = re.match(r'let (?:mut )?(_\d+): (.+);$', s)
                if m:
                    cur.ltypes[m.group(1)] = m.group(2); continue
                m = re.match(r'debug (\w+) => (.+);$', s)
                if m:
                    cur.debug[m.group(1)] = m.group(2); continue
                m = re.match(r'(bb\d+)( \(cleanup\))?: \{$', s)
                if m:
                    blk = []; cur.blocks[m.group(1)] = blk
                    if m.group(2):
                        cur.cleanup.add(m.group(1))
                    continue
                continue
            if s == '}':
                blk = None; continue
            if s and not s.startswith('//'):
                # strip trailing "// comment" that the printer adds to some statements
                k = s.find(' // ')
                if k >= 0 and s.count('"', 0, k) % 2 == 0:
                    s = s[:k].rstrip()
                blk.append(s[:-1] if s.endswith(';') else s)
    return fns


def parse_dir(depsdir, only=None, exclude=()):
    """parse every .mir file of a cargo deps directory.  `only`: iterable of crate stems to include."""
    fns = {}
    files = sorted(glob.glob(os.path.join(depsdir, '*.mir')))
    parsed = []
    for p in files:
        stem = re.sub(r'-[0-9a-f]{16}$', '', os.path.basename(p)[:-4])
        if only is not None and stem not in only:
            continue
        if stem in exclude:
            continue
        parse_file(p, fns, stem); parsed.append(stem)
    return fns, parsed
