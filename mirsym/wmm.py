"""Engine W: RC11 (release/acquire + relaxed + fences) executions of one writer thread against one symbolic
read-only reader, over event programs extracted from MIR by `seqlock.py`.

Exactness (DESIGN.md 3.3): single writer => mo on every location is the writer's program order; readers never
store => sw edges go writer->reader only; the consistency axioms that remain are CoWR and CoRR, encoded over
integer `rf` choices.  Plain / volatile accesses are treated as per-word relaxed atomics (stated assumption).
SeqCst is treated as AcqRel (weaker: may only add behaviours).
"""
import itertools

import z3

from .values import Struct, Rec, Enum, Ref, EngineError, subst, ite

REL = ('rel', 'acqrel', 'sc')
ACQ = ('acq', 'acqrel', 'sc')
WORD = 8


class WEv:
    """writer event instance"""
    __slots__ = ('idx', 'kind', 'loc', 'order', 'val', 'en', 'pub', 'tag')

    def __init__(self, kind, loc=None, order=None, val=None, en=None, pub=None, tag=None):
        self.kind, self.loc, self.order, self.val, self.en, self.pub, self.tag = kind, loc, order, val, en, pub, tag
        self.idx = None


class REv:
    """reader event instance"""
    __slots__ = ('pos', 'kind', 'loc', 'order', 'en', 'rf', 'val', 'var', 'call', 'rel', 'hb')

    def __init__(self, kind, loc=None, order=None, en=None, var=None, call=0):
        self.kind, self.loc, self.order, self.en, self.var, self.call = kind, loc, order, en, var, call
        self.pos = None; self.rf = None; self.val = None


class Enc:
    def __init__(self, name='x'):
        self.cons = []
        self.wev = []
        self.rev = []
        self.n = 0
        self.name = name
        self.init = {}       # loc -> initial value term
        self.wcur = {}       # loc -> current value as seen by the writer (its own latest store)
        self.notes = []
        self.floors = {}     # reader call index -> writer event index that happens-before the whole call (external sync)

    def fresh(self, p, sort=None):
        self.n += 1
        return z3.Const('%s_%s%d' % (self.name, p, self.n), sort if sort is not None else z3.IntSort())

    def add(self, *c):
        self.cons += list(c)

    # ------------------------------------------------------------------ writer
    def w_add(self, ev):
        ev.idx = len(self.wev); self.wev.append(ev); return ev

    def writer_segment(self, groups, pairs, pub=None, crash=None, label=''):
        """append one call of a writer function (groups from seqlock.summarise().prefix, no loop).
        pairs: substitution for the summary's input variables.  Writer loads read the writer's own latest
        store (single writer).  crash: None | z3 Int 'crash index' (events with idx > crash are disabled;
        the words of a record write at the crash point are an arbitrary subset)."""
        sels = [self.fresh('wsel', z3.BoolSort()) for _ in groups]
        self.add(z3.PbEq([(s, 1) for s in sels], 1))
        self.last_gps = []
        for g, sel in zip(groups, sels):
            gp = list(pairs)
            self.last_gps.append(gp)
            for e in g.events:
                if e.kind in ('load', 'read'):
                    if e.kind == 'read':
                        raise EngineError('writer reads a multi-word record from the segment')
                    loc = (e.args[1], e.args[2])
                    self.w_add(WEv('ld', loc, e.args[3], en=sel))
                    gp.append((e.ret, self.wvalue(loc)))
                elif e.kind == 'store':
                    loc = (e.args[1], e.args[2])
                    val = subst(e.info['val'], gp)
                    self.w_add(WEv('st', loc, e.args[3], val, en=sel, pub=pub))
                elif e.kind == 'write':
                    rec = subst(e.info['val'], gp)
                    nwords = e.args[2] // WORD
                    grp = []
                    for i in range(nwords):
                        loc = (e.args[1] + WORD * i, WORD)
                        w = self.w_add(WEv('st', loc, 'na', rec.f[i], en=sel, pub=pub, tag='word%d' % i)); grp.append(w)
                elif e.kind == 'fence':
                    self.w_add(WEv('fence', None, e.args[0], en=sel))
                elif e.kind == 'cfence':
                    pass
                else:
                    raise EngineError('writer event ' + e.kind)
            guard = subst(g.guard(), gp)
            self.add(z3.Implies(sel, guard))
        return sels

    def wvalue(self, loc):
        """content of a location as the (single, current) writer sees it: its own / its predecessors' latest
        PERFORMED store, else the initial content"""
        v = self.init_val(loc)
        for e in self.wev:
            if e.kind == 'st' and e.loc == loc:
                v = e.val if z3.is_true(z3.simplify(e.en)) else z3.If(e.en, e.val, v)
        return v

    def init_val(self, loc):
        if loc not in self.init:
            self.init[loc] = self.fresh('init%d' % loc[0])
        return self.init[loc]

    def apply_crash(self, first_idx, last_idx, crash):
        """events first_idx..last_idx belong to a writer that stops after `crash` of its events were performed
        (crash: z3 Int, number of performed events counted from first_idx).  Word stores of one record write are
        mutually unordered: when the crash falls inside such a block any subset of its words is written."""
        i = first_idx
        while i <= last_idx:
            e = self.wev[i]
            if e.tag and e.tag.startswith('word'):
                j = i
                while j + 1 <= last_idx and self.wev[j + 1].tag and self.wev[j + 1].tag.startswith('word') and self.wev[j + 1].pub == e.pub and self.wev[j + 1].en is e.en:
                    j += 1
                for k in range(i, j + 1):
                    sub = self.fresh('wsub', z3.BoolSort())
                    w = self.wev[k]
                    w.en = z3.And(w.en, z3.Or(crash > j - first_idx, z3.And(crash > i - first_idx - 0, crash <= j - first_idx, sub)))
                    # crash > j-first: whole block performed; crash in (i-first .. j-first]: arbitrary subset
                i = j + 1
            else:
                e.en = z3.And(e.en, crash > i - first_idx)
                i += 1

    # ------------------------------------------------------------------ reader
    def r_add(self, ev):
        ev.pos = len(self.rev); self.rev.append(ev); return ev

    def reader_segment(self, groups, pairs, active, call, label=''):
        """instantiate the groups of a prefix or of one loop iteration.  returns list of
        (group, sel, instance pairs).  active: z3 Bool (the segment executes)."""
        out = []
        sels = []
        for g in groups:
            sel = self.fresh('rsel', z3.BoolSort()); sels.append(sel)
            gp = list(pairs)
            for e in g.events:
                if e.kind == 'load':
                    v = self.fresh('ob')
                    gp.append((e.ret, v))
                    self.r_add(REv('ld', (e.args[1], e.args[2]), e.args[3], en=sel, var=v, call=call))
                elif e.kind == 'read':
                    nwords = e.args[2] // WORD
                    for i in range(nwords):
                        v = self.fresh('obw')
                        gp.append((e.ret.f[i], v))
                        self.r_add(REv('ld', (e.args[1] + WORD * i, WORD), 'na', en=sel, var=v, call=call))
                elif e.kind == 'fence':
                    self.r_add(REv('fence', None, e.args[0], en=sel, call=call))
                elif e.kind == 'cfence':
                    pass
                elif e.kind in ('store', 'write'):
                    raise EngineError('the reader stores into the segment')
                else:
                    raise EngineError('reader event ' + e.kind)
            self.add(z3.Implies(sel, subst(g.guard(), gp)))
            out.append((g, sel, gp))
        self.add(z3.If(active, z3.PbEq([(s, 1) for s in sels], 1), z3.Not(z3.Or(sels))))
        return out

    # ------------------------------------------------------------------ memory model
    def finish(self):
        """emit rf / coherence / synchronisation constraints for all reader loads"""
        wev, rev = self.wev, self.rev
        stores = {}
        for e in wev:
            if e.kind == 'st':
                stores.setdefault(e.loc, []).append(e)
        # byte-range sanity: accesses must not partially overlap
        locs = set(stores) | {r.loc for r in rev if r.kind == 'ld'} | {e.loc for e in wev if e.kind == 'ld'}
        for a, b in itertools.combinations(sorted(locs), 2):
            if a[0] < b[0] + b[1] and b[0] < a[0] + a[1]:
                raise EngineError('overlapping mixed-size accesses %r / %r' % (a, b))
        rel_fences = [e for e in wev if e.kind == 'fence' and e.order in REL]
        acq_fences = [r for r in rev if r.kind == 'fence' and r.order in ACQ]

        def relidx_of(w):
            """index up to which the writer's events are released by reading store w with an acquire"""
            if w.order in REL:
                return z3.IntVal(w.idx)
            r = z3.IntVal(-1)
            for f in rel_fences:
                if f.idx < w.idx:
                    r = z3.If(f.en, z3.IntVal(f.idx), r)
            return r

        for r in rev:
            if r.kind != 'ld':
                continue
            mo = stores.get(r.loc, [])
            r.rf = self.fresh('rf')
            self.add(z3.Implies(r.en, z3.And(r.rf >= 0, r.rf <= len(mo))))
            val = self.init_val(r.loc)
            rel = z3.IntVal(-1)
            for p, w in enumerate(mo, 1):
                val = z3.If(r.rf == p, w.val, val)
                rel = z3.If(r.rf == p, relidx_of(w), rel)
                self.add(z3.Implies(z3.And(r.en, r.rf == p), w.en))
            r.val = val
            r.rel = rel
            self.add(z3.Implies(r.en, r.var == val))
        # happens-before floor, computed incrementally in program order with named accumulators:
        #   P = max release index over all loads so far (what an acquire fence would synchronise with)
        #   H = current floor (raised by acquire loads immediately, by acquire fences to P)
        H = {}; Pm = {}
        lastrf = {}
        for r in rev:
            c = r.call
            if c not in H:
                fl = self.floors.get(c)
                # a later call of the same reader inherits the floor reached by the earlier ones (program order)
                prevH = [H[k] for k in H]
                base = z3.IntVal(-1)
                for hh in prevH:
                    base = z3.If(hh > base, hh, base)
                if fl is not None:
                    base = z3.If(fl > base, fl, base)
                H[c] = base
                prevP = [Pm[k] for k in Pm]
                pb = z3.IntVal(-1)
                for pp in prevP:
                    pb = z3.If(pp > pb, pp, pb)
                Pm[c] = pb
            if r.kind == 'fence':
                if r.order in ACQ:
                    nh = self.fresh('H')
                    self.add(nh == z3.If(z3.And(r.en, Pm[c] > H[c]), Pm[c], H[c]))
                    H[c] = nh
                continue
            if r.kind != 'ld':
                continue
            # CoWR: not older than the last store to this location that happens-before r
            mo = stores.get(r.loc, [])
            h = H[c]
            lastpos = z3.IntVal(0)
            for p, w in enumerate(mo, 1):
                lastpos = z3.If(z3.And(w.en, w.idx <= h), z3.IntVal(p), lastpos)
            self.add(z3.Implies(r.en, r.rf >= lastpos))
            r.hb = h
            # CoRR: not older than the previous enabled read of the same location by this reader
            key = r.loc
            if key in lastrf:
                self.add(z3.Implies(r.en, r.rf >= lastrf[key]))
                nl = self.fresh('L')
                self.add(nl == z3.If(r.en, r.rf, lastrf[key]))
                lastrf[key] = nl
            else:
                nl = self.fresh('L')
                self.add(nl == z3.If(r.en, r.rf, z3.IntVal(0)))
                lastrf[key] = nl
            # this load's contribution to synchronisation
            relv = self.fresh('rel')
            self.add(relv == z3.If(r.en, r.rel, z3.IntVal(-1)))
            np_ = self.fresh('P')
            self.add(np_ == z3.If(relv > Pm[c], relv, Pm[c]))
            Pm[c] = np_
            if r.order in ACQ:
                nh = self.fresh('H')
                self.add(nh == z3.If(relv > H[c], relv, H[c]))
                H[c] = nh
        return self.cons
