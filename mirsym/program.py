"""Program database of engine M: parsed MIR bodies + facts read from the sources the MIR points at.

* impl self types / trait names are not part of a MIR item's name (`<impl at file:l:c: l:c>::method`);
  they are read from the source text the span designates, so call resolution never guesses.
* enum variant -> discriminant tables are read from the `enum` declarations in /repo's sources
  (std's Option/Result/Ordering/ControlFlow/atomic::Ordering are hard-wired).
"""
import functools
import glob
import os
import re

from .parser import parse_dir, strip_generics, split_top
from .values import EngineError

STD_ENUMS = {
    'Option': {'None': 0, 'Some': 1},
    'Result': {'Ok': 0, 'Err': 1},
    'ControlFlow': {'Continue': 0, 'Break': 1},
    'Ordering': {'Less': -1, 'Equal': 0, 'Greater': 1},          # core::cmp::Ordering
    'atomic::Ordering': {'Relaxed': 0, 'Release': 1, 'Acquire': 2, 'AcqRel': 3, 'SeqCst': 4},
    'RecvTimeoutError': {'Timeout': 0, 'Disconnected': 1},
}

INTTY = {'i8': (-2 ** 7, 2 ** 7 - 1), 'i16': (-2 ** 15, 2 ** 15 - 1), 'i32': (-2 ** 31, 2 ** 31 - 1),
         'i64': (-2 ** 63, 2 ** 63 - 1), 'i128': (-2 ** 127, 2 ** 127 - 1), 'isize': (-2 ** 63, 2 ** 63 - 1),
         'u8': (0, 2 ** 8 - 1), 'u16': (0, 2 ** 16 - 1), 'u32': (0, 2 ** 32 - 1), 'u64': (0, 2 ** 64 - 1),
         'u128': (0, 2 ** 128 - 1), 'usize': (0, 2 ** 64 - 1)}
PRIM_SIZE = {'i8': 1, 'u8': 1, 'bool': 1, 'i16': 2, 'u16': 2, 'i32': 4, 'u32': 4, 'f32': 4, 'i64': 8, 'u64': 8,
             'f64': 8, 'isize': 8, 'usize': 8, 'i128': 16, 'u128': 16, 'c_void': 1, 'std::ffi::c_void': 1,
             'core::ffi::c_void': 1, '()': 0, 'char': 4}


def base_type_name(t):
    """`&mut nix::sys::time::TimeSpec` -> TimeSpec ; `Result<A, B>` -> Result ; `[u32; 2]` -> [u32; 2]"""
    t = t.strip()
    while True:
        for pre in ('&mut ', '&', '*const ', '*mut ', 'mut '):
            if t.startswith(pre):
                t = t[len(pre):].strip(); break
        else:
            break
    m = re.match(r"'\w+ ", t)
    if m:
        t = t[m.end():]
    if t.startswith('dyn '):
        t = t[4:]
    if t.startswith('[') or t.startswith('('):
        return t
    t = re.sub(r'<.*$', '', t)
    return t.split('::')[-1]


class Program:
    def __init__(self, depsdir, repo='/repo', only=None, exclude=('autocfg',), layouts=None):
        self.repo = repo
        self.fns, self.crates = parse_dir(depsdir, only=only, exclude=exclude)
        self.by_last = {}
        for name, lst in self.fns.items():
            last = strip_generics(name).split('::')[-1]
            for f in lst:
                self.by_last.setdefault(last, []).append(f)
        self.enums = {k: dict(v) for k, v in STD_ENUMS.items()}
        self.enum_fields = {}
        self.struct_fields = {}
        self.struct_defaults = {}
        self.struct_field_types = {}
        self._scan_sources(repo)
        self.layouts = layouts or {}
        self._impl_cache = {}

    # ------------------------------------------------------------------ source scanning
    def _scan_sources(self, repo):
        for path in glob.glob(os.path.join(repo, '*', 'src', '**', '*.rs'), recursive=True) + \
                glob.glob(os.path.join(repo, 'examples', '*', 'src', '**', '*.rs'), recursive=True):
            try:
                txt = open(path).read()
            except OSError:
                continue
            self.scan_text(txt)

    def scan_text(self, txt):
        txt = re.sub(r'//[^\n]*', '', txt)
        txt = re.sub(r'/\*.*?\*/', '', txt, flags=re.S)
        for m in re.finditer(r'\benum\s+(\w+)\s*(?:<[^>{]*>)?\s*\{', txt):
            name = m.group(1)
            body = self._balanced(txt, m.end() - 1)
            variants = {}; nxt = 0; fields = {}
            for part in split_top(body):
                part = re.sub(r'#\[[^\]]*\]', '', part).strip()
                if not part:
                    continue
                vm = re.match(r'(\w+)\s*(\(.*\)|\{.*\})?\s*(?:=\s*(-?\w+))?\s*$', part, flags=re.S)
                if not vm:
                    continue
                if vm.group(3) is not None:
                    try:
                        nxt = int(vm.group(3).replace('_', ''), 0)
                    except ValueError:
                        pass
                variants[vm.group(1)] = nxt; nxt += 1
                if vm.group(2) and vm.group(2).startswith('{'):
                    fields[vm.group(1)] = [re.match(r'\s*(?:pub\s+)?(\w+)\s*:', x).group(1)
                                           for x in split_top(vm.group(2)[1:-1]) if re.match(r'\s*(?:pub\s+)?(\w+)\s*:', x)]
            if variants and name not in self.enums:
                self.enums[name] = variants
                self.enum_fields[name] = fields
        for m in re.finditer(r'\bstruct\s+(\w+)\s*<([^>{(;]*)>', txt):
            dfl = [x.split('=')[1].strip() for x in split_top(m.group(2)) if '=' in x]
            if dfl and len(dfl) == len(split_top(m.group(2))):
                self.struct_defaults.setdefault(m.group(1), dfl)
        for m in re.finditer(r'\bstruct\s+(\w+)\s*(?:<[^>{(;]*>)?\s*(?:where[^{]*)?\{', txt):
            body = self._balanced(txt, m.end() - 1)
            names = []; types = []
            for part in split_top(body):
                part = re.sub(r'#\[[^\]]*\]', '', part).strip()
                fm = re.match(r'(?:pub(?:\([^)]*\))?\s+)?(\w+)\s*:\s*(.+)$', part, flags=re.S)
                if fm:
                    names.append(fm.group(1)); types.append(' '.join(fm.group(2).split()))
            self.struct_fields.setdefault(m.group(1), names)
            self.struct_field_types.setdefault(m.group(1), types)
        for m in re.finditer(r'\bstruct\s+(\w+)\s*\(([^;{]*)\)\s*;', txt):
            tys = [re.sub(r'^pub(\([^)]*\))?\s+', '', x.strip()) for x in split_top(m.group(2))]
            self.struct_fields.setdefault(m.group(1), [str(i) for i in range(len(tys))])
            self.struct_field_types.setdefault(m.group(1), tys)

    @staticmethod
    def _balanced(txt, i):
        """txt[i] == '{' ; return the text inside the matching braces"""
        d = 0
        for j in range(i, len(txt)):
            if txt[j] == '{':
                d += 1
            elif txt[j] == '}':
                d -= 1
                if d == 0:
                    return txt[i + 1:j]
        return txt[i + 1:]

    # ------------------------------------------------------------------ impl header of a MIR item
    @functools.lru_cache(maxsize=None)
    def _src_lines(self, path):
        p = path if os.path.isabs(path) else os.path.join(self.repo, path)
        try:
            return open(p).read().split('\n')
        except OSError:
            return None

    def impl_info(self, fn):
        """(self type base name, trait name or None, trait generic arg base name or None) or None"""
        m = re.search(r'<impl at (.+?):(\d+):(\d+): (\d+):(\d+)>', fn.name)
        if not m:
            return None
        key = m.group(0)
        if key in self._impl_cache:
            return self._impl_cache[key]
        path, l0, c0, l1, c1 = m.group(1), int(m.group(2)), int(m.group(3)), int(m.group(4)), int(m.group(5))
        lines = self._src_lines(path)
        info = None
        if lines and l0 <= len(lines):
            if l0 == l1:
                txt = lines[l0 - 1][c0 - 1:c1 - 1]
            else:
                txt = '\n'.join([lines[l0 - 1][c0 - 1:]] + lines[l0:l1 - 1] + [lines[l1 - 1][:c1 - 1]])
            txt = ' '.join(txt.split())
            if txt.startswith('impl') or txt.startswith('unsafe impl'):
                t = re.sub(r'^(unsafe )?impl\s*', '', txt)
                if t.startswith('<'):
                    d = 0
                    for j, ch in enumerate(t):
                        if ch == '<':
                            d += 1
                        elif ch == '>' and t[j - 1] not in '-=':
                            d -= 1
                            if d == 0:
                                t = t[j + 1:].strip(); break
                t = re.sub(r'\s+where\b.*$', '', t)
                mm = re.match(r'(.+?) for (.+)$', t)
                if mm:
                    tr, ty = mm.group(1).strip(), mm.group(2).strip()
                    ga = re.match(r'[\w:]+<(.+)>$', tr)
                    info = (base_type_name(ty), base_type_name(tr), base_type_name(split_top(ga.group(1))[0]) if ga else None, ty)
                else:
                    info = (base_type_name(t), None, None, t)
            else:
                # a derive: the self type is the next struct/enum declared after this line
                for k in range(l0 - 1, min(len(lines), l0 + 40)):
                    dm = re.search(r'\b(?:struct|enum|union)\s+(\w+)', lines[k])
                    if dm:
                        info = (dm.group(1), txt.strip() or None, None, dm.group(1)); break
        self._impl_cache[key] = info
        return info

    # ------------------------------------------------------------------ call resolution
    def resolve(self, callee, nargs):
        """list of candidate Fn for a callee string of a Call terminator"""
        c = callee.strip()
        m = re.match(r'^<(.+) as (.+)>::(\w+)$', strip_turbofish_tail(c))
        cands = []
        if m:
            ty, tr, meth = m.group(1), m.group(2), m.group(3)
            tyb = base_type_name(ty); trb = base_type_name(tr)
            ga = re.match(r'[\w:]+<(.+)>$', tr.strip())
            gab = base_type_name(split_top(ga.group(1))[0]) if ga else None
            for f in self.by_last.get(meth, []):
                if f.kind != 'fn' or (nargs is not None and len(f.params) != nargs):
                    continue
                info = self.impl_info(f)
                if not info or info[1] is None:
                    continue
                if info[0] != tyb or info[1] != trb:
                    continue
                if gab is not None and info[2] is not None and info[2] != gab:
                    continue
                cands.append(f)
            if len(cands) > 1:
                # several impls of the trait for differently instantiated self types: compare the type arguments
                ca = re.match(r'[\w:]+<(.+)>$', ty.strip())
                cargs = [base_type_name(x) for x in split_top(ca.group(1))] if ca else (self.default_type_args(tyb) or [])
                sel = []
                for f in cands:
                    ia = re.match(r'[\w:]+<(.+)>$', self.impl_info(f)[3].strip())
                    iargs = [base_type_name(x) for x in split_top(ia.group(1))] if ia else (self.default_type_args(tyb) or [])
                    if iargs == cargs:
                        sel.append(f)
                if sel:
                    cands = sel
            return cands
        name = strip_generics(c)
        # `poll::<impl Trait>` : a trailing impl-Trait type argument of a generic free function (in the middle of a path the same
        # syntax names an inherent impl: `num::<impl u16>::wrapping_add`)
        name = re.sub(r'::<impl [^<>]*(?:<[^<>]*>)?[^<>]*>$', '', name)
        parts = name.split('::')
        meth = parts[-1]
        # `core::num::<impl u16>::wrapping_add`, `std::ptr::mut_ptr::<impl *mut T>::write`: not in our dumps
        tyq = None
        if len(parts) >= 2:
            q = parts[-2]
            mm = re.match(r'<impl (.+)>$', q)
            tyq = base_type_name(mm.group(1)) if mm else q
        for f in self.by_last.get(meth, []):
            if f.kind != 'fn' or (nargs is not None and len(f.params) != nargs):
                continue
            info = self.impl_info(f)
            if info:
                if tyq is None or info[0] != base_type_name(tyq):
                    continue
                if info[1] is not None and tyq is not None and len(parts) >= 2 and not c.startswith('<'):
                    # `Type::method` may also name a trait method implemented for Type
                    pass
                cands.append(f)
            else:
                # free function (possibly with module path)
                fparts = strip_generics(f.name).split('::')
                if '{closure' in f.name or 'promoted[' in f.name:
                    if f.name != name and not f.name.endswith('::' + name):
                        continue
                k = min(len(fparts), len(parts))
                # compare trailing components; module prefixes differ between in-crate and cross-crate printing
                if fparts[-1] != parts[-1]:
                    continue
                if len(parts) >= 2 and len(fparts) >= 2 and fparts[-2] != parts[-2] and not _is_crate_or_mod(parts[-2], fparts):
                    continue
                cands.append(f)
        if len(cands) > 1:
            # same method generated for several instantiations of the self type (macro-generated impls share one span):
            # compare the callee's explicit type arguments with the candidates' return / receiver types
            tm = re.search(r'(\w+)(?:::<(.+)>)?::\w+(?:::<.*>)?$', c)
            if tm:
                full = tm.group(1) + ('<%s>' % tm.group(2) if tm.group(2) else '')
                norm = lambda t: re.sub(r'\s+', '', re.sub(r"^(&mut |&|\*const |\*mut )", '', t.strip()))
                sel = [f for f in cands if norm(f.ret or '') == norm(full) or (f.params and norm(f.ltypes.get(f.params[0], '')) == norm(full))]
                if sel:
                    cands = sel
        # prefer exact-name matches when several free functions share a last component
        if len(cands) > 1:
            exact = [f for f in cands if strip_generics(f.name) == name or strip_generics(f.name).endswith('::' + name)
                     or name.endswith('::' + strip_generics(f.name))]
            if len(exact) >= 1:
                cands = exact
        if len(cands) > 1:
            # identical duplicate bodies (const fn twins that escaped the CTFE filter)
            first = cands[0]
            if all(f.blocks == first.blocks and f.params == first.params for f in cands[1:]):
                cands = [first]
        return cands

    def find(self, suffix, self_ty=None, nargs=None, crate=None):
        """find a body by method/function name (last component), optionally by impl self type / crate"""
        out = []
        for f in self.by_last.get(suffix.split('::')[-1], []):
            if f.kind != 'fn':
                continue
            if nargs is not None and len(f.params) != nargs:
                continue
            if crate is not None and f.crate != crate:
                continue
            if self_ty is not None:
                info = self.impl_info(f)
                if not info or info[0] != self_ty:
                    continue
            if '::' in suffix and not strip_generics(f.name).endswith(suffix) and self_ty is None:
                continue
            out.append(f)
        if len(out) > 1 and all(f.blocks == out[0].blocks for f in out[1:]):
            out = out[:1]
        return out

    def find1(self, suffix, **kw):
        out = self.find(suffix, **kw)
        if len(out) != 1:
            raise EngineError('find(%s,%s): %d candidates %s' % (suffix, kw, len(out), [f.name[-50:] for f in out][:5]))
        return out[0]

    def default_type_args(self, struct):
        return self.struct_defaults.get(struct)

    # ------------------------------------------------------------------ enum tables
    def variant_disc(self, path):
        """path like 'ShmError::SegmentMalformed' or 'std::sync::atomic::Ordering::Acquire'.
        returns (enum name, variant, discriminant) or None"""
        parts = strip_generics(path).split('::')
        if len(parts) < 2:
            return None
        en, var = parts[-2], parts[-1]
        if en == 'Ordering' and len(parts) >= 3 and parts[-3] == 'atomic':
            en = 'atomic::Ordering'
        tab = self.enums.get(en)
        if tab is None or var not in tab:
            return None
        return en, var, tab[var]


def _is_crate_or_mod(seg, fparts):
    return seg in ('crate', 'self', 'super') or seg not in fparts


def strip_turbofish_tail(c):
    """`<A as B>::method::<T>` -> `<A as B>::method`"""
    if c.startswith('<'):
        d = 0
        for j, ch in enumerate(c):
            if ch == '<':
                d += 1
            elif ch == '>' and c[j - 1] not in '-=':
                d -= 1
                if d == 0:
                    return c[:j + 1] + strip_generics(c[j + 1:])
    return c
