"""Engine M: symbolic execution of MIR bodies into z3 terms.

Design (DESIGN.md 3.1): mathematical integers with explicit range obligations, forking on switchInt,
callee inlining from the callee's own MIR with merging of its return paths, assert terminators as panic
obligations, environment functions as trace events with fresh symbolic results, enclosures for floats.
"""
import re
from fractions import Fraction

import z3

from .parser import split_top, strip_generics
from .program import INTTY, PRIM_SIZE, base_type_name, strip_turbofish_tail
from .values import (Rec, Struct, UNIT, Enum, Ref, IteRef, Ptr, Opaque, Dyn, IteDyn, FConst, FMono, FLin, is_float, ite, same,
                     EngineError)

MUL = z3.Function('MUL', z3.IntSort(), z3.IntSort(), z3.IntSort())
BAND = z3.Function('BAND', z3.IntSort(), z3.IntSort(), z3.IntSort())


class Panic(Exception):
    pass


class Event:
    """an interaction with the environment, recorded in program order on the path's trace"""
    __slots__ = ('kind', 'args', 'ret', 'info')

    def __init__(self, kind, args=(), ret=None, info=None):
        self.kind, self.args, self.ret, self.info = kind, tuple(args), ret, info or {}

    def __repr__(self):
        return 'Ev(%s%s%s)' % (self.kind, self.args, (' -> %r' % (self.ret,)) if self.ret is not None else '')


class State:
    __slots__ = ('mem', 'pc', 'trace', 'visits')

    def __init__(self, mem=None, pc=None, trace=(), visits=None):
        self.mem = mem if mem is not None else {}
        self.pc = pc if pc is not None else []
        self.trace = trace
        self.visits = visits if visits is not None else {}

    def fork(self):
        return State(dict(self.mem), list(self.pc), self.trace, dict(self.visits))

    def pcond(self):
        return z3.And(self.pc) if self.pc else z3.BoolVal(True)


class Outcome:
    """kind: 'return' | 'stop' (reached a stop block) | 'unwound' (loop bound hit)"""
    __slots__ = ('state', 'value', 'kind', 'at')

    def __init__(self, state, value, kind='return', at=None):
        self.state, self.value, self.kind, self.at = state, value, kind, at


class Obligation:
    __slots__ = ('pc', 'desc', 'fn', 'kind')

    def __init__(self, pc, desc, fn, kind='panic'):
        self.pc, self.desc, self.fn, self.kind = pc, desc, fn, kind


_place_cache = {}


def parse_place(s):
    s = s.strip()
    r = _place_cache.get(s)
    if r is None:
        b, p, j = _pp(s, 0)
        if j != len(s):
            raise EngineError('place? trailing %r in %r' % (s[j:], s))
        r = (b, tuple(p)); _place_cache[s] = r
    return r


def _pp(s, i):
    n = len(s)
    if s[i] == '_':
        j = i + 1
        while j < n and s[j].isdigit():
            j += 1
        b, p = s[i:j], []
    elif s.startswith('(*', i):
        b, p, j = _pp(s, i + 2)
        if j >= n or s[j] != ')':
            raise EngineError('place? ' + s)
        p = p + ['*']; j += 1
    elif s[i] == '(':
        b, p, j = _pp(s, i + 1)
        if s.startswith(' as ', j):
            k = s.index(')', j)
            p = p + [('as', s[j + 4:k].strip())]; j = k + 1
        elif s[j] == '.':
            k = j + 1
            while s[k].isdigit():
                k += 1
            idx = int(s[j + 1:k])
            if not s.startswith(': ', k):
                raise EngineError('place? ' + s)
            d = 0; k += 2
            while k < n:
                if s[k] in '([':
                    d += 1
                elif s[k] in ')]':
                    if d == 0:
                        break
                    d -= 1
                k += 1
            p = p + [idx]; j = k + 1
        else:
            raise EngineError('place? ' + s)
    else:
        raise EngineError('place? ' + s)
    while j < n and s[j] == '[':
        k = s.index(']', j)
        inner = s[j + 1:k]
        m = re.fullmatch(r'(-?)(\d+) of (\d+)', inner)
        if m:
            p = p + [('cidx', int(m.group(2)), bool(m.group(1)), int(m.group(3)))]
        elif re.fullmatch(r'_\d+', inner):
            p = p + [('idx', inner)]
        else:
            raise EngineError('place index? ' + s)
        j = k + 1
    return b, p, j


def wrap_int(v, ty):
    """value of mathematical integer v after wrapping into integer type ty"""
    lo, hi = INTTY[ty]
    if z3.is_int_value(v):
        x = v.as_long()
        return z3.IntVal((x - lo) % (hi - lo + 1) + lo)
    return z3.If(z3.And(v >= lo, v <= hi), v, (v - lo) % (hi - lo + 1) + lo)


def tdiv(a, b):
    """Rust's truncating division on mathematical integers (b != 0)"""
    if z3.is_int_value(b):
        bv = b.as_long()
        if bv > 0:
            return z3.If(a >= 0, a / b, -((-a) / b))
        return z3.If(a >= 0, -(a / z3.IntVal(-bv)), (-a) / z3.IntVal(-bv))
    q = a / b  # z3: floor for b>0, ceil for b<0 (euclidean: remainder >= 0)
    # euclidean quotient -> truncating quotient: adjust when a < 0 and remainder != 0
    r = a - b * q
    return z3.If(z3.Or(a >= 0, r == 0), q, z3.If(b > 0, q + 1, q - 1))


class Exec:
    def __init__(self, prog, env=None, builtins=None, loop_bound=4, opaque_calls=()):
        self.prog = prog
        self.side = []           # facts about fresh variables (float enclosures, MUL facts): always true
        self.obligations = []    # Obligation: pc must be unsat within the domain
        self.fid = 0
        self.calls = 0
        self.env = list(env or [])                # [(regex, handler(ex, st, callee, args, fn) -> value | [Outcome-like])]
        self.extra_builtins = list(builtins or [])
        self.loop_bound = loop_bound
        self.fresh_n = 0
        self.const_cache = {}
        self.const_mem = {}      # frames of evaluated consts/promoteds: never forked
        self.inlined = {}        # name -> count, for the evidence
        self.havocs = []         # calls that were havocked (callee, caller)
        self.opaque_calls = list(opaque_calls)    # regexes of callees that may be havocked to an Opaque value
        self.mul_facts = set()
        self.mul_apps = []        # (a, b, MUL(a,b)) for counterexample-guided refinement
        self.stats = {'forks': 0, 'merges': 0}
        self.rec_layout = None   # layout of the record type behind `Rec` values: set to let the code look inside the record
        self.rec_data_used = False
        self.deref_hook = None   # (ex, st, Ptr) -> value: plain loads through pointers into a shared region
        self.store_hook = None   # (ex, st, Ptr, path, value): plain stores through such pointers
        self.inline_drops = False   # interpret user Drop impls at drop terminators (C16: descriptors are closed on every path)
        self.const_hooks = []    # [(regex, value)] named constants of std given by the check (e.g. Duration::MAX)
        self.frame_ty = {}       # frame id -> {generic parameter name: concrete type} (set when a dyn call is dispatched)
        self.no_merge = []       # regexes of callee names whose return paths are kept separate

    # ------------------------------------------------------------------ helpers
    _fresh_global = [0]

    def fresh(self, prefix, sort=None):
        # one counter for all executors of the process: constraints of two executors are routinely conjoined in one query, and
        # two unrelated fresh variables must never share a name
        Exec._fresh_global[0] += 1
        self.fresh_n = Exec._fresh_global[0]
        return z3.Const('%s!%d' % (prefix, self.fresh_n), sort if sort is not None else z3.IntSort())

    def new_frame(self):
        self.fid += 1
        return self.fid

    def int_of_type(self, prefix, ty, st=None):
        v = self.fresh(prefix)
        lo, hi = INTTY[ty]
        self.side.append(z3.And(v >= lo, v <= hi))
        return v

    # ------------------------------------------------------------------ memory
    def _get(self, st, frame, local):
        if frame in self.const_mem:
            return self.const_mem[frame].get(local)
        return st.mem.get((frame, local))

    def proj(self, st, v, path):
        for step in path:
            v = self.proj1(st, v, step)
        return v

    def proj1(self, st, v, step):
        if step == '*':
            return self.deref(st, v)
        if isinstance(step, tuple):
            if step[0] == 'as':
                if isinstance(v, Enum):
                    if step[1] not in v.p:
                        raise EngineError('downcast to %s of %r' % (step[1], v))
                    return v.p[step[1]]
                if isinstance(v, Opaque):
                    return Opaque(v.tag + ' as ' + step[1])
                raise EngineError('downcast of non-enum %r' % (v,))
            if step[0] == 'cidx':
                if not isinstance(v, Struct):
                    raise EngineError('index into %r' % (v,))
                i = step[1]
                return v.f[len(v.f) - i if step[2] else i]
            if step[0] == 'idx':
                raise EngineError('dynamic index not resolved')
        if isinstance(v, Rec):
            if self.rec_layout is None or not isinstance(step, int):
                raise EngineError('field access into an opaque record (data independence of the seqlock checks is violated)')
            # the code looks inside the record: its content is an uninterpreted function of (word, publication tag), so the
            # solver is free to choose what the publications contain
            return self.rec_field(v, step)
        if isinstance(v, Struct):
            if step >= len(v.f):
                raise EngineError('field %d of %r' % (step, v))
            return v.f[step]
        if isinstance(v, Opaque):
            return Opaque('%s.%s' % (v.tag, step))
        if isinstance(v, (Dyn, IteDyn)):
            return v            # Box<dyn T> / Unique / NonNull wrappers are transparent: the value stays the fat pointer
        if v is None:
            raise EngineError('projection .%s of uninitialised value' % (step,))
        raise EngineError('field %r of %r' % (step, v))

    def rec_field(self, rec, idx):
        lay = self.rec_layout
        f = lay['fields'][idx]
        D = z3.Function('rec_data', z3.IntSort(), z3.IntSort(), z3.IntSort())
        self.rec_data_used = True
        off, size = f['offset'], f['size']
        if size % 8 == 0 and off % 8 == 0:
            ws = [D(z3.IntVal(off // 8 + i), rec.f[off // 8 + i]) for i in range(size // 8)]
            return ws[0] if len(ws) == 1 else Struct(ws)
        if size == 4:
            H = z3.Function('rec_data_half', z3.IntSort(), z3.IntSort(), z3.IntSort(), z3.IntSort())
            val = H(z3.IntVal(off // 8), z3.IntVal((off % 8) // 4), rec.f[off // 8])
            return Enum(val, {}) if f['name'] == 'clock_status' else val
        raise EngineError('field of the record with an unexpected size')

    def deref(self, st, r):
        if isinstance(r, Ref):
            base = self._get(st, r.frame, r.local)
            return self.proj(st, base, r.path)
        if isinstance(r, IteRef):
            return ite(r.c, self.deref(st, r.a), self.deref(st, r.b))
        if isinstance(r, Dyn):
            return r.val if not isinstance(r.val, (Ref, IteRef)) else self.deref(st, r.val)
        if isinstance(r, IteDyn):
            v = self.deref(st, r.alts[-1][1])
            for c, d in reversed(r.alts[:-1]):
                v = ite(c, self.deref(st, d), v)
            return v
        if isinstance(r, Opaque):
            return Opaque('*' + r.tag)
        if isinstance(r, Ptr):
            if self.deref_hook is not None:
                return self.deref_hook(self, st, r)
            raise EngineError('plain dereference of segment pointer %r (not an atomic/volatile/ptr::read/write call)' % (r,))
        raise EngineError('deref of %r' % (r,))

    def resolve_place(self, st, fr, place):
        """-> list of (cond|None, frame, local, path) targets (several when an IteRef is crossed)"""
        b, path = place
        targets = [(None, fr, b, [])]
        for step in path:
            if isinstance(step, tuple) and step[0] == 'idx':
                iv = z3.simplify(self._get(st, fr, step[1]))
                if not z3.is_int_value(iv):
                    raise EngineError('symbolic array index')
                step = ('cidx', iv.as_long(), False, 0)
            new = []
            for cond, f, l, p in targets:
                if step == '*':
                    r = self.proj(st, self._get(st, f, l), p)
                    new += self._split_ref(cond, r)
                else:
                    new.append((cond, f, l, p + [step]))
            targets = new
        return targets

    def _split_ref(self, cond, r):
        if isinstance(r, Ref):
            return [(cond, r.frame, r.local, list(r.path))]
        if isinstance(r, IteRef):
            ca = r.c if cond is None else z3.And(cond, r.c)
            cb = z3.Not(r.c) if cond is None else z3.And(cond, z3.Not(r.c))
            return self._split_ref(ca, r.a) + self._split_ref(cb, r.b)
        if isinstance(r, Dyn):
            return self._split_ref(cond, r.val)
        if isinstance(r, Ptr):
            return [(cond, '@ptr', r, [])]
        raise EngineError('store/borrow through %r' % (r,))

    def load(self, st, fr, place):
        b, path = place
        v = self._get(st, fr, b)
        for step in path:
            if isinstance(step, tuple) and step[0] == 'idx':
                iv = z3.simplify(self._get(st, fr, step[1]))
                if not z3.is_int_value(iv):
                    raise EngineError('symbolic array index')
                step = ('cidx', iv.as_long(), False, 0)
            v = self.proj1(st, v, step)
        return v

    def store(self, st, fr, place, val):
        for cond, f, l, p in self.resolve_place(st, fr, place):
            if f == '@ptr':
                if self.store_hook is None or cond is not None:
                    raise EngineError('plain store through segment pointer %r' % (l,))
                self.store_hook(self, st, l, p, val); continue
            if f in self.const_mem:
                raise EngineError('store into a constant')
            old = st.mem.get((f, l))
            new = self.upd(old, p, val) if p else val
            if cond is not None:
                new = ite(cond, new, old)
            st.mem[(f, l)] = new

    def upd(self, v, p, val):
        if not p:
            return val
        step = p[0]
        if isinstance(step, tuple):
            if step[0] == 'as':
                if v is None:
                    v = Enum(self.fresh('disc'), {})
                pl = dict(v.p); pl[step[1]] = self.upd(v.p.get(step[1]), p[1:], val)
                return Enum(v.d, pl)
            if step[0] == 'cidx':
                i = len(v.f) - step[1] if step[2] else step[1]
                f = list(v.f); f[i] = self.upd(f[i], p[1:], val); return Struct(f)
            raise EngineError('store path %r' % (p,))
        if isinstance(v, Dyn):
            return Dyn(v.ty, self.upd(v.val, p, val))
        if v is None:
            v = Struct([None] * (step + 1))
        if isinstance(v, Opaque):
            raise EngineError('store into opaque value %r' % (v,))
        f = list(v.f) + [None] * (step + 1 - len(v.f)); f[step] = self.upd(f[step], p[1:], val)
        return Struct(f)

    # ------------------------------------------------------------------ constants / operands
    def const(self, s, st):
        s = s.strip()
        m = re.fullmatch(r'(-?\d+)_(i8|i16|i32|i64|i128|isize|u8|u16|u32|u64|u128|usize)', s)
        if m:
            return z3.IntVal(int(m.group(1)))
        m = re.fullmatch(r'(-?[\d.]+(?:E[+-]?\d+)?)f(64|32)', s)
        if m:
            return FConst(Fraction(float(m.group(1))))
        if s == 'true':
            return z3.BoolVal(True)
        if s == 'false':
            return z3.BoolVal(False)
        if s == '()':
            return UNIT
        m = re.fullmatch(r'(?:core|std)::(?:num::<impl )?(\w+)>?::(MAX|MIN)', s) or re.fullmatch(r'(\w+)::(MAX|MIN)', s)
        if m and m.group(1) in INTTY:
            lo, hi = INTTY[m.group(1)]
            return z3.IntVal(hi if m.group(2) == 'MAX' else lo)
        m = re.fullmatch(r'(?:(?:core|std)::num::)?NonZero::<(\w+)>::(MAX|MIN)', s) or re.fullmatch(r'(?:(?:core|std)::num::)?NonZero([IU]\d+|[IU]size)::(MAX|MIN)', s)
        if m and m.group(1).lower() in INTTY:
            # NonZero<T> is Struct([value]); MIN of an unsigned type is 1 (of a signed type: T::MIN)
            lo, hi = INTTY[m.group(1).lower()]
            return Struct([z3.IntVal(hi if m.group(2) == 'MAX' else (1 if lo == 0 else lo))])
        m = re.fullmatch(r'(?:(?:core|std)::time::)?Duration::(ZERO|MAX|SECOND|MILLISECOND|MICROSECOND|NANOSECOND)', s)
        if m and not any(re.search(rx, s) for rx, _v in self.const_hooks):
            # std::time::Duration as exact integer nanoseconds
            return Struct([z3.IntVal({'ZERO': 0, 'MAX': (2 ** 64 - 1) * 10 ** 9 + 999_999_999, 'SECOND': 10 ** 9, 'MILLISECOND': 10 ** 6, 'MICROSECOND': 1000, 'NANOSECOND': 1}[m.group(1)])])
        if s.startswith('"') or s.startswith('b"'):
            return Opaque('str:' + s[:60])
        if s.startswith("'"):
            return Opaque('char:' + s)
        if s.startswith('{') or s.startswith('ZeroSized') or 'PhantomData' in s:
            return UNIT if 'PhantomData' in s or 'ZeroSized' in s else Opaque('alloc:' + s[:40])
        if s.startswith('<') and s.endswith('>::NAN'):
            raise EngineError('NaN constant')
        for rx, val in self.const_hooks:
            if re.search(rx, s):
                return val
        return self.const_named(s, st)

    def const_named(self, name, st):
        key = (name, getattr(self, '_cur_crate', None))
        if key in self.const_cache:
            return self.const_cache[key]
        v = self._const_named(name, st)
        self.const_cache[key] = v
        return v

    def _const_named(self, name, st):
        prog = self.prog
        bare = strip_generics(name)
        cands = []
        pm = re.match(r'(.+)::(promoted\[\d+\])$', bare)
        if pm:
            owner, prom = pm.groups()
            for f in prog.resolve(owner, None):
                cands += prog.fns.get(f.name + '::' + prom, [])
            if not cands and '::<impl ' in owner:
                # `f::<impl Trait>` : an impl-Trait type argument of a generic function, not an inherent-impl path segment
                owner2 = re.sub(r'::<impl [^<>]*>', '', owner)
                for f in prog.resolve(owner2, None):
                    cands += prog.fns.get(f.name + '::' + prom, [])
            if not cands:
                for fname, lst in prog.fns.items():
                    if fname.endswith('::' + prom) and strip_generics(fname[:-(len(prom) + 2)]) == owner:
                        cands += lst
            if not cands:
                # the dump prints some bodies (closures) with a shorter path than the one used to refer to them
                for fname, lst in prog.fns.items():
                    if fname.endswith('::' + prom):
                        short = strip_generics(fname[:-(len(prom) + 2)])
                        if '::' in short and owner.endswith('::' + short):
                            cands += lst
        else:
            last = bare.split('::')[-1]
            for f in prog.by_last.get(last, []):
                if f.kind in ('const', 'static', 'constval'):
                    fb = strip_generics(f.name)
                    if fb == bare or fb.endswith('::' + bare) or bare.endswith('::' + fb) or fb.split('::')[-1] == last and '::' not in fb:
                        cands.append(f)
        if len(cands) > 1:
            ex = [f for f in cands if strip_generics(f.name) == bare]
            if ex:
                cands = ex
        if len(cands) > 1 and all(c.blocks == cands[0].blocks and c.val == cands[0].val for c in cands[1:]):
            cands = cands[:1]
        if len(cands) > 1 and getattr(self, '_cur_crate', None):
            # same name in several crates: a path that does not name a crate refers to the crate of the code being executed
            own = [f for f in cands if getattr(f, 'crate', None) == self._cur_crate]
            if len(own) == 1:
                cands = own
        if not cands:
            # function items and other zero-sized named constants
            return Opaque('item:' + name)
        if len(cands) != 1:
            raise EngineError('constant %s: %d candidates' % (name, len(cands)))
        f = cands[0]
        if f.kind == 'constval':
            return self.const(f.val, st)
        cst = State()
        fr = self.new_frame()
        outs = self.run_body(f, [], cst, fr=fr, top=True)
        if len(outs) != 1:
            raise EngineError('constant %s has %d paths' % (name, len(outs)))
        # keep the frame alive: promoted references point into it
        self.const_mem[fr] = {l: v for (ff, l), v in outs[0].state.mem.items() if ff == fr}
        for (ff, l), v in outs[0].state.mem.items():
            if ff != fr and ff not in self.const_mem:
                self.const_mem.setdefault(ff, {})[l] = v
        return outs[0].value

    def _owner_match(self, owner, f):
        info = self.prog.impl_info(f)
        parts = owner.split('::')
        return bool(info) and len(parts) >= 2 and info[0] == parts[-2]

    def operand(self, s, st, fr):
        s = s.strip()
        if s.startswith('copy ') or s.startswith('move '):
            return self.load(st, fr, parse_place(s[5:]))
        if s.startswith('const '):
            self._cur_crate = getattr(self, 'frame_crate', {}).get(fr)
            return self.const(s[6:], st)
        if re.fullmatch(r'[A-Za-z_][\w:<>, ]*', s) and not re.fullmatch(r'_\d+', s):
            # a function item used as a value (e.g. `Result::map(x, backdate)`)
            return Opaque('item:' + s)
        raise EngineError('operand? ' + s)

    # ------------------------------------------------------------------ floats
    U53 = Fraction(1, 2 ** 53)

    def to_lin(self, v):
        """real-valued view of a float value"""
        if isinstance(v, FLin):
            return v.x
        if isinstance(v, FConst):
            return z3.RealVal(str(v.q))
        if isinstance(v, FMono) and len(v.num) == 1:
            x = z3.ToReal(v.num[0]) / v.den
            r = x
            for _ in range(v.k):
                r = self.rounded(r, v.p)
            return r
        raise EngineError('float value %r has no linear form' % (v,))

    def rounded(self, exact, p=53):
        """fresh real within one rounding (relative 2^-p; binary64 by default) of `exact`"""
        r = self.fresh('fl', z3.RealSort())
        u = z3.RealVal(str(Fraction(1, 2 ** p)))
        self.side.append(z3.If(exact >= 0,
                               z3.And(r >= exact * (1 - u), r <= exact * (1 + u)),
                               z3.And(r <= exact * (1 - u), r >= exact * (1 + u))))
        return r

    @staticmethod
    def _pow2(q):
        q = abs(Fraction(q))
        if q == 0:
            return False
        n, d = q.numerator, q.denominator
        return (n & (n - 1)) == 0 and (d & (d - 1)) == 0

    def fbin(self, op, a, b, p=53):
        if isinstance(a, FConst) and isinstance(b, FConst):
            import math
            fa, fb = float(a.q), float(b.q)
            r = {'Add': fa + fb, 'Sub': fa - fb, 'Mul': fa * fb, 'Div': fa / fb if fb else math.nan}[op] if op in ('Add', 'Sub', 'Mul', 'Div') else None
            if r is not None:
                if r != r or r in (math.inf, -math.inf):
                    raise EngineError('non-finite float constant')
                return FConst(Fraction(r))
        if op in ('Mul', 'Div') and isinstance(a, FMono) and isinstance(b, FConst):
            q = b.q if op == 'Mul' else 1 / b.q
            if q > 0 and q.numerator == 1:
                return FMono(a.num, a.den * q.denominator, a.k + (0 if self._pow2(q) else 1), a.p)
            if q > 0 and q.denominator == 1 and self._pow2(q):
                return FMono(a.num + [z3.IntVal(q.numerator)], a.den, a.k, a.p)
        if op == 'Mul' and isinstance(b, FMono) and isinstance(a, FConst):
            return self.fbin(op, b, a, p)
        if op == 'Mul' and isinstance(a, FMono) and isinstance(b, FMono):
            return FMono(a.num + b.num, a.den * b.den, a.k + b.k + 1, min(a.p, b.p))
        if op in ('Add', 'Sub', 'Mul', 'Div'):
            if op == 'Div' and not isinstance(b, FConst):
                # division by a symbolic value: the exact real quotient within one rounding (non-linear real arithmetic). A zero divisor
                # (result +-inf or NaN in IEEE arithmetic) leaves the quotient unconstrained: every outcome of a later comparison is
                # explored, and whatever the solver proposes there is decided by the native replay
                xa, xb = self.to_lin(a), self.to_lin(b)
                self.symbolic_float_divisions = getattr(self, 'symbolic_float_divisions', 0) + 1
                return FLin(self.rounded(xa / xb, p))
            if op in ('Mul', 'Div') and not (isinstance(a, FConst) or isinstance(b, FConst)):
                raise EngineError('float %s of two symbolic non-monomial values' % op)
            xa, xb = self.to_lin(a), self.to_lin(b)
            if op == 'Add':
                return FLin(self.rounded(xa + xb, p))
            if op == 'Sub':
                return FLin(self.rounded(xa - xb, p))
            c = b if isinstance(b, FConst) else a
            other = xa if isinstance(b, FConst) else xb
            q = c.q if op == 'Mul' else 1 / c.q
            ex = other * z3.RealVal(str(q))
            if self._pow2(c.q):
                return FLin(ex)      # scaling by a power of two is exact (no underflow in the stated domain)
            if op == 'Div':
                # x / c is not x * (1/c) in binary64, but both are within one rounding of the exact quotient
                return FLin(self.rounded(other / z3.RealVal(str(c.q)), p))
            return FLin(self.rounded(ex, p))
        if op in ('Lt', 'Le', 'Gt', 'Ge', 'Eq', 'Ne'):
            xa, xb = self.to_lin(a), self.to_lin(b)
            return {'Lt': xa < xb, 'Le': xa <= xb, 'Gt': xa > xb, 'Ge': xa >= xb, 'Eq': xa == xb, 'Ne': xa != xb}[op]
        raise EngineError('float op ' + op)

    def mul_term(self, a, b):
        """product of two integer terms: real product when one is a numeral, else uninterpreted + facts"""
        if z3.is_int_value(a) or z3.is_int_value(b):
            return a * b
        P = MUL(a, b)
        key = (a.get_id(), b.get_id())
        if key not in self.mul_facts:
            self.mul_facts.add(key)
            self.mul_apps.append((a, b, P))
            self.side.append(z3.Implies(z3.And(a >= 0, b >= 0), P >= 0))
            self.side.append(z3.Implies(z3.And(a <= 0, b <= 0), P >= 0))
            self.side.append(z3.Implies(z3.And(a >= 0, b <= 0), P <= 0))
            self.side.append(z3.Implies(z3.And(a <= 0, b >= 0), P <= 0))
            self.side.append(z3.Implies(z3.Or(a == 0, b == 0), P == 0))
            self.side.append(z3.Implies(z3.And(a != 0, b != 0), P != 0))
            for K in (10 ** 9 - 1, 2 ** 32 - 1):
                self.side.append(z3.Implies(z3.And(a >= 0, b >= 0, b <= K), P <= a * K))
                self.side.append(z3.Implies(z3.And(a >= 0, b >= 0, a <= K), P <= b * K))
            self.side.append(z3.Implies(z3.And(a >= 0, b >= 1), P >= a))
            self.side.append(z3.Implies(z3.And(b >= 0, a >= 1), P >= b))
        return P

    def float_to_int(self, v, ty):
        lo, hi = INTTY[ty]
        if isinstance(v, FConst):
            import math
            return z3.IntVal(max(lo, min(hi, math.trunc(v.q))))
        g = self.fresh('f2i')
        if isinstance(v, FMono):
            P = v.num[0]
            for t in v.num[1:]:
                P = self.mul_term(P, t)
            E = 2 ** (v.p - 1); kk = v.k + 1; den = v.den
            # |computed - P/den| <= (kk/2^52) * |P/den| ; g = trunc(computed)
            self.side.append(z3.Implies(P >= 0, z3.And(g >= 0, g * den * E <= P * (E + kk), g * den * E > P * (E - kk) - den * E)))
            self.side.append(z3.Implies(P < 0, z3.And(g <= 0, g * den * E >= P * (E + kk), g * den * E < P * (E - kk) + den * E)))
            self.fp_islands = getattr(self, 'fp_islands', []) + [(v, P, g)]
        else:
            x = self.to_lin(v)
            self.side.append(z3.If(x >= 0, z3.And(z3.ToReal(g) <= x, x < z3.ToReal(g) + 1), z3.And(z3.ToReal(g) >= x, x > z3.ToReal(g) - 1)))
        return z3.If(g > hi, z3.IntVal(hi), z3.If(g < lo, z3.IntVal(lo), g))

    def float_round_fn(self, v, kind):
        """ceil / floor / round / trunc / abs / neg on a float value -> FLin"""
        if isinstance(v, FConst):
            import math
            f = {'ceil': math.ceil, 'floor': math.floor, 'trunc': math.trunc, 'abs': abs, 'neg': lambda q: -q,
                 'round': lambda q: math.floor(q + Fraction(1, 2)) if q >= 0 else -math.floor(-q + Fraction(1, 2))}[kind]
            return FConst(Fraction(f(v.q)))
        x = self.to_lin(v)
        if kind == 'abs':
            return FLin(z3.If(x >= 0, x, -x))
        if kind == 'neg':
            return FLin(-x)
        c = self.fresh('f' + kind)
        cr = z3.ToReal(c)
        if kind == 'ceil':
            self.side.append(z3.And(cr - 1 < x, x <= cr))
        elif kind == 'floor':
            self.side.append(z3.And(cr <= x, x < cr + 1))
        elif kind == 'trunc':
            self.side.append(z3.If(x >= 0, z3.And(cr <= x, x < cr + 1), z3.And(cr >= x, x > cr - 1)))
        elif kind == 'round':   # half away from zero
            self.side.append(z3.If(x >= 0, z3.And(cr - z3.RealVal('1/2') <= x, x < cr + z3.RealVal('1/2')),
                                   z3.And(cr + z3.RealVal('1/2') >= x, x > cr - z3.RealVal('1/2'))))
        else:
            raise EngineError('float fn ' + kind)
        return FLin(cr)

    def mul_refinement(self, m):
        """incremental linearisation of the uninterpreted products at the point given by model m:
        exact instances for the model's factor values + the four tangent planes (all true facts of integer
        multiplication).  Used after a solver model failed to reproduce on the real code."""
        out = []
        for a, b, P in self.mul_apps:
            a0 = m.eval(a, model_completion=True); b0 = m.eval(b, model_completion=True)
            if not (z3.is_int_value(a0) and z3.is_int_value(b0)):
                continue
            x, y = a0.as_long(), b0.as_long()
            out.append(z3.Implies(b == y, P == a * y))
            out.append(z3.Implies(a == x, P == x * b))
            plane = x * b + a * y - x * y
            out.append(z3.Implies(z3.Or(z3.And(a <= x, b <= y), z3.And(a >= x, b >= y)), P >= plane))
            out.append(z3.Implies(z3.Or(z3.And(a <= x, b >= y), z3.And(a >= x, b <= y)), P <= plane))
        return out

    # ------------------------------------------------------------------ rvalues
    BIN = {'Add', 'Sub', 'Mul', 'Div', 'Rem', 'Eq', 'Ne', 'Lt', 'Le', 'Gt', 'Ge', 'BitAnd', 'BitOr', 'BitXor', 'Shl', 'Shr',
           'AddWithOverflow', 'SubWithOverflow', 'MulWithOverflow', 'AddUnchecked', 'SubUnchecked', 'MulUnchecked',
           'ShlUnchecked', 'ShrUnchecked', 'Offset', 'Cmp'}

    def rvalue(self, s, st, fr, fn, dest_ty):
        s = s.strip()
        if s.startswith('no_retag '):
            s = s[9:]
        m = re.match(r'(\w+)\((.*)\)$', s)
        if m and m.group(1) in self.BIN:
            parts = split_top(m.group(2))
            a, b = [self.operand(x, st, fr) for x in parts]
            return self.binop(m.group(1), a, b, dest_ty, st, fn, parts)
        if m and m.group(1) == 'Not':
            v = self.operand(m.group(2), st, fr)
            if z3.is_bool(v):
                return z3.Not(v)
            lo, hi = INTTY[dest_ty]
            return (-v - 1) if lo < 0 else (hi - v)
        if m and m.group(1) == 'Neg':
            v = self.operand(m.group(2), st, fr)
            if is_float(v):
                return self.float_round_fn(v, 'neg')
            return wrap_int(-v, dest_ty) if dest_ty in INTTY else -v
        if m and m.group(1) == 'discriminant':
            v = self.load(st, fr, parse_place(m.group(2)))
            if isinstance(v, Enum):
                return v.disc()
            if isinstance(v, Opaque):
                raise EngineError('discriminant of opaque value %r in %s' % (v, fn.name[-40:]))
            raise EngineError('discriminant of %r' % (v,))
        if m and m.group(1) in ('CopyForDeref',):
            return self.load(st, fr, parse_place(m.group(2)))
        if m and m.group(1) == 'Len':
            v = self.load(st, fr, parse_place(m.group(2)))
            if isinstance(v, Struct):
                return z3.IntVal(len(v.f))
            raise EngineError('Len of %r' % (v,))
        if m and m.group(1) == 'PtrMetadata':
            v = self.operand(m.group(2), st, fr)
            if isinstance(v, Ref):
                t = self.deref(st, v)
                if isinstance(t, Struct):
                    return z3.IntVal(len(t.f))
            return Opaque('ptrmeta')
        if m and m.group(1) in ('SizeOf', 'AlignOf'):
            sz = self.size_of(m.group(2))
            return z3.IntVal(sz)
        m2 = re.match(r'(.+) as (.+?) \((\w+)(?:\((.*)\))?\)$', s)
        if m2 and (m2.group(1).startswith('copy ') or m2.group(1).startswith('move ') or m2.group(1).startswith('const ')):
            return self.cast(m2.group(1), m2.group(2), m2.group(3), m2.group(4), st, fr, fn)
        if s.startswith('&raw const ') or s.startswith('&raw mut '):
            return self.borrow(s.split(' ', 2)[2], st, fr, fn)
        if s.startswith('&'):
            body = s[1:].lstrip()
            for pre in ('mut ', 'fake shallow ', 'fake ', 'two_phase '):
                if body.startswith(pre):
                    body = body[len(pre):]
            return self.borrow(body, st, fr, fn)
        if s.startswith('['):
            inner = s[1:-1]
            parts = split_top(inner, ';')
            if len(parts) == 2:
                cnt = z3.simplify(self.const(parts[1].replace('const ', ''), st)) if not re.fullmatch(r'\d+', parts[1]) else z3.IntVal(int(parts[1]))
                if not z3.is_int_value(cnt):
                    raise EngineError('array repeat count')
                v = self.operand(parts[0], st, fr)
                n = cnt.as_long()
                if n > 4096:
                    raise EngineError('array too long')
                return Struct([v] * n)
            return Struct([self.operand(x, st, fr) for x in split_top(inner)])
        if s.startswith('copy ') or s.startswith('move ') or s.startswith('const '):
            return self.operand(s, st, fr)
        if s.startswith('(') and not s.startswith('(*'):
            return Struct([self.operand(x, st, fr) for x in split_top(s[1:-1])])
        return self.aggregate(s, st, fr, fn)

    def size_of(self, ty):
        ty = ty.strip()
        if ty in PRIM_SIZE:
            return PRIM_SIZE[ty]
        ma = re.fullmatch(r'\[(.+); (\d+)(?:_usize)?\]', ty)
        if ma:
            return self.size_of(ma.group(1)) * int(ma.group(2))
        b = base_type_name(ty)
        if b in PRIM_SIZE:
            return PRIM_SIZE[b]
        lay = self.prog.layouts.get(b)
        if lay:
            return lay['size']
        if ty.startswith('*') or ty.startswith('&'):
            return 8
        raise EngineError('size_of(%s) unknown' % ty)

    def borrow(self, body, st, fr, fn):
        place = parse_place(body)
        b, path = place
        if '*' in path:
            # reborrow through a pointer: may be a pointer into the segment
            base_v = self._get(st, fr, b)
            k = path.index('*')
            inner = self.proj(st, base_v, path[:k]) if k else base_v
            if isinstance(inner, Ptr):
                off = inner.off
                ty = self._pointee_type(fn, b, path[:k])
                for step in path[k + 1:]:
                    off, ty = self._field_offset(ty, step, off)
                return Ptr(inner.region, off)
            if isinstance(inner, Opaque):
                return Opaque('&' + inner.tag)
            if isinstance(inner, (Dyn, IteDyn)) and k == len(path) - 1:
                return inner
            t = self.resolve_place(st, fr, place)
            if len(t) == 1:
                return Ref(t[0][1], t[0][2], t[0][3])
            r = Ref(t[-1][1], t[-1][2], t[-1][3])
            for cond, f, l, p in reversed(t[:-1]):
                r = IteRef(cond, Ref(f, l, p), r)
            return r
        return Ref(fr, b, path)

    def _pointee_type(self, fn, local, path):
        ty = fn.ltypes.get(local, '')
        if path:
            return None
        m = re.match(r'(?:\*const |\*mut |&mut |&)(.+)$', ty.strip())
        return m.group(1) if m else None

    def _field_offset(self, ty, step, off):
        if ty is None:
            raise EngineError('field offset through pointer of unknown pointee type')
        lay = self.prog.layouts.get(base_type_name(ty))
        if not lay or not isinstance(step, int):
            raise EngineError('no layout for %s' % ty)
        f = lay['fields'][step]
        return off + f['offset'], f.get('type')

    def binop(self, op, a, b, dest_ty, st, fn, parts=None):
        if is_float(a) or is_float(b):
            # binary32 arithmetic rounds at 24 bits: the destination type, a constant's suffix or an operand's declared type says so
            p = 53
            if (dest_ty or '').strip() == 'f32' or any(re.search(r'f32$', x.strip()) for x in (parts or [])):
                p = 24
            else:
                for x in (parts or []):
                    mm = re.match(r'(?:copy|move) (_\d+)$', x.strip())
                    if mm and fn is not None and fn.ltypes.get(mm.group(1), '').strip() == 'f32':
                        p = 24
            return self.fbin(op, a, b, p)
        if isinstance(a, Ptr) and op == 'Offset':
            raise EngineError('Offset on segment pointer')
        if isinstance(a, (Opaque, Ptr, Ref)) or isinstance(b, (Opaque, Ptr, Ref)):
            if op in ('Eq', 'Ne') and isinstance(a, Ptr) and isinstance(b, Ptr):
                e = z3.BoolVal(a.region == b.region and a.off == b.off)
                return e if op == 'Eq' else z3.Not(e)
            raise EngineError('arithmetic %s on %r, %r in %s' % (op, a, b, fn.name[-50:]))
        if isinstance(a, Enum) or isinstance(b, Enum):
            raise EngineError('binop on enum')
        if op in ('AddWithOverflow', 'SubWithOverflow', 'MulWithOverflow'):
            r = {'A': lambda: a + b, 'S': lambda: a - b, 'M': lambda: self.mul_term(a, b)}[op[0]]()
            tm = re.match(r'\((\w+), bool\)', dest_ty or '')
            if not tm:
                raise EngineError('overflow op destination type %r' % (dest_ty,))
            lo, hi = INTTY[tm.group(1)]
            return Struct([wrap_int(r, tm.group(1)), z3.Or(r < lo, r > hi)])
        if op in ('Add', 'Sub', 'Mul', 'AddUnchecked', 'SubUnchecked', 'MulUnchecked'):
            r = {'A': lambda: a + b, 'S': lambda: a - b, 'M': lambda: self.mul_term(a, b)}[op[0]]()
            if dest_ty in INTTY:
                if op.endswith('Unchecked'):
                    lo, hi = INTTY[dest_ty]
                    self.obligations.append(Obligation(z3.And(st.pcond(), z3.Or(r < lo, r > hi)), 'unchecked arithmetic overflow (UB)', fn.name, 'ub'))
                    return r
                return wrap_int(r, dest_ty)
            return r
        if op == 'Div':
            return tdiv(a, b)
        if op == 'Rem':
            return a - b * tdiv(a, b)
        if op == 'Eq':
            return a == b
        if op == 'Ne':
            return a != b
        if op == 'Lt':
            return a < b
        if op == 'Le':
            return a <= b
        if op == 'Gt':
            return a > b
        if op == 'Ge':
            return a >= b
        if op == 'Cmp':
            return Enum(z3.If(a < b, z3.IntVal(-1), z3.If(a == b, z3.IntVal(0), z3.IntVal(1))), {})
        if op in ('BitAnd', 'BitOr', 'BitXor') and z3.is_bool(a):
            return {'BitAnd': z3.And(a, b), 'BitOr': z3.Or(a, b), 'BitXor': z3.Xor(a, b)}[op]
        if op == 'BitAnd':
            for x, y in ((a, b), (b, a)):
                if z3.is_int_value(y):
                    k = y.as_long()
                    if k >= 0 and (k & (k + 1)) == 0:      # low-bit mask (non-negative x or two's complement: same result)
                        return x % (k + 1)
            return self.bitop(op, a, b, dest_ty)
        if op in ('BitOr', 'BitXor'):
            return self.bitop(op, a, b, dest_ty)
        if op in ('Shl', 'ShlUnchecked'):
            bs = z3.simplify(b)
            if z3.is_int_value(bs):
                return wrap_int(a * (2 ** bs.as_long()), dest_ty)
            raise EngineError('symbolic shift amount')
        if op in ('Shr', 'ShrUnchecked'):
            bs = z3.simplify(b)
            if z3.is_int_value(bs):
                return a / (2 ** bs.as_long())      # floor division == arithmetic shift right
            raise EngineError('symbolic shift amount')
        raise EngineError('binop ' + op)

    def bitop(self, op, a, b, ty):
        a, b = z3.simplify(a), z3.simplify(b)
        if z3.is_int_value(a) and z3.is_int_value(b):
            x, y = a.as_long(), b.as_long()
            return z3.IntVal({'BitAnd': x & y, 'BitOr': x | y, 'BitXor': x ^ y}[op])
        if ty in INTTY:
            bits = {1: 8, 2: 16, 4: 32, 8: 64, 16: 128}[PRIM_SIZE[ty]]
            ba, bb = z3.Int2BV(a, bits), z3.Int2BV(b, bits)
            r = {'BitAnd': ba & bb, 'BitOr': ba | bb, 'BitXor': ba ^ bb}[op]
            return z3.BV2Int(r, INTTY[ty][0] < 0)
        raise EngineError('bit operation on symbolic values of unknown type')

    def cast(self, opnd, ty, kind, sub, st, fr, fn):
        v = self.operand(opnd, st, fr)
        ty = ty.strip()
        if kind == 'IntToInt':
            if isinstance(v, Enum):
                v = v.disc()
            if z3.is_bool(v):
                v = z3.If(v, z3.IntVal(1), z3.IntVal(0))
            if ty in INTTY:
                return wrap_int(v, ty)
            if ty == 'bool' or ty == 'char':
                return v
            raise EngineError('IntToInt to ' + ty)
        if kind == 'IntToFloat':
            if z3.is_bool(v):
                v = z3.If(v, z3.IntVal(1), z3.IntVal(0))
            if z3.is_int_value(v):
                return FConst(Fraction(float(v.as_long())))
            return FMono([v], 1, 1, 24 if ty == 'f32' else 53)
        if kind == 'FloatToInt':
            return self.float_to_int(v, ty)
        if kind == 'FloatToFloat':
            if ty == 'f64':
                return v
            if ty == 'f32':
                # narrowing: one more rounding, at binary32 precision (range errors are outside: the stated domains are far below f32::MAX)
                if isinstance(v, FMono):
                    return FMono(v.num, v.den, v.k + 1, 24)
                if isinstance(v, FConst):
                    import struct
                    return FConst(Fraction(struct.unpack('f', struct.pack('f', float(v.q)))[0]))
                return FLin(self.rounded(self.to_lin(v), 24))
            raise EngineError('narrowing float cast')
        if kind in ('PtrToPtr', 'FnPtrToPtr', 'MutToConstPointer', 'ArrayToPointer'):
            return v
        if kind == 'PointerCoercion':
            if sub and sub.startswith('Unsize'):
                return self.unsize(v, opnd, ty, st, fr, fn)
            return v
        if kind == 'Transmute':
            return self.transmute(v, opnd, ty, st, fr, fn)
        if kind == 'PointerExposeProvenance' and isinstance(v, Ptr):
            # address of a byte of a mapped region: an unknown page-aligned base plus the known offset
            if not hasattr(self, 'region_bases'):
                self.region_bases = {}
            b = self.region_bases.get(v.region)
            if b is None:
                b = self.fresh('base_' + v.region)
                self.side.append(z3.And(b >= 4096, b < 2 ** 47, b % 4096 == 0))
                self.region_bases[v.region] = b
            return b + v.off
        if kind in ('PointerExposeProvenance', 'PointerWithExposedProvenance'):
            raise EngineError('pointer/integer cast')
        raise EngineError('cast kind ' + kind)

    def unsize(self, v, opnd, ty, st, fr, fn):
        if 'dyn ' in ty:
            pl = parse_place(opnd.split(' ', 1)[1]) if not opnd.startswith('const') else None
            sty = fn.ltypes.get(pl[0], '') if pl and not pl[1] else ''
            m = re.match(r'(?:std::boxed::)?Box<(.+?)(?:, .*)?>$|&(?:mut )?(.+)$', sty.strip())
            conc = (m.group(1) or m.group(2)) if m else sty
            return Dyn(conc.strip(), v)
        return v      # array -> slice: the value keeps its elements

    def transmute(self, v, opnd, ty, st, fr, fn):
        if ty.strip().startswith('*') or ty.strip().startswith('&'):
            # a pointer newtype (NonNull / Unique) reinterpreted as the raw pointer it wraps
            w = v
            while isinstance(w, Struct) and len(w.f) == 1:
                w = w.f[0]
            if isinstance(w, (Ref, Ptr)):
                return w
        if isinstance(v, Struct) and all(isinstance(x, z3.ExprRef) for x in v.f if x is not None) and all(z3.is_int_value(z3.simplify(x)) and z3.simplify(x).as_long() == 0 for x in v.f if x is not None):
            # zeroed byte array reinterpreted as a struct: all-zero value of that struct
            return self.zero_value(ty)
        if isinstance(v, (Opaque, Ref, Ptr, Dyn, IteDyn)):
            return v
        b = base_type_name(ty)
        if b in INTTY and isinstance(v, z3.ExprRef) and z3.is_int(v):
            return wrap_int(v, b)
        raise EngineError('transmute of %r to %s' % (v, ty))

    def zero_value(self, ty):
        b = base_type_name(ty)
        if b in INTTY:
            return z3.IntVal(0)
        if b == 'timespec':
            return Struct([z3.IntVal(0), z3.IntVal(0)])
        lay = self.prog.layouts.get(b)
        if lay:
            return Struct([self.zero_value(f['type']) for f in lay['fields']])
        raise EngineError('zero value of ' + ty)

    def aggregate(self, s, st, fr, fn):
        prog = self.prog
        # closures: {closure@file:l:c: l:c}  (captures follow in parentheses if any)
        if s.startswith('{closure@') or s.startswith('{coroutine@'):
            k = s.index('}')
            rest = s[k + 1:].strip()
            caps = [self.operand(x, st, fr) for x in split_top(rest[1:-1])] if rest.startswith('(') and len(rest) > 2 else []
            if rest.startswith('{') and rest.endswith('}') and rest[1:-1].strip():
                # captures printed with their names: `{ dispatchbox: move _8 }`
                caps = [self.operand(part[part.index(':') + 1:], st, fr) for part in split_top(rest[1:-1])]
            return Struct(caps)
        s2 = strip_generics(s)
        m = re.match(r'([\w:<> ,&\'\[\];*]+?)\s*\{(.*)\}$', s2, flags=re.S)
        if m and not s2.endswith(')'):
            name = m.group(1).strip()
            fields = []
            for part in split_top(m.group(2)):
                k = part.index(':')
                fields.append(self.operand(part[k + 1:], st, fr))
            vd = prog.variant_disc(name)
            if vd:
                return Enum(vd[2], {vd[1]: Struct(fields)})
            return Struct(fields)
        m = re.match(r'(.+?)\((.*)\)$', s2, flags=re.S)
        if m:
            name, args = m.group(1).strip(), [self.operand(x, st, fr) for x in split_top(m.group(2))]
        else:
            name, args = s2, []
        vd = prog.variant_disc(name)
        if vd:
            return Enum(vd[2], {vd[1]: Struct(args)})
        last = name.split('::')[-1]
        for en, tab in (('Option', prog.enums['Option']), ('Result', prog.enums['Result']), ('ControlFlow', prog.enums['ControlFlow'])):
            if last in tab and (len(name.split('::')) == 1 or name.split('::')[-2] == en):
                return Enum(tab[last], {last: Struct(args)})
        if re.fullmatch(r'[\w:]+', name) and (m is not None or name[0].isupper() or '::' in name):
            if m is None and len(name.split('::')) >= 2 and name.split('::')[-2] in prog.enums:
                raise EngineError('unknown variant ' + name)
            if m is None and len(name.split('::')) >= 2 and name.split('::')[-2][0].isupper() and name.split('::')[-2] not in prog.struct_fields:
                if name.startswith('std::') or name.startswith('core::') or name.startswith('alloc::'):
                    return Opaque('variant:' + name)       # a unit variant of a std enum the checks never inspect (e.g. io::ErrorKind::Other)
                raise EngineError('aggregate of unknown enum %s (add its declaration to the scanned sources)' % name)
            return Struct(args)     # tuple struct / unit struct
        raise EngineError('rvalue? ' + s)

    # ------------------------------------------------------------------ statements
    def stmt(self, s, st, fr, fn):
        c0 = s[0]
        if c0 in 'SnCFPRAD' and (s.startswith('StorageLive') or s.startswith('StorageDead') or s == 'nop' or s.startswith('ConstEvalCounter')
                                 or s.startswith('FakeRead') or s.startswith('PlaceMention') or s.startswith('Retag') or s.startswith('AscribeUserType')
                                 or s.startswith('Coverage') or s.startswith('Deinit(') or s.startswith('BackwardIncompatibleDropHint')):
            return
        if s.startswith('assume('):
            v = self.operand(s[7:-1], st, fr)
            st.pc.append(v); return
        if s.startswith('discriminant(') and ' = ' in s:
            m = re.match(r'discriminant\((.+)\) = (\d+)$', s)
            place = parse_place(m.group(1)); v = self.load(st, fr, place)
            self.store(st, fr, place, Enum(int(m.group(2)), v.p if isinstance(v, Enum) else {})); return
        k = s.find(' = ')
        if k < 0:
            raise EngineError('stmt? ' + s)
        dest = parse_place(s[:k])
        dty = fn.ltypes.get(dest[0], '') if not dest[1] else self._place_type_hint(s[:k])
        self.store(st, fr, dest, self.rvalue(s[k + 3:], st, fr, fn, dty))

    @staticmethod
    def _place_type_hint(ps):
        m = re.search(r': ([^():]+)\)$', ps.strip())
        return m.group(1).strip() if m else ''

    # ------------------------------------------------------------------ running bodies
    def run_body(self, fn, args, st, fr=None, start='bb0', stop=(), top=False, init_locals=None, tybind=None):
        """execute fn from `start`; returns list of Outcome.  The frame's locals are removed from the
        outcome states unless top=True."""
        if fr is None:
            fr = self.new_frame()
        if not hasattr(self, 'frame_crate'):
            self.frame_crate = {}
        self.frame_crate[fr] = getattr(fn, 'crate', None)
        for p, a in zip(fn.params, args):
            st.mem[(fr, p)] = a
        if tybind:
            self.frame_ty[fr] = tybind
        if init_locals:
            for l, v in init_locals.items():
                st.mem[(fr, l)] = v
        self.inlined[fn.name] = self.inlined.get(fn.name, 0) + 1
        outs = []
        work = [(start, st, True)]
        while work:
            bb, st, first = work.pop()
            while True:
                if bb in stop and not first:
                    outs.append(Outcome(st, None, 'stop', bb)); break
                first = False
                key = (fr, bb)
                n = st.visits.get(key, 0) + 1
                st.visits[key] = n
                if n > self.loop_bound + 1:
                    outs.append(Outcome(st, None, 'unwound', bb)); break
                if bb not in fn.blocks:
                    raise EngineError('no block %s in %s' % (bb, fn.name))
                stmts = fn.blocks[bb]
                for s in stmts[:-1]:
                    self.stmt(s, st, fr, fn)
                t = stmts[-1]
                nxt = self.terminator(t, st, fr, fn, work, outs)
                if nxt is None:
                    break
                bb = nxt
        if not top:
            for o in outs:
                mem = o.state.mem
                for k in [k for k in mem if k[0] == fr]:
                    del mem[k]
                # visits of the finished frame are irrelevant to the caller
                for k in [k for k in o.state.visits if k[0] == fr]:
                    del o.state.visits[k]
        self.last_frame = fr
        return outs

    def terminator(self, t, st, fr, fn, work, outs):
        """returns the next block for this path, or None when the path ended / was queued"""
        if t == 'return':
            outs.append(Outcome(st, st.mem.get((fr, '_0'), UNIT), 'return')); return None
        if t == 'unreachable':
            return None
        if t.startswith('goto -> '):
            return t[8:]
        if t.startswith('switchInt('):
            m = re.match(r'switchInt\((.+)\) -> \[(.+)\]$', t)
            v = self.operand(m.group(1), st, fr)
            if isinstance(v, Enum):
                v = v.disc()
            arms = [a.split(': ') for a in m.group(2).split(', ')]
            taken = []; rest = []
            for val, tgt in arms:
                if val == 'otherwise':
                    cond = z3.And(rest) if rest else z3.BoolVal(True)
                else:
                    k = int(val)
                    cond = (v if k else z3.Not(v)) if z3.is_bool(v) else (v == k)
                    rest.append(z3.Not(cond))
                cond = z3.simplify(cond)
                if z3.is_false(cond):
                    continue
                taken.append((tgt, cond))
                if z3.is_true(cond):
                    break
            if not taken:
                return None
            for tgt, cond in taken[1:]:
                s2 = st.fork(); s2.pc.append(cond); work.append((tgt, s2, False)); self.stats['forks'] += 1
            tgt, c0 = taken[0]
            if not z3.is_true(c0):
                st.pc.append(c0)
            return tgt
        if t.startswith('assert('):
            m = re.match(r'assert\((!?)(.+?), (".*?")(?:, .*)?\) -> \[success: (bb\d+).*\]$', t) or \
                re.match(r'assert\((!?)(.+?), ()(?:[^"].*)\) -> \[success: (bb\d+).*\]$', t)
            if not m:
                raise EngineError('assert? ' + t)
            v = self.operand(m.group(2), st, fr)
            good = z3.Not(v) if m.group(1) else v
            gs = z3.simplify(good)
            if not z3.is_true(gs):
                self.obligations.append(Obligation(z3.And(st.pcond(), z3.Not(good)), m.group(3).strip('"')[:80], fn.name))
                st.pc.append(good)
            return m.group(4)
        if t.startswith('drop('):
            m = re.match(r'drop\((.+)\) -> \[return: (bb\d+).*\]$', t)
            return self.do_drop(m.group(1), m.group(2), st, fr, fn, work, outs)
        if t.startswith('resume') or t.startswith('abort') or t.startswith('terminate'):
            return None
        if t.startswith('falseEdge') or t.startswith('falseUnwind'):
            m = re.search(r'-> \[real: (bb\d+)', t)
            return m.group(1)
        m = re.match(r'(.+?) = (.+)\((.*)\) -> (?:\[return: (bb\d+).*\]|unwind.*|bb\d+)$', t, flags=re.S)
        if not m:
            m = re.match(r'(.+?) = (.+)\((.*)\)()$', t, flags=re.S)      # diverging call without targets
        if m:
            dest, callee, argstr, nxt = m.groups()
            callee = callee.strip()
            # the callee expression itself may contain parentheses (fn pointers, closures): re-split at top level
            callee, argstr = self._split_call(t)
            tb = self.frame_ty.get(fr)
            if tb:
                for gname, conc in tb.items():
                    callee = re.sub(r'\b%s\b' % re.escape(gname), conc, callee)
            argv = [self.operand(a, st, fr) for a in split_top(argstr)] if argstr.strip() else []
            try:
                outcomes = self.call(callee, argv, st, fr, fn)
            except Panic as e:
                self.obligations.append(Obligation(st.pcond(), 'panic: %s' % e, fn.name)); return None
            if not nxt:
                if outcomes:
                    self.obligations.append(Obligation(st.pcond(), 'diverging call returned: %s' % callee[:60], fn.name))
                return None
            place = parse_place(dest.strip())
            first = None
            # the path being executed continues with its own state object when the callee returned it
            outcomes = sorted(outcomes, key=lambda o: 0 if o[0] is st else 1)
            for (s2, val) in outcomes:
                self.store(s2, fr, place, val)
                if first is None:
                    first = s2
                else:
                    work.append((nxt, s2, False))
            if first is None:
                return None
            if first is not st:
                # continue this path with the callee's resulting state
                st.mem, st.pc, st.trace, st.visits = first.mem, first.pc, first.trace, first.visits
            return nxt
        raise EngineError('terminator? ' + t)

    @staticmethod
    def _split_call(t):
        """'_x = callee(args) -> [...]'  -> (callee, argstr) using the last top-level '(...)' before ' -> ['"""
        k = t.find(' = ')
        body = t[k + 3:]
        e = body.rfind(') -> [')
        if e < 0:
            e = body.rfind(') -> unwind')
        if e < 0:
            mm = re.search(r'\) -> bb\d+$', body)
            if mm:
                e = mm.start()
        if e < 0:
            e = body.rfind(')')
        d = 0; i = e
        instr = False
        while i >= 0:
            ch = body[i]
            if ch == '"':
                instr = not instr
            elif not instr:
                if ch == ')':
                    d += 1
                elif ch == '(':
                    d -= 1
                    if d == 0:
                        break
            i -= 1
        return body[:i].strip(), body[i + 1:e]

    def do_drop(self, place_s, nxt, st, fr, fn, work, outs):
        """Drop glue: user `Drop` impls found in the dumps are inlined (for the dropped type and, through the struct
        declarations read from the sources, for its fields); std's own drop glue (Box, Vec, io::Error, ...) is not
        interpreted."""
        place = parse_place(place_s)
        ty = fn.ltypes.get(place[0], '') if not place[1] else self._place_type_hint(place_s)
        for rx, h in self.env:
            if rx.startswith('drop:') and re.search(rx[5:], ty):
                v = None
                try:
                    v = self.load(st, fr, place)
                except EngineError:
                    pass
                h(self, st, 'drop:' + ty, [v], fn)
        if self.inline_drops:
            try:
                tgt = self.resolve_place(st, fr, place)
            except EngineError:
                tgt = []
            if len(tgt) == 1 and tgt[0][0] is None:
                _, f, l, p = tgt[0]
                if st.mem.get((f, l)) is not None or p:
                    more = self._drop_value(st, Ref(f, l, p), ty, fn, 0)
                    for s2 in more or []:
                        work.append((nxt, s2, False))
        return nxt

    def _drop_value(self, st, ref, ty, fn, depth):
        if depth > 4:
            return
        b = base_type_name(ty)
        if not re.fullmatch(r'\w+', b or ''):
            return
        try:
            v = self.deref(st, ref)
        except EngineError:
            return
        if v is None or isinstance(v, Opaque):
            return
        cands = self.prog.resolve('<%s as Drop>::drop' % b, 1)
        extra = []
        if len(cands) == 1:
            outs = self.inline(cands[0], [ref], st)
            if len(outs) != 1 and depth > 0:
                raise EngineError('Drop impl of %s (a field) forks' % b)
            if not outs:
                raise EngineError('Drop impl of %s has no returning path' % b)
            outs = sorted(outs, key=lambda o: 0 if o[0] is st else 1)
            s2 = outs[0][0]
            if s2 is not st:
                st.mem, st.pc, st.trace, st.visits = s2.mem, s2.pc, s2.trace, s2.visits
            # a Drop impl with several paths (e.g. one that reports how the thread ended): the other paths continue separately
            extra = [o[0] for o in outs[1:]]
        ftys = self.prog.struct_field_types.get(b)
        if ftys and isinstance(v, Struct) and len(v.f) == len(ftys):
            for i, ft in enumerate(ftys):
                fb = base_type_name(ft)
                if re.fullmatch(r'\w+', fb or '') and (self.prog.resolve('<%s as Drop>::drop' % fb, 1) or fb in self.prog.struct_field_types):
                    for sx in [st] + extra:
                        self._drop_value(sx, Ref(ref.frame, ref.local, ref.path + (i,)), ft, fn, depth + 1)
        return extra

    # ------------------------------------------------------------------ calls
    def call(self, callee, argv, st, fr, fn):
        """-> list of (state, return value).  May fork (environment handlers, callees with events)."""
        self.calls += 1
        for rx, h in self.env:
            if not rx.startswith('drop:') and re.search(rx, callee):
                r = h(self, st, callee, argv, fn)
                if isinstance(r, list):
                    return r
                return [(st, r)]
        from . import builtins as B
        r = B.builtin(self, st, callee, argv, fn)
        if r is not NotImplemented:
            if isinstance(r, list):
                return r
            return [(st, r)]
        for rx, h in self.extra_builtins:
            if re.search(rx, callee):
                return [(st, h(self, st, callee, argv, fn))]
        dm = re.match(r'^<dyn (.+?) as (.+?)>::(\w+)$', strip_turbofish_tail(callee.strip()))
        if dm and argv and isinstance(argv[0], (Dyn, IteDyn)):
            return self.dyn_call(dm.group(2), dm.group(3), argv, st, fn)
        cands = self.prog.resolve(callee, len(argv))
        if len(cands) == 1:
            return self.inline(cands[0], argv, st)
        for rx in self.opaque_calls:
            if re.search(rx, callee):
                self.havocs.append((callee, fn.name))
                return [(st, Opaque('havoc:' + strip_generics(callee)[-40:]))]
        raise EngineError('call %s from %s: %d candidates %s' % (callee, fn.name[-40:], len(cands), [c.name[-60:] for c in cands][:4]))

    def dyn_call(self, trait, meth, argv, st, fn):
        """virtual call: dispatch on the concrete type recorded by the unsizing cast"""
        recv = argv[0]
        alts = [(None, recv)] if isinstance(recv, Dyn) else list(recv.alts)
        results = []
        for cond, d in alts:
            conc = d.ty
            cands = self.prog.resolve('<%s as %s>::%s' % (conc, trait, meth), len(argv))
            if len(cands) != 1:
                raise EngineError('virtual call %s::%s on %s: %d implementations' % (trait, meth, conc, len(cands)))
            f = cands[0]
            info = self.prog.impl_info(f)
            tybind = None
            if info:
                # bind the impl's generic parameters by matching `Name<T>` against the concrete `Name<Arg>`
                gi = re.match(r'[\w:]+<(.+)>$', info[3].strip())
                gc = re.match(r'[\w:]+<(.+)>$', conc.strip())
                if gi:
                    params = split_top(gi.group(1))
                    if gc:
                        concs = split_top(gc.group(1))
                    else:
                        dflt = self.prog.default_type_args(base_type_name(conc))
                        concs = dflt if dflt else []
                    if len(params) == len(concs):
                        tybind = {p_: c_ for p_, c_ in zip(params, concs) if re.fullmatch(r'[A-Z]\w*', p_) and p_ != base_type_name(c_)}
            s2 = st.fork() if cond is not None else st
            if cond is not None:
                s2.pc.append(cond)
            outs = self.inline(f, [d] + list(argv[1:]), s2, tybind=tybind)
            results += outs
        if len(results) == 1 or isinstance(recv, Dyn):
            return results
        # merge the alternatives of a symbolic receiver back into one outcome when they left the same trace
        if all(len(r[0].trace) == len(results[0][0].trace) and all(x is y for x, y in zip(r[0].trace, results[0][0].trace)) for r in results[1:]):
            npc = len(st.pc)
            conds = [z3.And(r[0].pc[npc:]) if len(r[0].pc) > npc else z3.BoolVal(True) for r in results]
            val = results[-1][1]
            for c, r in zip(reversed(conds[:-1]), reversed(results[:-1])):
                val = ite(c, r[1], val)
            mem = dict(results[-1][0].mem)
            keys = set()
            for r in results:
                keys.update(r[0].mem.keys())
            for k in keys:
                vals = [r[0].mem.get(k) for r in results]
                if all(same(vals[0], x) for x in vals[1:]):
                    mem[k] = vals[0]; continue
                v = vals[-1]
                for c, x in zip(reversed(conds[:-1]), reversed(vals[:-1])):
                    v = ite(c, x, v)
                mem[k] = v
            ns = State(mem, st.pc[:npc] + [z3.Or(conds)], results[0][0].trace, dict(st.visits))
            return [(ns, val)]
        return results

    def inline(self, callee_fn, argv, st, tybind=None):
        npc = len(st.pc)
        base_trace = st.trace
        outs = self.run_body(callee_fn, argv, st, tybind=tybind)
        rets = [o for o in outs if o.kind == 'return']
        for o in outs:
            if o.kind == 'unwound':
                self.obligations.append(Obligation(o.state.pcond(), 'loop bound %d exceeded in %s' % (self.loop_bound, callee_fn.name[-50:]), callee_fn.name, 'unwind'))
        if not rets:
            raise Panic('all paths of %s diverge' % callee_fn.name[-60:])
        if any(re.search(rx, callee_fn.name) for rx in self.no_merge):
            return [(o.state, o.value) for o in rets]
        # group by trace identity; merge each group
        groups = []
        for o in rets:
            for g in groups:
                if g[0].state.trace is o.state.trace or (len(g[0].state.trace) == len(o.state.trace) and all(x is y for x, y in zip(g[0].state.trace, o.state.trace))):
                    g.append(o); break
            else:
                groups.append([o])
        res = []
        for g in groups:
            if len(g) == 1:
                res.append((g[0].state, g[0].value)); continue
            self.stats['merges'] += 1
            conds = [z3.And(o.state.pc[npc:]) if len(o.state.pc) > npc else z3.BoolVal(True) for o in g]
            val = g[-1].value
            for c, o in zip(reversed(conds[:-1]), reversed(g[:-1])):
                val = ite(c, o.value, val)
            mem = dict(g[-1].state.mem)
            keys = set()
            for o in g:
                keys.update(o.state.mem.keys())
            for k in keys:
                vals = [o.state.mem.get(k) for o in g]
                if all(same(vals[0], x) for x in vals[1:]):
                    mem[k] = vals[0]; continue
                v = vals[-1]
                for c, x in zip(reversed(conds[:-1]), reversed(vals[:-1])):
                    v = ite(c, x, v)
                mem[k] = v
            ns = State(mem, g[0].state.pc[:npc] + [z3.Or(conds)], g[0].state.trace, dict(g[0].state.visits))
            res.append((ns, val))
        return res

    # ------------------------------------------------------------------ top-level entry
    def run(self, fn, args, st=None, **kw):
        st = st or State()
        outs = self.run_body(fn, args, st, top=True, **kw)
        for o in outs:
            if o.kind == 'unwound':
                self.obligations.append(Obligation(o.state.pcond(), 'loop bound %d exceeded in %s' % (self.loop_bound, fn.name[-50:]), fn.name, 'unwind'))
        return outs

    @staticmethod
    def merge_returns(outs):
        """single (path condition, value) for all returning outcomes of a top-level run"""
        rets = [o for o in outs if o.kind == 'return']
        if not rets:
            raise EngineError('no returning path')
        val = rets[-1].value
        for o in reversed(rets[:-1]):
            val = ite(o.state.pcond(), o.value, val)
        return z3.Or([o.state.pcond() for o in rets]), val
