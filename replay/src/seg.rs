//! segment-side cases (filled in as the checks that need them are built)
pub fn cmd_open(_a: &[&str]) -> String { "unimplemented".into() }
pub fn cmd_snapshot_script(_a: &[&str]) -> String { "unimplemented".into() }
pub fn cmd_writegen(_a: &[&str]) -> String { "unimplemented".into() }
