//! segment-side cases: the REAL ShmReader / ShmWriter on a private file under /dev/shm, with the
//! cfg-gated atomic shim's observer used to script what a reader observes (replay of weak-memory
//! models) and to look at the segment while an update is in flight.
use clock_bound_shm::verif_shim::{set_observer, Access};
use clock_bound_shm::{ClockErrorBound, ClockStatus, ShmReader, ShmWrite, ShmWriter};
use std::ffi::CString;
use std::io::Write;
use std::sync::atomic::{AtomicUsize, Ordering};

static COUNTER: AtomicUsize = AtomicUsize::new(0);

pub fn tmp_path(tag: &str) -> String {
    let n = COUNTER.fetch_add(1, Ordering::SeqCst);
    format!("/dev/shm/verif-{}-{}-{}", std::process::id(), tag, n)
}

pub fn header_bytes(segsize: u32, version: u16, generation: u16) -> Vec<u8> {
    let mut v = Vec::new();
    v.extend_from_slice(&0x414D5A4Eu32.to_ne_bytes());
    v.extend_from_slice(&0x43420200u32.to_ne_bytes());
    v.extend_from_slice(&segsize.to_ne_bytes());
    v.extend_from_slice(&version.to_ne_bytes());
    v.extend_from_slice(&generation.to_ne_bytes());
    v
}

pub fn write_file(path: &str, bytes: &[u8]) {
    let mut f = std::fs::File::create(path).expect("create");
    f.write_all(bytes).expect("write");
    f.sync_all().ok();
}

/// a writable mapping of the file, for the replay driver itself
pub struct DriverMap {
    pub ptr: *mut u8,
    pub len: usize,
}

impl DriverMap {
    pub fn new(path: &str, len: usize) -> DriverMap {
        let c = CString::new(path).unwrap();
        unsafe {
            let fd = libc::open(c.as_ptr(), libc::O_RDWR);
            assert!(fd >= 0);
            let p = libc::mmap(std::ptr::null_mut(), len, libc::PROT_READ | libc::PROT_WRITE, libc::MAP_SHARED, fd, 0);
            libc::close(fd);
            assert!(p != libc::MAP_FAILED);
            DriverMap { ptr: p as *mut u8, len }
        }
    }
    pub fn put_u16(&self, off: usize, v: u16) {
        unsafe { std::ptr::write_volatile(self.ptr.add(off) as *mut u16, v) }
    }
    pub fn get_u16(&self, off: usize) -> u16 {
        unsafe { std::ptr::read_volatile(self.ptr.add(off) as *const u16) }
    }
    pub fn put_word(&self, i: usize, tag: i64) {
        // words 0..4 are i64 fields, word 5 = (max_drift_ppb u32, reserved1 u32), word 6 = (clock_status u32, padding)
        unsafe {
            let p = self.ptr.add(16 + 8 * i);
            match i {
                5 => {
                    std::ptr::write_volatile(p as *mut u32, (tag + 16) as u32);
                    std::ptr::write_volatile(p.add(4) as *mut u32, (tag + 16) as u32);
                }
                6 => {
                    std::ptr::write_volatile(p as *mut u32, ((tag + 3).rem_euclid(3)) as u32);
                    std::ptr::write_volatile(p.add(4) as *mut u32, 0);
                }
                _ => std::ptr::write_volatile(p as *mut i64, tag),
            }
        }
    }
}

impl Drop for DriverMap {
    fn drop(&mut self) {
        unsafe {
            libc::munmap(self.ptr as *mut libc::c_void, self.len);
        }
    }
}

/// decode a record produced by put_word back into per-word tags (word 6 only modulo 3)
pub fn tags_of(ceb: &ClockErrorBound) -> String {
    let b: [u8; 56] = unsafe { std::mem::transmute_copy(ceb) };
    let w = |i: usize| i64::from_ne_bytes(b[8 * i..8 * i + 8].try_into().unwrap());
    let d = u32::from_ne_bytes(b[40..44].try_into().unwrap()) as i64 - 16;
    let r = u32::from_ne_bytes(b[44..48].try_into().unwrap()) as i64 - 16;
    let s = u32::from_ne_bytes(b[48..52].try_into().unwrap()) as i64;
    format!("{}/{}/{}/{}/{}/{}:{}/m{}", w(0), w(1), w(2), w(3), w(4), d, r, s)
}

fn status_of(n: i64) -> ClockStatus {
    match n.rem_euclid(3) {
        1 => ClockStatus::Synchronized,
        2 => ClockStatus::FreeRunning,
        _ => ClockStatus::Unknown,
    }
}

/// writegen <start generation> [<n writes>]: create a real ShmWriter on a segment left at the given generation (0 = not
/// initialised: the writer wipes it) and run the real ShmWriter::write n times; per write report the values it stores into
/// the generation field, what memory holds right before each store, and the value memory holds afterwards.
pub fn cmd_writegen(a: &[&str]) -> String {
    let g0: u16 = a.get(0).and_then(|x| x.parse().ok()).unwrap_or(2);
    let n: usize = a.get(1).and_then(|x| x.parse().ok()).unwrap_or(1);
    let path = tmp_path("wg");
    let mut bytes = header_bytes(72, 1, g0);
    bytes.extend_from_slice(&[0u8; 56]);
    write_file(&path, &bytes);
    let res = std::panic::catch_unwind(|| {
        let mut w = ShmWriter::new(std::path::Path::new(&path)).expect("ShmWriter::new");
        let drv = DriverMap::new(&path, 72);
        let drv_ptr = drv.ptr as usize;
        let mut out: Vec<String> = Vec::new();
        for i in 1..=n {
            let log: std::rc::Rc<std::cell::RefCell<Vec<String>>> = Default::default();
            let log2 = log.clone();
            let vals: std::rc::Rc<std::cell::RefCell<Vec<(u64, u16)>>> = Default::default();
            let vals2 = vals.clone();
            let mut nstore = 0;
            let start = drv.get_u16(14);
            set_observer(Some(Box::new(move |acc| {
                if let Access::Store { value, .. } = acc {
                    nstore += 1;
                    let mem_gen = unsafe { std::ptr::read_volatile((drv_ptr + 14) as *const u16) };
                    let mem_bound = unsafe { std::ptr::read_volatile((drv_ptr + 16 + 32) as *const i64) };
                    vals2.borrow_mut().push((value as u64, mem_gen));
                    log2.borrow_mut().push(format!("store{}={} mem_gen_before{}={} mem_bound_before{}={}", nstore, value, nstore, mem_gen, nstore, mem_bound));
                }
            })));
            // the records differ in every field from one write to the next and their as_of does not increase monotonically (the daemon's
            // placeholder after a restart is older than what the segment holds): the protocol may not depend on what is written
            let a_s = [100i64, 50, 200, 10, 300][(i - 1) % 5];
            let ceb = ClockErrorBound::new(
                libc::timespec { tv_sec: a_s, tv_nsec: 7 },
                libc::timespec { tv_sec: a_s + 1000, tv_nsec: 7 },
                776 + i as i64,
                7,
                7,
                ClockStatus::Synchronized,
            );
            w.write(&ceb);
            set_observer(None);
            let fin = drv.get_u16(14);
            if i == 1 {
                out.push(format!("{} final_mem={}", log.borrow().join(" "), fin));
            }
            let v = vals.borrow();
            let stores: Vec<String> = v.iter().map(|(x, m)| format!("{}@{}", x, m)).collect();
            out.push(format!("w{}={}:{}:{}", i, start, stores.join(","), fin));
        }
        out.join(" ")
    });
    let _ = std::fs::remove_file(&path);
    match res {
        Ok(s) => {
            // normalise: inflight = first stored value, final = second (of the first write)
            let mut inflight = String::new();
            let mut fin = String::new();
            for tok in s.split_whitespace() {
                if let Some(v) = tok.strip_prefix("store1=") {
                    inflight = v.to_string();
                }
                if let Some(v) = tok.strip_prefix("store2=") {
                    fin = v.to_string();
                }
            }
            format!("ok inflight={} final={} {}", inflight, fin, s)
        }
        Err(p) => format!("panic {}", crate::panic_msg(&p)),
    }
}

/// snapshot_script pre=<gen>:<tag>|- call=<obs>;<obs>;... call=...
///   obs := <offset>=<value>[:<t0>/<t1>/.../<t6>]   value observed by the next atomic load at that offset, optionally
///          followed by the record word tags that the plain reads after this load observe
pub fn cmd_snapshot_script(a: &[&str]) -> String {
    let path = tmp_path("ss");
    let mut bytes = header_bytes(72, 1, 2);
    bytes.extend_from_slice(&[0u8; 56]);
    write_file(&path, &bytes);
    let cpath = CString::new(path.clone()).unwrap();
    let res = std::panic::catch_unwind(std::panic::AssertUnwindSafe(|| {
        let mut reader = ShmReader::new(&cpath).expect("ShmReader::new");
        let drv = DriverMap::new(&path, 72);
        let mut out = Vec::new();
        for arg in a {
            if let Some(pre) = arg.strip_prefix("pre=") {
                if pre != "-" {
                    let mut it = pre.split(':');
                    let g: u16 = it.next().unwrap().parse().unwrap();
                    let t: i64 = it.next().unwrap().parse().unwrap();
                    drv.put_u16(12, 1);
                    drv.put_u16(14, g);
                    for i in 0..7 {
                        drv.put_word(i, t);
                    }
                    let r = reader.snapshot().map(|c| tags_of(c));
                    out.push(format!("pre={:?}", r.is_ok()));
                }
            } else if let Some(script) = arg.strip_prefix("call=") {
                let repeat = script.split(';').any(|s| s == "REPEAT");
                let obs: Vec<(usize, u16, Option<Vec<i64>>)> = script
                    .split(';')
                    .filter(|s| !s.is_empty() && *s != "REPEAT")
                    .map(|o| {
                        let mut p = o.split(':');
                        let mut lv = p.next().unwrap().split('=');
                        let off: usize = lv.next().unwrap().parse().unwrap();
                        let val: u16 = lv.next().unwrap().parse().unwrap();
                        let words = p.next().map(|w| w.split('/').map(|x| x.parse::<i64>().unwrap()).collect());
                        (off, val, words)
                    })
                    .collect();
                let drv_ptr = drv.ptr as usize;
                let base = drv_ptr;
                let mut k = 0usize;
                let nobs = obs.len();
                let obs2 = obs.clone();
                let misuse = std::rc::Rc::new(std::cell::Cell::new(0usize));
                let misuse2 = misuse.clone();
                let seg_base = std::rc::Rc::new(std::cell::Cell::new(0usize));
                let seg_base2 = seg_base.clone();
                set_observer(Some(Box::new(move |acc| {
                    if let Access::Load { addr, .. } = acc {
                        if k >= nobs {
                            // REPEAT: memory stays as the last observation left it, so the reader keeps observing the same values
                            if !repeat {
                                misuse2.set(misuse2.get() + 1);
                            }
                            return;
                        }
                        let (off, val, ref words) = obs2[k];
                        // the reader's mapping and the driver's mapping are different addresses of the same page:
                        // identify the location by its offset within the page
                        if seg_base2.get() == 0 {
                            seg_base2.set(addr - (addr & 0xfff));
                        }
                        let aoff = addr & 0xfff;
                        if aoff != off {
                            misuse2.set(misuse2.get() + 100);
                        }
                        unsafe { std::ptr::write_volatile((base + off) as *mut u16, val) };
                        if let Some(ws) = words {
                            let d = DriverMap { ptr: base as *mut u8, len: 0 };
                            for (i, t) in ws.iter().enumerate() {
                                d.put_word(i, *t);
                            }
                            std::mem::forget(d);
                        }
                        k += 1;
                    }
                })));
                let r = match reader.snapshot() {
                    Ok(c) => format!("ok:{}", tags_of(c)),
                    Err(e) => format!("err:{:?}", e),
                };
                set_observer(None);
                out.push(format!("call={} script_misuse={}", r, misuse.get()));
            }
        }
        out.join(" ")
    }));
    let _ = std::fs::remove_file(&path);
    match res {
        Ok(s) => format!("ok {}", s),
        Err(p) => format!("panic {}", crate::panic_msg(&p)),
    }
}

/// snapshot_stall <ms>: a fresh reader starts copying under an even generation; from its second generation load
/// on, the generation is odd for ever (writer died mid-update). Reports whether snapshot() returns within <ms>.
pub fn cmd_snapshot_stall(a: &[&str]) -> String {
    let ms: u64 = a.get(0).and_then(|x| x.parse().ok()).unwrap_or(3000);
    let path = tmp_path("st");
    let mut bytes = header_bytes(72, 1, 2);
    bytes.extend_from_slice(&[0u8; 56]);
    write_file(&path, &bytes);
    let (tx, rx) = std::sync::mpsc::channel();
    let p2 = path.clone();
    std::thread::spawn(move || {
        let cpath = CString::new(p2.clone()).unwrap();
        let mut reader = ShmReader::new(&cpath).expect("ShmReader::new");
        let drv = DriverMap::new(&p2, 72);
        let base = drv.ptr as usize;
        let mut n = 0usize;
        let count = std::rc::Rc::new(std::cell::Cell::new(0usize));
        let count2 = count.clone();
        set_observer(Some(Box::new(move |acc| {
            if let Access::Load { .. } = acc {
                n += 1;
                count2.set(n);
                if n >= 3 {
                    unsafe { std::ptr::write_volatile((base + 14) as *mut u16, 3) };
                }
            }
        })));
        let t0 = std::time::Instant::now();
        let r = reader.snapshot().is_ok();
        let _ = tx.send(format!("returned ok={} loads={} ms={}", r, count.get(), t0.elapsed().as_millis()));
    });
    let r = match rx.recv_timeout(std::time::Duration::from_millis(ms)) {
        Ok(s) => s,
        Err(_) => {
            let _ = std::fs::remove_file(&path);
            println!("timeout snapshot() did not return within {} ms against a writer stalled on an odd generation", ms);
            std::process::exit(0);
        }
    };
    let _ = std::fs::remove_file(&path);
    r
}

/// snapshot_stall_odd <ms>: the writer died between its two generation stores BEFORE the reader's first call: the generation is
/// odd from the first load on. A fresh reader (nothing cached) calls snapshot(). Reports whether it returns within <ms>.
pub fn cmd_snapshot_stall_odd(a: &[&str]) -> String {
    let ms: u64 = a.get(0).and_then(|x| x.parse().ok()).unwrap_or(3000);
    let path = tmp_path("so");
    let mut bytes = header_bytes(72, 1, 3);
    bytes.extend_from_slice(&[0u8; 56]);
    write_file(&path, &bytes);
    let (tx, rx) = std::sync::mpsc::channel();
    let p2 = path.clone();
    std::thread::spawn(move || {
        let cpath = CString::new(p2.clone()).unwrap();
        let mut reader = ShmReader::new(&cpath).expect("ShmReader::new");
        let t0 = std::time::Instant::now();
        let r = reader.snapshot().is_ok();
        let _ = tx.send(format!("returned ok={} ms={}", r, t0.elapsed().as_millis()));
    });
    let r = match rx.recv_timeout(std::time::Duration::from_millis(ms)) {
        Ok(s) => s,
        Err(_) => {
            let _ = std::fs::remove_file(&path);
            println!("timeout snapshot() of a fresh reader did not return within {} ms against a writer that died on an odd generation", ms);
            std::process::exit(0);
        }
    };
    let _ = std::fs::remove_file(&path);
    r
}

/// seq_publish <as_s,as_n,va_s,va_n,bound,drift,status,snap> ...: the real writer publishes the records one after the other (never
/// concurrently with the reader); the real reader, opened after the first publication, takes a snapshot after every record whose
/// last field is 1.  Prints what each snapshot returned.
pub fn cmd_seq_publish(a: &[&str]) -> String {
    let path = tmp_path("sq");
    let _ = std::fs::remove_file(&path);
    let res = std::panic::catch_unwind(std::panic::AssertUnwindSafe(|| {
        let mut w = ShmWriter::new(std::path::Path::new(&path)).expect("ShmWriter::new");
        let mut reader: Option<ShmReader> = None;
        let mut out = Vec::new();
        for (i, tok) in a.iter().enumerate() {
            let v: Vec<i64> = tok.split(',').map(|x| x.parse().unwrap_or(0)).collect();
            if v.len() < 8 {
                continue;
            }
            let st = match v[6].rem_euclid(3) {
                1 => ClockStatus::Synchronized,
                2 => ClockStatus::FreeRunning,
                _ => ClockStatus::Unknown,
            };
            let ceb = ClockErrorBound::new(
                libc::timespec { tv_sec: v[0], tv_nsec: v[1] },
                libc::timespec { tv_sec: v[2], tv_nsec: v[3] },
                v[4],
                v[5] as u32,
                0,
                st,
            );
            w.write(&ceb);
            if reader.is_none() {
                let cpath = CString::new(path.clone()).unwrap();
                reader = Some(ShmReader::new(&cpath).expect("ShmReader::new"));
            }
            if v[7] == 1 {
                let r = reader.as_mut().unwrap().snapshot();
                out.push(match r {
                    Ok(c) => {
                        let b: [u8; 56] = unsafe { std::mem::transmute_copy(c) };
                        let i64at = |o: usize| i64::from_ne_bytes(b[o..o + 8].try_into().unwrap());
                        let u32at = |o: usize| u32::from_ne_bytes(b[o..o + 4].try_into().unwrap());
                        format!("snap{}={},{},{},{},{},{},{}", i, i64at(0), i64at(8), i64at(16), i64at(24), i64at(32), u32at(40), u32at(48))
                    }
                    Err(e) => format!("snap{}=err:{:?}", i, e),
                });
            }
        }
        out.join(" ")
    }));
    let _ = std::fs::remove_file(&path);
    match res {
        Ok(s) => format!("ok {}", s),
        Err(p) => format!("panic {}", crate::panic_msg(&p)),
    }
}

/// open <hex bytes of the file | MISSING | DIR>: outcome of ShmReader::new and of ClockBoundClient::new_with_path
pub fn cmd_open(a: &[&str]) -> String {
    let path = tmp_path("op");
    match a.get(0).copied().unwrap_or("") {
        "MISSING" => {}
        "DIR" => {
            std::fs::create_dir_all(&path).ok();
        }
        l if l.starts_with("LINK:") => {
            // the path is a symbolic link to the file (e.g. /var/run/clockbound/shm -> /dev/shm/...)
            let hex = &l[5..];
            let bytes: Vec<u8> = (0..hex.len() / 2).map(|i| u8::from_str_radix(&hex[2 * i..2 * i + 2], 16).unwrap_or(0)).collect();
            let target = format!("{}.target", path);
            write_file(&target, &bytes);
            let _ = std::fs::remove_file(&path);
            let _ = std::os::unix::fs::symlink(&target, &path);
        }
        hex => {
            let bytes: Vec<u8> = (0..hex.len() / 2).map(|i| u8::from_str_radix(&hex[2 * i..2 * i + 2], 16).unwrap_or(0)).collect();
            write_file(&path, &bytes);
        }
    }
    let cpath = CString::new(path.clone()).unwrap();
    let count_fds = || std::fs::read_dir("/proc/self/fd").map(|d| d.count()).unwrap_or(0);
    let fds_before = count_fds();
    let r = std::panic::catch_unwind(|| match ShmReader::new(&cpath) {
        Ok(_) => "Ok".to_string(),
        Err(e) => crate::shm_err_pub(&e),
    });
    // the reader (or the error) has been dropped: every descriptor the attempt opened must be closed again
    let fds_leaked = count_fds() as i64 - fds_before as i64;
    let r2 = std::panic::catch_unwind(|| match clock_bound_client::ClockBoundClient::new_with_path(&path) {
        Ok(_) => "Ok".to_string(),
        Err(e) => format!("{:?} errno={}", e.kind, e.errno.0),
    });
    let _ = std::fs::remove_file(&path);
    let _ = std::fs::remove_file(format!("{}.target", path));
    let _ = std::fs::remove_dir(&path);
    format!(
        "reader={} client={} fds_leaked={}",
        r.unwrap_or_else(|p| format!("panic {}", crate::panic_msg(&p))).replace(' ', "_"),
        r2.unwrap_or_else(|p| format!("panic {}", crate::panic_msg(&p))).replace(' ', "_"),
        fds_leaked
    )
}

/// open_race <k>: a client opens a published segment (record A) while the daemon publishes record B: the publication is performed in
/// full at the k-th shared-memory access (atomic load / store / fence) that ShmReader::new makes, or right after it returned if it makes
/// fewer than k.  The daemon is idle afterwards: the first snapshot() of that reader must be B, the last completed publication.
pub fn cmd_open_race(a: &[&str]) -> String {
    let k: usize = a.get(0).and_then(|x| x.parse().ok()).unwrap_or(1);
    if a.get(1).copied() == Some("mid") {
        return open_race_mid(k);
    }
    let path = tmp_path("orace");
    let mut bytes = header_bytes(72, 1, 2);
    bytes.extend_from_slice(&[0u8; 56]);
    write_file(&path, &bytes);
    let rec = |b: i64| ClockErrorBound::new(libc::timespec { tv_sec: b, tv_nsec: 0 }, libc::timespec { tv_sec: b + 1000, tv_nsec: 0 }, b, 1000, 0, ClockStatus::Synchronized);
    let res = std::panic::catch_unwind(std::panic::AssertUnwindSafe(|| {
        let writer = std::rc::Rc::new(std::cell::RefCell::new(ShmWriter::new(std::path::Path::new(&path)).expect("ShmWriter::new")));
        writer.borrow_mut().write(&rec(111));
        let cpath = CString::new(path.clone()).unwrap();
        let n = std::rc::Rc::new(std::cell::Cell::new(0usize));
        let wrote = std::rc::Rc::new(std::cell::Cell::new(0usize));
        let (n2, w2, wr2) = (n.clone(), wrote.clone(), writer.clone());
        set_observer(Some(Box::new(move |_acc| {
            n2.set(n2.get() + 1);
            if n2.get() == k && w2.get() == 0 {
                w2.set(n2.get());
                wr2.borrow_mut().write(&rec(222));
            }
        })));
        let reader = ShmReader::new(&cpath);
        set_observer(None);
        let accesses = n.get();
        if wrote.get() == 0 {
            writer.borrow_mut().write(&rec(222));
        }
        let mut reader = match reader {
            Ok(r) => r,
            Err(e) => return format!("accesses_in_new={} wrote_at={} open_err={}", accesses, wrote.get(), crate::shm_err_pub(&e).replace(' ', "_")),
        };
        let got = match reader.snapshot() {
            Ok(c) => {
                let b: [u8; 56] = unsafe { std::mem::transmute_copy(c) };
                format!("{}", i64::from_ne_bytes(b[32..40].try_into().unwrap()))
            }
            Err(e) => format!("err_{:?}", e).replace(' ', "_"),
        };
        format!("accesses_in_new={} wrote_at={} snapshot_bound={}", accesses, wrote.get(), got)
    }));
    set_observer(None);
    let _ = std::fs::remove_file(&path);
    match res {
        Ok(s) => format!("ok {}", s),
        Err(p) => format!("panic {}", crate::panic_msg(&p).replace(' ', "_")),
    }
}

/// open_race <k> mid: the client opens the segment while an update is IN FLIGHT (generation odd, the first half of the record words
/// already those of record B, the rest still those of record A); the update is completed (remaining words, then the even generation)
/// at the k-th shared-memory access of ShmReader::new, or right after it returned.  The writer's steps are replayed by storing into a
/// second mapping of the file, in the order the real write() makes them.  The first snapshot() afterwards must be record B as a whole.
fn open_race_mid(k: usize) -> String {
    let path = tmp_path("oracem");
    let word = |b: i64, i: usize| -> [u8; 8] {
        // record "b": as_of = (b, 0), void_after = (b + 1000, 0), bound = b, drift 1000 / reserved 0, status 1 / padding 0
        let rec = record_words(b);
        rec[i]
    };
    let mut bytes = header_bytes(72, 1, 2);
    for i in 0..7 {
        bytes.extend_from_slice(&word(111, i));
    }
    write_file(&path, &bytes);
    let res = std::panic::catch_unwind(std::panic::AssertUnwindSafe(|| {
        use std::os::unix::io::AsRawFd;
        let f = std::fs::OpenOptions::new().read(true).write(true).open(&path).expect("open");
        let base = unsafe { libc::mmap(std::ptr::null_mut(), 72, libc::PROT_READ | libc::PROT_WRITE, libc::MAP_SHARED, f.as_raw_fd(), 0) } as *mut u8;
        assert!(base as isize != -1);
        let base_addr = base as usize;
        let store_gen = move |g: u16| unsafe { std::ptr::write_volatile((base_addr + 14) as *mut u16, g) };
        let store_word = move |i: usize, b: i64| unsafe { std::ptr::write_volatile((base_addr + 16 + 8 * i) as *mut [u8; 8], record_words(b)[i]) };
        // the update in flight: generation 3, words 0..3 already those of B
        store_gen(3);
        std::sync::atomic::fence(Ordering::SeqCst);
        for i in 0..4 {
            store_word(i, 222);
        }
        let finish = move || {
            for i in 4..7 {
                store_word(i, 222);
            }
            std::sync::atomic::fence(Ordering::SeqCst);
            store_gen(4);
        };
        let cpath = CString::new(path.clone()).unwrap();
        let n = std::rc::Rc::new(std::cell::Cell::new(0usize));
        let done = std::rc::Rc::new(std::cell::Cell::new(0usize));
        let (n2, d2) = (n.clone(), done.clone());
        let fin2 = finish.clone();
        set_observer(Some(Box::new(move |_acc| {
            n2.set(n2.get() + 1);
            if n2.get() == k && d2.get() == 0 {
                d2.set(n2.get());
                fin2();
            }
        })));
        let reader = ShmReader::new(&cpath);
        set_observer(None);
        let accesses = n.get();
        if done.get() == 0 {
            finish();
        }
        let mut reader = match reader {
            Ok(r) => r,
            Err(e) => return format!("accesses_in_new={} completed_at={} open_err={}", accesses, done.get(), crate::shm_err_pub(&e).replace(' ', "_")),
        };
        let got = match reader.snapshot() {
            Ok(c) => {
                let b: [u8; 56] = unsafe { std::mem::transmute_copy(c) };
                let ws: Vec<String> = (0..7).map(|i| if b[8 * i..8 * i + 8] == word(222, i) { "B".to_string() } else if b[8 * i..8 * i + 8] == word(111, i) { "A".to_string() } else { "?".to_string() }).collect();
                ws.join("")
            }
            Err(e) => format!("err_{:?}", e).replace(' ', "_"),
        };
        unsafe { libc::munmap(base as *mut libc::c_void, 72) };
        format!("accesses_in_new={} completed_at={} snapshot_words={}", accesses, done.get(), got)
    }));
    set_observer(None);
    let _ = std::fs::remove_file(&path);
    match res {
        Ok(s) => format!("ok {}", s),
        Err(p) => format!("panic {}", crate::panic_msg(&p).replace(' ', "_")),
    }
}

fn record_words(b: i64) -> [[u8; 8]; 7] {
    let mut w = [[0u8; 8]; 7];
    w[0] = b.to_ne_bytes();
    w[1] = 0i64.to_ne_bytes();
    w[2] = (b + 1000).to_ne_bytes();
    w[3] = 0i64.to_ne_bytes();
    w[4] = b.to_ne_bytes();
    let mut x = [0u8; 8];
    x[..4].copy_from_slice(&1000u32.to_ne_bytes());
    w[5] = x;
    let mut y = [0u8; 8];
    y[..4].copy_from_slice(&1u32.to_ne_bytes());
    w[6] = y;
    w
}

/// stopstart: a daemon publishes records A (FreeRunning) and B (Synchronized) while a client holds the segment open, then STOPS CLEANLY (its
/// writer is dropped: the orderly ThreadAbort path, or an unwinding panic); the attached client and a new client read; then the daemon
/// starts again on the same file and publishes C.  Reports the generation at each stage and what the clients obtained.
pub fn cmd_stopstart(_a: &[&str]) -> String {
    let path = tmp_path("ss");
    let _ = std::fs::remove_file(&path);
    let rec = |b: i64, st: ClockStatus| ClockErrorBound::new(libc::timespec { tv_sec: b, tv_nsec: 1 }, libc::timespec { tv_sec: b + 1000, tv_nsec: 0 }, b, 1000, 0, st);
    let fields = |c: &ClockErrorBound| -> String {
        let b: [u8; 56] = unsafe { std::mem::transmute_copy(c) };
        let i = |o: usize| i64::from_ne_bytes(b[o..o + 8].try_into().unwrap());
        format!("{}:{}:{}:{}:{}:{}", i(0), i(8), i(16), i(24), i(32), i32::from_ne_bytes(b[48..52].try_into().unwrap()))
    };
    let res = std::panic::catch_unwind(std::panic::AssertUnwindSafe(|| {
        let gen_of = |p: &str| -> i64 { std::fs::read(p).ok().filter(|b| b.len() >= 16).map(|b| u16::from_ne_bytes([b[14], b[15]]) as i64).unwrap_or(-1) };
        let ver_of = |p: &str| -> i64 { std::fs::read(p).ok().filter(|b| b.len() >= 16).map(|b| u16::from_ne_bytes([b[12], b[13]]) as i64).unwrap_or(-1) };
        let mut w = ShmWriter::new(std::path::Path::new(&path)).expect("ShmWriter::new");
        w.write(&rec(100, ClockStatus::FreeRunning));
        let cpath = CString::new(path.clone()).unwrap();
        let mut old_reader = ShmReader::new(&cpath).expect("ShmReader::new");
        let _ = old_reader.snapshot();
        w.write(&rec(200, ClockStatus::Synchronized));
        let gen_before_stop = gen_of(&path);
        let rec_before: Vec<u8> = std::fs::read(&path).unwrap_or_default()[16..].to_vec();
        drop(w);
        let gen_after_stop = gen_of(&path);
        let ver_after_stop = ver_of(&path);
        let rec_after: Vec<u8> = std::fs::read(&path).unwrap_or_default().get(16..).map(|x| x.to_vec()).unwrap_or_default();
        let old = match old_reader.snapshot() {
            Ok(c) => fields(c),
            Err(e) => format!("err_{:?}", e).replace(' ', "_"),
        };
        let newr = match ShmReader::new(&cpath) {
            Ok(mut r) => match r.snapshot() {
                Ok(c) => fields(c),
                Err(e) => format!("err_{:?}", e).replace(' ', "_"),
            },
            Err(e) => format!("open_{}", crate::shm_err_pub(&e)).replace(' ', "_"),
        };
        let mut w2 = ShmWriter::new(std::path::Path::new(&path)).expect("second ShmWriter::new");
        let gen_after_restart = gen_of(&path);
        w2.write(&rec(300, ClockStatus::Synchronized));
        let gen_after_write = gen_of(&path);
        let old2 = match old_reader.snapshot() {
            Ok(c) => fields(c),
            Err(e) => format!("err_{:?}", e).replace(' ', "_"),
        };
        // a third life: the daemon stops again and the next one publishes as many records as the generation the attached client last
        // saw stands for, without the client looking in between; then, nothing in flight, the client asks
        drop(w2);
        let mut w3 = ShmWriter::new(std::path::Path::new(&path)).expect("third ShmWriter::new");
        let k = (gen_after_write / 2).max(1);
        let mut last = rec(300, ClockStatus::Synchronized);
        for i in 0..k {
            last = rec(500 + i, ClockStatus::Synchronized);
            w3.write(&last);
        }
        let gen_third = gen_of(&path);
        let old3 = match old_reader.snapshot() {
            Ok(c) => fields(c),
            Err(e) => format!("err_{:?}", e).replace(' ', "_"),
        };
        format!(
            "gen_before_stop={} gen_after_stop={} version_after_stop={} record_changed_by_stop={} attached_client_after_stop={} new_client_after_stop={} gen_after_restart={} gen_after_first_write={} attached_client_after_restart={} third_life_publications={} gen_third_life={} last_published={} attached_client_third_life={}",
            gen_before_stop, gen_after_stop, ver_after_stop, rec_before != rec_after, old, newr, gen_after_restart, gen_after_write, old2, k, gen_third, fields(&last), old3
        )
    }));
    let _ = std::fs::remove_file(&path);
    match res {
        Ok(s) => format!("ok {}", s),
        Err(p) => format!("panic {}", crate::panic_msg(&p).replace(' ', "_")),
    }
}

/// recreate_link <hex bytes>: the well-known path is a SYMBOLIC LINK to the segment file (a common deployment: /var/run/clockbound/shm ->
/// a file elsewhere); ShmWriter::new runs on the link.  Prints the target file afterwards, whether it is still the same inode and whether
/// the path is still a link.
pub fn cmd_recreate_link(a: &[&str]) -> String {
    use std::os::unix::fs::MetadataExt;
    let target = tmp_path("rl_target");
    let link = tmp_path("rl_link");
    let hex = a.get(0).copied().unwrap_or("");
    let bytes: Vec<u8> = (0..hex.len() / 2).map(|i| u8::from_str_radix(&hex[2 * i..2 * i + 2], 16).unwrap_or(0)).collect();
    write_file(&target, &bytes);
    let _ = std::fs::remove_file(&link);
    if std::os::unix::fs::symlink(&target, &link).is_err() {
        return "io".into();
    }
    let ino_before = std::fs::metadata(&target).map(|m| m.ino()).unwrap_or(0);
    let r = std::panic::catch_unwind(|| ShmWriter::new(std::path::Path::new(&link)).map(|_| ()));
    let after = std::fs::read(&target).unwrap_or_default();
    let ino_after = std::fs::metadata(&target).map(|m| m.ino()).unwrap_or(0);
    let still_link = std::fs::symlink_metadata(&link).map(|m| m.file_type().is_symlink()).unwrap_or(false);
    let via_link = std::fs::read(&link).unwrap_or_default();
    let _ = std::fs::remove_file(&link);
    let _ = std::fs::remove_file(&target);
    let hexs: String = after.iter().map(|b| format!("{:02x}", b)).collect();
    let hexl: String = via_link.iter().map(|b| format!("{:02x}", b)).collect();
    match r {
        Ok(Ok(())) => format!("ok same_inode={} still_link={} bytes={} via_link={}", ino_before == ino_after && ino_before != 0, still_link, hexs, hexl),
        Ok(Err(e)) => format!("err {}", e).replace(' ', "_"),
        Err(p) => format!("panic {}", crate::panic_msg(&p)),
    }
}

/// recreate <hex bytes>: ShmWriter::new over a file with the given (unusable) content; prints the file afterwards
pub fn cmd_recreate(a: &[&str]) -> String {
    let path = tmp_path("rc");
    let hex = a.get(0).copied().unwrap_or("");
    let bytes: Vec<u8> = (0..hex.len() / 2).map(|i| u8::from_str_radix(&hex[2 * i..2 * i + 2], 16).unwrap_or(0)).collect();
    write_file(&path, &bytes);
    let r = std::panic::catch_unwind(|| ShmWriter::new(std::path::Path::new(&path)).map(|_| ()));
    let after = std::fs::read(&path).unwrap_or_default();
    let _ = std::fs::remove_file(&path);
    let hexs: String = after.iter().map(|b| format!("{:02x}", b)).collect();
    match r {
        Ok(Ok(())) => format!("ok len={} bytes={}", after.len(), hexs),
        Ok(Err(e)) => format!("err {}", e).replace(' ', "_"),
        Err(p) => format!("panic {}", crate::panic_msg(&p)),
    }
}

/// snapshot_busy <max_updates>: a writer that completes one full update before every generation load of the reader, until it has
/// performed <max_updates> updates. Reports how many generation loads the single snapshot() call needed.
pub fn cmd_snapshot_busy(a: &[&str]) -> String {
    let max_updates: usize = a.get(0).and_then(|x| x.parse().ok()).unwrap_or(2_500_000);
    let path = tmp_path("bz");
    let mut bytes = header_bytes(72, 1, 2);
    bytes.extend_from_slice(&[0u8; 56]);
    write_file(&path, &bytes);
    let res = std::panic::catch_unwind(std::panic::AssertUnwindSafe(|| {
        let writer = std::rc::Rc::new(std::cell::RefCell::new(ShmWriter::new(std::path::Path::new(&path)).expect("ShmWriter::new")));
        let cpath = CString::new(path.clone()).unwrap();
        let mut reader = ShmReader::new(&cpath).expect("ShmReader::new");
        let loads = std::rc::Rc::new(std::cell::Cell::new(0usize));
        let updates = std::rc::Rc::new(std::cell::Cell::new(0usize));
        let (l2, u2, w2) = (loads.clone(), updates.clone(), writer.clone());
        set_observer(Some(Box::new(move |acc| {
            if let Access::Load { addr, .. } = acc {
                if addr & 0xfff == 14 {
                    l2.set(l2.get() + 1);
                    if l2.get() >= 2 && u2.get() < max_updates {
                        u2.set(u2.get() + 1);
                        let ceb = ClockErrorBound::new(
                            libc::timespec { tv_sec: u2.get() as i64, tv_nsec: 0 },
                            libc::timespec { tv_sec: 0, tv_nsec: 0 },
                            1,
                            1,
                            0,
                            ClockStatus::Synchronized,
                        );
                        w2.borrow_mut().write(&ceb);
                    }
                }
            }
        })));
        let t0 = std::time::Instant::now();
        let r = reader.snapshot().is_ok();
        set_observer(None);
        format!("returned ok={} generation_loads={} writer_updates={} ms={}", r, loads.get(), updates.get(), t0.elapsed().as_millis())
    }));
    let _ = std::fs::remove_file(&path);
    match res {
        Ok(s) => format!("ok {}", s),
        Err(p) => format!("panic {}", crate::panic_msg(&p)),
    }
}
