//! R: native replay harness. Runs the REAL crates of /repo on concrete cases given one per line on
//! stdin and prints one result line per case. Used (a) to validate the symbolic encoders
//! differentially and (b) to confirm every solver model before a VIOLATION is reported.
//!
//! The process-wide `clock_gettime` below preempts libc's for every call made from the linked Rust
//! crates, so the public `now()` entry points can be evaluated at chosen (realtime, monotonic) readings
//! without any hook in /repo.
use std::cell::RefCell;
use std::io::{BufRead, Write};
use std::panic::{catch_unwind, AssertUnwindSafe};

mod abi;
mod daemon;
mod seg;
#[allow(dead_code, clippy::all)]
#[path = "/repo/clock-bound-ffi/src/lib.rs"]
mod ffi;

thread_local! {
    pub static VCLOCK: RefCell<VClock> = RefCell::new(VClock::default());
}

#[derive(Default, Clone)]
pub struct VClock {
    pub active: bool,
    pub real: (i64, i64),
    pub mono: (i64, i64),
    /// sequence of clock ids read while active
    pub reads: Vec<i32>,
    /// if set: reads of this clock id fail
    pub fail_id: Option<i32>,
    /// every read of the monotonic clock advances it by this many ns afterwards (C12 style scenarios)
    pub advance_ns: i64,
    /// every read of any clock advances both clocks by this many ns afterwards (delays between the reads of now())
    pub advance_all: i64,
}

thread_local! {
    /// called with the index of every clock read made under the virtual clock, before the read returns (used to make something
    /// happen - e.g. a publication by the daemon - exactly between two steps of a client call)
    pub static ON_CLOCK_READ: RefCell<Option<Box<dyn FnMut(usize)>>> = RefCell::new(None);
}

pub fn set_on_clock_read(f: Option<Box<dyn FnMut(usize)>>) {
    ON_CLOCK_READ.with(|o| *o.borrow_mut() = f);
}

#[no_mangle]
pub unsafe extern "C" fn clock_gettime(clk: libc::clockid_t, tp: *mut libc::timespec) -> libc::c_int {
    let idx = VCLOCK.with(|v| {
        let v = v.borrow();
        if v.active { Some(v.reads.len()) } else { None }
    });
    if let Some(i) = idx {
        let taken = ON_CLOCK_READ.with(|o| o.borrow_mut().take());
        if let Some(mut f) = taken {
            f(i);
            ON_CLOCK_READ.with(|o| {
                let mut slot = o.borrow_mut();
                if slot.is_none() {
                    *slot = Some(f);
                }
            });
        }
    }
    let handled = VCLOCK.with(|v| {
        let mut v = v.borrow_mut();
        if !v.active {
            return None;
        }
        v.reads.push(clk);
        if v.fail_id == Some(clk) {
            return Some(-1);
        }
        let t = match clk {
            libc::CLOCK_REALTIME => v.real,
            libc::CLOCK_MONOTONIC | libc::CLOCK_MONOTONIC_COARSE => {
                let t = v.mono;
                if v.advance_ns != 0 && clk == libc::CLOCK_MONOTONIC_COARSE {
                    let ns = v.mono.0 as i128 * 1_000_000_000 + v.mono.1 as i128 + v.advance_ns as i128;
                    v.mono = ((ns.div_euclid(1_000_000_000)) as i64, (ns.rem_euclid(1_000_000_000)) as i64);
                }
                t
            }
            _ => return None,
        };
        (*tp).tv_sec = t.0;
        (*tp).tv_nsec = t.1;
        if v.advance_all != 0 {
            let adv = v.advance_all as i128;
            let r = v.real.0 as i128 * 1_000_000_000 + v.real.1 as i128 + adv;
            v.real = ((r.div_euclid(1_000_000_000)) as i64, (r.rem_euclid(1_000_000_000)) as i64);
            let m = v.mono.0 as i128 * 1_000_000_000 + v.mono.1 as i128 + adv;
            v.mono = ((m.div_euclid(1_000_000_000)) as i64, (m.rem_euclid(1_000_000_000)) as i64);
        }
        Some(0)
    });
    match handled {
        Some(r) => r,
        None => libc::syscall(libc::SYS_clock_gettime, clk, tp) as libc::c_int,
    }
}

fn status_of(n: i64) -> clock_bound_shm::ClockStatus {
    match n {
        1 => clock_bound_shm::ClockStatus::Synchronized,
        2 => clock_bound_shm::ClockStatus::FreeRunning,
        _ => clock_bound_shm::ClockStatus::Unknown,
    }
}

pub fn status_num(s: clock_bound_shm::ClockStatus) -> i64 {
    match s {
        clock_bound_shm::ClockStatus::Unknown => 0,
        clock_bound_shm::ClockStatus::Synchronized => 1,
        clock_bound_shm::ClockStatus::FreeRunning => 2,
    }
}

pub fn shm_err_pub(e: &clock_bound_shm::ShmError) -> String {
    shm_err(e)
}

fn shm_err(e: &clock_bound_shm::ShmError) -> String {
    use clock_bound_shm::ShmError::*;
    match e {
        SyscallError(errno, origin) => format!("SyscallError errno={} origin={:?}", errno.0, origin),
        SegmentNotInitialized => "SegmentNotInitialized".into(),
        SegmentMalformed => "SegmentMalformed".into(),
        CausalityBreach => "CausalityBreach".into(),
    }
}

/// now as_s as_n va_s va_n bound drift status re_s re_n mo_s mo_n
fn cmd_now(a: &[i64]) -> String {
    let ceb = clock_bound_shm::ClockErrorBound::new(
        libc::timespec { tv_sec: a[0], tv_nsec: a[1] },
        libc::timespec { tv_sec: a[2], tv_nsec: a[3] },
        a[4],
        a[5] as u32,
        0,
        status_of(a[6]),
    );
    VCLOCK.with(|v| {
        let mut v = v.borrow_mut();
        // optional 12th value: every clock read advances both virtual clocks by that many ns (delays between the reads)
        *v = VClock { active: true, real: (a[7], a[8]), mono: (a[9], a[10]), reads: vec![], fail_id: None, advance_ns: 0, advance_all: a.get(11).copied().unwrap_or(0) };
    });
    let r = catch_unwind(AssertUnwindSafe(|| ceb.now()));
    let reads = VCLOCK.with(|v| {
        let mut v = v.borrow_mut();
        v.active = false;
        v.reads.clone()
    });
    let order: Vec<String> = reads.iter().map(|c| c.to_string()).collect();
    match r {
        Ok(Ok((e, l, s))) => format!("ok {} {} {} {} {} reads={}", e.tv_sec, e.tv_nsec, l.tv_sec, l.tv_nsec, status_num(s), order.join(",")),
        Ok(Err(e)) => format!("err {} reads={}", shm_err(&e), order.join(",")),
        Err(p) => format!("panic {}", panic_msg(&p)),
    }
}

pub fn panic_msg(p: &Box<dyn std::any::Any + Send>) -> String {
    if let Some(s) = p.downcast_ref::<&str>() {
        s.to_string()
    } else if let Some(s) = p.downcast_ref::<String>() {
        s.clone()
    } else {
        "?".into()
    }
}

/// child mode: `replay --threads <site> <nth> <mode>`: the real thread_manager::run with one injected worker fault, in a
/// private mount namespace (tmpfs over /var/run/clockbound) when the sandbox allows it; prints the time run() took to return.
fn threads_child(a: &[String]) -> ! {
    let n = |i: usize| a.get(i).and_then(|x| x.parse::<u32>().ok()).unwrap_or(0);
    let isolated = unsafe {
        let _ = std::fs::create_dir_all("/var/run/clockbound");
        libc::unshare(libc::CLONE_NEWNS) == 0
            && libc::mount(std::ptr::null(), b"/\0".as_ptr() as *const libc::c_char, std::ptr::null(), libc::MS_REC | libc::MS_PRIVATE, std::ptr::null()) == 0
            && libc::mount(
                b"none\0".as_ptr() as *const libc::c_char,
                b"/var/run/clockbound\0".as_ptr() as *const libc::c_char,
                b"tmpfs\0".as_ptr() as *const libc::c_char,
                // optional 10th value: 1 = the directory of the segment is read-only for the whole run (the segment cannot be created)
                if n(9) == 1 { libc::MS_RDONLY } else { 0 },
                std::ptr::null(),
            ) == 0
    };
    if n(9) == 1 && !isolated {
        println!("not_isolated_cannot_make_the_segment_directory_read_only");
        std::process::exit(0);
    }
    clock_bound_d::verif::fault::arm(n(0), n(1), n(2));
    // optional 4th value: hold the dying thread for that many ms between its notice to the main thread and the closing of its mailbox
    clock_bound_d::verif::fault::set_notify_delay(n(3));
    // optional 5th value: a stand-in chronyd on /var/run/chrony/chronyd.sock answers that many tracking requests (synchronised),
    // then goes away with its socket (chronyd restarting): the following polls fail at once, inside the poller's grace period
    let answers = n(4);
    if answers > 0 {
        fake_chronyd(answers, isolated);
    }
    // optional 6th value: 1 = the operating system refuses new threads (the address-space limit is lowered to what the process uses
    // now plus a little: the stack of a new thread cannot be mapped, pthread_create fails with EAGAIN)
    if n(5) == 1 {
        let vsize_pages: u64 = std::fs::read_to_string("/proc/self/statm").ok().and_then(|s| s.split_whitespace().next().and_then(|x| x.parse().ok())).unwrap_or(0);
        let lim = vsize_pages * 4096 + 768 * 1024;
        unsafe {
            let mut rl: libc::rlimit = std::mem::zeroed();
            libc::getrlimit(libc::RLIMIT_AS, &mut rl);
            rl.rlim_cur = lim;
            libc::setrlimit(libc::RLIMIT_AS, &rl);
        }
        let probe = std::thread::Builder::new().spawn(|| {});
        println!("probe_spawn_refused={}", probe.is_err());
    }
    // optional 7th..9th values: <stall site> <nth visit> <ms>: that thread is held (not killed) at that point for that long
    if n(6) != 0 {
        clock_bound_d::verif::fault::set_stall(n(6), n(7), n(8));
    }
    let t0 = std::time::Instant::now();
    clock_bound_d::thread_manager::run(1000, None);
    println!("returned_ms={} isolated={}", t0.elapsed().as_millis(), isolated);
    std::process::exit(0);
}

fn fake_chronyd(answers: u32, isolated: bool) {
    fake_chronyd_mode(answers, isolated, 0)
}

/// mode 0: tracking replies; 1: a reply that is not tracking data (Null body, status BadPktVersion); 2: undecodable bytes
fn fake_chronyd_mode(answers: u32, isolated: bool, mode: u32) {
    use chrony_candm::reply::{Reply, ReplyBody, Status};
    let _ = std::fs::create_dir_all("/var/run/chrony");
    if isolated {
        unsafe {
            libc::mount(
                b"none\0".as_ptr() as *const libc::c_char,
                b"/var/run/chrony\0".as_ptr() as *const libc::c_char,
                b"tmpfs\0".as_ptr() as *const libc::c_char,
                0,
                std::ptr::null(),
            );
        }
    }
    let path = "/var/run/chrony/chronyd.sock";
    let _ = std::fs::remove_file(path);
    let sock = match std::os::unix::net::UnixDatagram::bind(path) {
        Ok(s) => s,
        Err(e) => {
            println!("fake_chronyd_bind_failed={}", e.to_string().replace(' ', "_"));
            return;
        }
    };
    std::thread::spawn(move || {
        let mut buf = [0u8; 1500];
        let mut left = answers;
        while left > 0 {
            let (len, from) = match sock.recv_from(&mut buf) {
                Ok(x) => x,
                Err(_) => break,
            };
            if len < 12 {
                continue;
            }
            let sequence = u32::from_be_bytes([buf[8], buf[9], buf[10], buf[11]]);
            let cmd = u16::from_be_bytes([buf[4], buf[5]]);
            let t = daemon::tracking(0.000001, 0.0001, 0.0001, 16.0, 0, std::time::SystemTime::now(), 0x7f7f0101);
            let reply = if mode == 1 { Reply { status: Status::BadPktVersion, cmd, sequence, body: ReplyBody::Null } } else { Reply { status: Status::Success, cmd, sequence, body: ReplyBody::Tracking(t) } };
            let mut out: Vec<u8> = Vec::with_capacity(reply.length());
            reply.serialize(&mut out);
            if mode == 2 {
                out = vec![0xab; 40];
            }
            if let Some(p) = from.as_pathname() {
                let _ = sock.send_to(&out, p);
            }
            left -= 1;
        }
        drop(sock);
        let _ = std::fs::remove_file(path);
    });
}

/// child mode: `replay --gettracking <mode> [second_mode]`: the REAL ClockErrorBoundPoller (created as at daemon start) sends its real request
/// to a stand-in chronyd (private mount namespace) that answers in the given mode(s); prints what get_tracking() returned and what
/// is_within_grace_period() says right afterwards
fn gettracking_child(a: &[String]) -> ! {
    let mode = |i: usize| -> Option<u32> { a.get(i).map(|m| match m.as_str() { "tracking" => 0, "null" => 1, "garbage" => 2, _ => 9 }) };
    let isolated = unsafe {
        let _ = std::fs::create_dir_all("/var/run/chrony");
        libc::unshare(libc::CLONE_NEWNS) == 0 && libc::mount(std::ptr::null(), b"/\0".as_ptr() as *const libc::c_char, std::ptr::null(), libc::MS_REC | libc::MS_PRIVATE, std::ptr::null()) == 0
    };
    if !isolated && std::path::Path::new("/var/run/chrony/chronyd.sock").exists() {
        println!("not_isolated");
        std::process::exit(0);
    }
    let mut p = clock_bound_d::verif::chrony_poller::Poller::new_default();
    let mut out = Vec::new();
    for i in 0..2 {
        if let Some(m) = mode(i) {
            if m != 9 {
                fake_chronyd_mode(1, isolated, m);
                std::thread::sleep(std::time::Duration::from_millis(50));
            }
            let r = p.get_tracking();
            out.push(format!("call{}_some={} call{}_within_grace={}", i + 1, r.is_some(), i + 1, p.is_within_grace_period()));
            std::thread::sleep(std::time::Duration::from_millis(50));
        }
    }
    println!("{} isolated={}", out.join(" "), isolated);
    std::process::exit(0);
}

fn cmd_gettracking(a: &[&str]) -> String {
    let exe = match std::env::current_exe() {
        Ok(e) => e,
        Err(_) => return "noexe".into(),
    };
    match std::process::Command::new(exe).arg("--gettracking").args(a).stdin(std::process::Stdio::null()).stderr(std::process::Stdio::null()).output() {
        Ok(o) if o.status.success() => format!("ok {}", String::from_utf8_lossy(&o.stdout).trim().replace('\n', " ")),
        Ok(o) => format!("ok crashed status={:?}", o.status.code()),
        Err(_) => "nospawn".into(),
    }
}

/// child mode: `replay --openchild <path>`: what a client does first: ShmReader::new, then one snapshot()
fn openchild(a: &[String]) -> ! {
    let path = a.get(0).cloned().unwrap_or_default();
    let cpath = std::ffi::CString::new(path).unwrap();
    let t0 = std::time::Instant::now();
    let r = clock_bound_shm::ShmReader::new(&cpath);
    let open_ms = t0.elapsed().as_millis();
    let res = match r {
        Ok(mut rd) => format!("opened=true snapshot_ok={}", rd.snapshot().is_ok()),
        Err(e) => format!("opened=false err={}", shm_err(&e)),
    };
    println!("{} open_ms={}", res, open_ms);
    std::process::exit(0);
}

/// child mode: `replay --nowchild <path> <rust|c>`: open the segment and ask for the time once, through the Rust client or the C library
fn nowchild(a: &[String]) -> ! {
    let path = a.get(0).cloned().unwrap_or_default();
    let which = a.get(1).cloned().unwrap_or_default();
    if a.get(2).map(|s| s.as_str()) == Some("stalled") {
        nowchild_stalled(&path, &which, a.get(3).map(|s| s.as_str()) == Some("vclock"));
    }
    let t0 = std::time::Instant::now();
    let res = if which == "c" {
        unsafe {
            let cpath = std::ffi::CString::new(path).unwrap();
            let mut err = ffi::clockbound_err::default();
            let ctx = ffi::clockbound_open(cpath.as_ptr(), &mut err);
            if ctx.is_null() {
                "open_err".to_string()
            } else {
                let mut res0: std::mem::MaybeUninit<[u8; 64]> = std::mem::MaybeUninit::zeroed();
                let e = ffi::clockbound_now(ctx, res0.as_mut_ptr() as *mut ffi::clockbound_now_result);
                if e.is_null() { "now_ok".to_string() } else { format!("now_err:kind={}", std::ptr::read(&(*e).kind) as i32) }
            }
        }
    } else {
        match clock_bound_client::ClockBoundClient::new_with_path(&path) {
            Err(e) => format!("open_err:kind={}", e.kind as i32 + 1),
            Ok(mut c) => match c.now() {
                Ok(_) => "now_ok".to_string(),
                Err(e) => format!("now_err:kind={}", e.kind as i32 + 1),
            },
        }
    };
    println!("{} call_ms={}", res, t0.elapsed().as_millis());
    std::process::exit(0);
}

/// `--nowchild <path> <rust|c> stalled`: the client has the segment open; the daemon publishes a new record and, while the client's next
/// call is copying it (between the call's first and second load of the generation), starts another update and dies inside it.  That call
/// runs out of retries (bounded work, an error).  Then the same client object is asked again: that call has to return too.
fn nowchild_stalled(path: &str, which: &str, vclock: bool) -> ! {
    use clock_bound_shm::verif_shim::{set_observer, Access};
    use std::os::unix::fs::FileExt;
    let mono = {
        let mut ts = libc::timespec { tv_sec: 0, tv_nsec: 0 };
        unsafe { libc::syscall(libc::SYS_clock_gettime, libc::CLOCK_MONOTONIC, &mut ts) };
        ts.tv_sec
    };
    let publish = |gen: u16| {
        let f = std::fs::OpenOptions::new().write(true).open(path).expect("open segment");
        let mut rec = Vec::new();
        rec.extend_from_slice(&(mono - 1).to_ne_bytes());
        rec.extend_from_slice(&0i64.to_ne_bytes());
        rec.extend_from_slice(&(mono + 999).to_ne_bytes());
        rec.extend_from_slice(&0i64.to_ne_bytes());
        rec.extend_from_slice(&(5000i64 + gen as i64).to_ne_bytes());
        rec.extend_from_slice(&1000u32.to_ne_bytes());
        rec.extend_from_slice(&0u32.to_ne_bytes());
        rec.extend_from_slice(&1i32.to_ne_bytes());
        rec.extend_from_slice(&0u32.to_ne_bytes());
        f.write_all_at(&rec, 16).unwrap();
        f.write_all_at(&gen.to_ne_bytes(), 14).unwrap();
    };
    let arm = |path: String| {
        let loads = std::cell::Cell::new(0usize);
        set_observer(Some(Box::new(move |acc| {
            if let Access::Load { addr, .. } = acc {
                if addr & 0xfff == 14 {
                    loads.set(loads.get() + 1);
                    if loads.get() == 2 {
                        // the daemon starts its next update (generation odd) and dies
                        let f = std::fs::OpenOptions::new().write(true).open(&path).expect("open segment");
                        f.write_all_at(&5u16.to_ne_bytes(), 14).unwrap();
                    }
                }
            }
        })));
    };
    if vclock {
        // every clock the client reads is virtual: the calls start 970 ms into a second and each clock read takes 1 ms (a call that
        // measures its own patience with the clock must cope with the second rolling over)
        VCLOCK.with(|v| {
            *v.borrow_mut() = VClock { active: true, real: (1_700_000_000, 970_000_000), mono: (mono, 970_000_000), reads: vec![], fail_id: None, advance_ns: 0, advance_all: 1_000_000 };
        });
    }
    let mut out = Vec::new();
    if which == "c" {
        unsafe {
            let cpath = std::ffi::CString::new(path).unwrap();
            let mut err = ffi::clockbound_err::default();
            let ctx = ffi::clockbound_open(cpath.as_ptr(), &mut err);
            if ctx.is_null() {
                println!("open_err");
                std::process::exit(0);
            }
            publish(4);
            for i in 0..2 {
                if i == 0 {
                    arm(path.to_string());
                }
                let t0 = std::time::Instant::now();
                let mut res0: std::mem::MaybeUninit<[u8; 64]> = std::mem::MaybeUninit::zeroed();
                let e = ffi::clockbound_now(ctx, res0.as_mut_ptr() as *mut ffi::clockbound_now_result);
                set_observer(None);
                out.push(format!("call{}={}:ms={}", i + 1, if e.is_null() { "now_ok".to_string() } else { format!("now_err:kind={}", std::ptr::read(&(*e).kind) as i32) }, t0.elapsed().as_millis()));
                println!("{}", out.join(" "));
            }
        }
    } else {
        match clock_bound_client::ClockBoundClient::new_with_path(path) {
            Err(e) => println!("open_err:kind={}", e.kind as i32 + 1),
            Ok(mut c) => {
                publish(4);
                for i in 0..2 {
                    if i == 0 {
                        arm(path.to_string());
                    }
                    let t0 = std::time::Instant::now();
                    let r = c.now();
                    set_observer(None);
                    out.push(format!("call{}={}:ms={}", i + 1, match r { Ok(_) => "now_ok".to_string(), Err(e) => format!("now_err:kind={}", e.kind as i32 + 1) }, t0.elapsed().as_millis()));
                    println!("{}", out.join(" "));
                }
            }
        }
    }
    std::process::exit(0);
}

/// nowahead <rust|c> [watchdog_ms]: the segment holds a complete record whose as_of lies one hour ahead of the caller's monotonic clock
/// (a file that outlived a reboot, a daemon in another time namespace) and there is no daemon: one call for the time, in a child
/// process, must return (with the causality error)
fn cmd_nowahead(a: &[&str]) -> String {
    let which = a.get(0).copied().unwrap_or("rust");
    let wd: u64 = a.get(1).and_then(|x| x.parse().ok()).unwrap_or(3000);
    let path = seg::tmp_path("na");
    let mut ts = libc::timespec { tv_sec: 0, tv_nsec: 0 };
    unsafe { libc::syscall(libc::SYS_clock_gettime, libc::CLOCK_MONOTONIC, &mut ts) };
    let mut bytes = seg::header_bytes(72, 1, 2);
    let stalled = a.get(2).copied() == Some("stalled");
    let vclock = a.get(3).copied() == Some("vclock");
    let a_s = if stalled { ts.tv_sec - 1 } else { ts.tv_sec + 3600 };
    bytes.extend_from_slice(&a_s.to_ne_bytes());
    bytes.extend_from_slice(&0i64.to_ne_bytes());
    bytes.extend_from_slice(&(a_s + 1000).to_ne_bytes());
    bytes.extend_from_slice(&0i64.to_ne_bytes());
    bytes.extend_from_slice(&5000i64.to_ne_bytes());
    bytes.extend_from_slice(&1000u32.to_ne_bytes());
    bytes.extend_from_slice(&0u32.to_ne_bytes());
    bytes.extend_from_slice(&1i32.to_ne_bytes());
    bytes.extend_from_slice(&0u32.to_ne_bytes());
    if std::fs::write(&path, &bytes).is_err() {
        return "io".into();
    }
    let exe = match std::env::current_exe() {
        Ok(e) => e,
        Err(_) => return "noexe".into(),
    };
    let mut child = match std::process::Command::new(exe).arg("--nowchild").arg(&path).arg(which).args(if stalled && vclock { vec!["stalled", "vclock"] } else if stalled { vec!["stalled"] } else { vec![] }).stdin(std::process::Stdio::null()).stdout(std::process::Stdio::piped()).stderr(std::process::Stdio::null()).spawn() {
        Ok(c) => c,
        Err(_) => return "nospawn".into(),
    };
    let t0 = std::time::Instant::now();
    let res = loop {
        match child.try_wait() {
            Ok(Some(st)) => {
                let mut out = String::new();
                if let Some(mut o) = child.stdout.take() {
                    use std::io::Read;
                    let _ = o.read_to_string(&mut out);
                }
                break format!("ok returned code={} wall_ms={} {}", st.code().unwrap_or(-1), t0.elapsed().as_millis(), out.trim().lines().last().unwrap_or(""));
            }
            Ok(None) => {}
            Err(_) => break "waiterr".into(),
        }
        if t0.elapsed().as_millis() as u64 > wd {
            let _ = child.kill();
            let _ = child.wait();
            let mut out = String::new();
            if let Some(mut o) = child.stdout.take() {
                use std::io::Read;
                let _ = o.read_to_string(&mut out);
            }
            break format!("ok hung wall_ms={} (the call had not returned; child killed) {}", t0.elapsed().as_millis(), out.trim().lines().last().unwrap_or(""));
        }
        std::thread::sleep(std::time::Duration::from_millis(10));
    };
    let _ = std::fs::remove_file(&path);
    res
}

/// openlocked <flock|posix|ofd|none> [watchdog_ms]: another process (this one, standing for a daemon stopped - not dead - while it
/// holds a lock on the segment file) keeps an exclusive lock of that kind on a valid segment; a client process opens the segment.
fn cmd_openlocked(a: &[&str]) -> String {
    let kind = a.get(0).copied().unwrap_or("flock");
    let wd: u64 = a.get(1).and_then(|x| x.parse().ok()).unwrap_or(3000);
    let path = seg::tmp_path("ol");
    let mut bytes = seg::header_bytes(72, 1, 2);
    bytes.extend_from_slice(&[0u8; 56]);
    // optional third value: only the first <n> bytes of the segment are in the file (a daemon that died, or is stopped, part-way
    // through writing it)
    if let Some(n) = a.get(2).and_then(|x| x.parse::<usize>().ok()) {
        bytes.truncate(n);
    }
    // optional fourth value: the state the daemon left the header in: "nogen" (layout version stamped, no publication yet: generation 0),
    // "wiped" (version 0, generation 0), "oddgen" (died inside an update)
    match a.get(3).copied() {
        Some("nogen") => bytes[14..16].copy_from_slice(&0u16.to_ne_bytes()),
        Some("wiped") => {
            bytes[12..14].copy_from_slice(&0u16.to_ne_bytes());
            bytes[14..16].copy_from_slice(&0u16.to_ne_bytes());
        }
        Some("oddgen") => bytes[14..16].copy_from_slice(&7u16.to_ne_bytes()),
        _ => {}
    }
    if std::fs::write(&path, &bytes).is_err() {
        return "io".into();
    }
    let file = match std::fs::OpenOptions::new().read(true).write(true).open(&path) {
        Ok(f) => f,
        Err(_) => return "io".into(),
    };
    use std::os::unix::io::AsRawFd;
    let fd = file.as_raw_fd();
    let locked = unsafe {
        match kind {
            "flock" => libc::flock(fd, libc::LOCK_EX | libc::LOCK_NB) == 0,
            "posix" | "ofd" => {
                let mut fl: libc::flock = std::mem::zeroed();
                fl.l_type = libc::F_WRLCK as i16;
                fl.l_whence = libc::SEEK_SET as i16;
                fl.l_start = 0;
                fl.l_len = 0;
                libc::fcntl(fd, if kind == "ofd" { libc::F_OFD_SETLK } else { libc::F_SETLK }, &fl) == 0
            }
            _ => true,
        }
    };
    let exe = match std::env::current_exe() {
        Ok(e) => e,
        Err(_) => return "noexe".into(),
    };
    let mut child = match std::process::Command::new(exe).arg("--openchild").arg(&path).stdin(std::process::Stdio::null()).stdout(std::process::Stdio::piped()).stderr(std::process::Stdio::null()).spawn() {
        Ok(c) => c,
        Err(_) => return "nospawn".into(),
    };
    let t0 = std::time::Instant::now();
    let res = loop {
        match child.try_wait() {
            Ok(Some(st)) => {
                let mut out = String::new();
                if let Some(mut o) = child.stdout.take() {
                    use std::io::Read;
                    let _ = o.read_to_string(&mut out);
                }
                break format!("ok returned code={} wall_ms={} locked={} {}", st.code().unwrap_or(-1), t0.elapsed().as_millis(), locked, out.trim());
            }
            Ok(None) => {}
            Err(_) => break "waiterr".into(),
        }
        if t0.elapsed().as_millis() as u64 > wd {
            let _ = child.kill();
            let _ = child.wait();
            break format!("ok hung wall_ms={} locked={} (the client had not returned from opening the segment; child killed)", t0.elapsed().as_millis(), locked);
        }
        std::thread::sleep(std::time::Duration::from_millis(10));
    };
    drop(file);
    let _ = std::fs::remove_file(&path);
    res
}

fn mapped_ranges() -> Vec<(u64, u64)> {
    let txt = std::fs::read_to_string("/proc/self/maps").unwrap_or_default();
    txt.lines()
        .filter_map(|l| {
            let r = l.split_whitespace().next()?;
            let (a, b) = r.split_once('-')?;
            Some((u64::from_str_radix(a, 16).ok()?, u64::from_str_radix(b, 16).ok()?))
        })
        .collect()
}

/// child mode: `replay --unmapcheck <path>`: open and drop a real ShmReader on the file; report address ranges that were mapped
/// before and are not mapped afterwards (the reader may only unmap what it mapped itself)
fn unmapcheck_child(a: &[String]) -> ! {
    let path = a.get(0).cloned().unwrap_or_default();
    let cpath = std::ffi::CString::new(path).unwrap();
    // settle the allocator first so that it does not move the heap in between
    let warm: Vec<u8> = Vec::with_capacity(1 << 16);
    drop(warm);
    let before = mapped_ranges();
    let r = clock_bound_shm::ShmReader::new(&cpath);
    let opened = r.is_ok();
    drop(r);
    let after = mapped_ranges();
    let mut lost: u64 = 0;
    let mut first = String::new();
    for (s, e) in before {
        let mut p = s;
        while p < e {
            if !after.iter().any(|(x, y)| *x <= p && p < *y) {
                if lost == 0 {
                    first = format!("{:x}", p);
                }
                lost += 4096;
            }
            p += 4096;
        }
    }
    println!("opened={} lost_bytes={} first_lost={}", opened, lost, first);
    std::process::exit(0);
}

/// unmapcheck <hex file bytes>
fn cmd_unmapcheck(a: &[&str]) -> String {
    let hex = a.get(0).copied().unwrap_or("");
    let bytes: Vec<u8> = (0..hex.len() / 2).map(|i| u8::from_str_radix(&hex[2 * i..2 * i + 2], 16).unwrap_or(0)).collect();
    let path = seg::tmp_path("um");
    if std::fs::write(&path, &bytes).is_err() {
        return "io".into();
    }
    let exe = match std::env::current_exe() {
        Ok(e) => e,
        Err(_) => return "noexe".into(),
    };
    let out = std::process::Command::new(exe).arg("--unmapcheck").arg(&path).stdin(std::process::Stdio::null()).output();
    let _ = std::fs::remove_file(&path);
    match out {
        Ok(o) if o.status.success() => format!("ok {}", String::from_utf8_lossy(&o.stdout).trim()),
        Ok(o) => format!("ok crashed status={:?}", o.status.code()),
        Err(_) => "nospawn".into(),
    }
}

/// child mode: `replay --wipecrash <path> <limit>`: the process may not grow any file beyond <limit> bytes (RLIMIT_FSIZE, SIGXFSZ
/// ignored): ShmWriter::new over the unusable file at <path> is cut short inside wipe(), as by a crash at that point.
fn wipecrash_child(a: &[String]) -> ! {
    let path = a.get(0).cloned().unwrap_or_default();
    let limit: u64 = a.get(1).and_then(|x| x.parse().ok()).unwrap_or(12);
    // third argument "kill": SIGXFSZ keeps its default action, the process is killed at the write that crosses the limit (a crash at
    // that point: no error path of the daemon runs); otherwise the write fails with EFBIG and the daemon's own error handling runs
    let kill = a.get(2).map(|s| s.as_str()) == Some("kill");
    unsafe {
        if !kill {
            libc::signal(libc::SIGXFSZ, libc::SIG_IGN);
        }
        let rl = libc::rlimit { rlim_cur: limit, rlim_max: limit };
        libc::setrlimit(libc::RLIMIT_FSIZE, &rl);
    }
    let r = clock_bound_shm::ShmWriter::new(std::path::Path::new(&path));
    println!("new_ok={}", r.is_ok());
    std::process::exit(0);
}

/// wipecrash <hex prior file> <limit>: the daemon's start-up over that file is interrupted after <limit> bytes of wipe(); then:
/// what do clients get from the file that is left (ShmReader::new, and a first snapshot)?
fn cmd_wipecrash(a: &[&str]) -> String {
    let hex = a.get(0).copied().unwrap_or("");
    let limit = a.get(1).copied().unwrap_or("12");
    let bytes: Vec<u8> = (0..hex.len() / 2).map(|i| u8::from_str_radix(&hex[2 * i..2 * i + 2], 16).unwrap_or(0)).collect();
    let path = seg::tmp_path("wc");
    if std::fs::write(&path, &bytes).is_err() {
        return "io".into();
    }
    let exe = match std::env::current_exe() {
        Ok(e) => e,
        Err(_) => return "noexe".into(),
    };
    let out = std::process::Command::new(exe).arg("--wipecrash").arg(&path).arg(limit).stdin(std::process::Stdio::null()).output();
    let child = match out {
        Ok(o) => String::from_utf8_lossy(&o.stdout).trim().to_string(),
        Err(_) => "nospawn".into(),
    };
    let after = std::fs::read(&path).unwrap_or_default();
    let cpath = std::ffi::CString::new(path.clone()).unwrap();
    let opened = catch_unwind(AssertUnwindSafe(|| match clock_bound_shm::ShmReader::new(&cpath) {
        Ok(mut r) => match r.snapshot() {
            Ok(c) => {
                let b: [u8; 56] = unsafe { std::mem::transmute_copy(c) };
                format!("Ok:record_bound={}", i64::from_ne_bytes(b[32..40].try_into().unwrap()))
            }
            Err(e) => format!("Ok:snapshot_err:{:?}", e).replace(' ', "_"),
        },
        Err(e) => shm_err_pub(&e),
    }));
    let _ = std::fs::remove_file(&path);
    let hexs: String = after.iter().take(24).map(|b| format!("{:02x}", b)).collect();
    format!("ok child={} len={} head={} reader={}", child.replace(' ', "_"), after.len(), hexs, opened.unwrap_or_else(|p| format!("panic_{}", panic_msg(&p))).replace(' ', "_"))
}

/// wiperepair <hex prior file | MISSING> <limit>: a daemon starting over that file is KILLED inside wipe() at the write that would take a
/// file beyond <limit> bytes; then the daemon is started again (real ShmWriter::new, no limit), publishes one record, and a new client
/// attaches: the segment left unusable must have been repaired
fn cmd_wiperepair(a: &[&str]) -> String {
    use clock_bound_shm::ShmWrite;
    let hex = a.get(0).copied().unwrap_or("");
    let limit = a.get(1).copied().unwrap_or("12");
    let dir = seg::tmp_path("wr_dir");
    let _ = std::fs::remove_dir_all(&dir);
    if std::fs::create_dir_all(&dir).is_err() {
        return "io".into();
    }
    let path = format!("{}/shm", dir);
    if hex != "MISSING" {
        let bytes: Vec<u8> = (0..hex.len() / 2).map(|i| u8::from_str_radix(&hex[2 * i..2 * i + 2], 16).unwrap_or(0)).collect();
        if std::fs::write(&path, &bytes).is_err() {
            return "io".into();
        }
    }
    let exe = match std::env::current_exe() {
        Ok(e) => e,
        Err(_) => return "noexe".into(),
    };
    let out = std::process::Command::new(exe).arg("--wipecrash").arg(&path).arg(limit).arg("kill").stdin(std::process::Stdio::null()).output();
    let child = match out {
        Ok(o) => format!("{}signal={}", String::from_utf8_lossy(&o.stdout).trim().replace(' ', "_"), {
            use std::os::unix::process::ExitStatusExt;
            o.status.signal().unwrap_or(0)
        }),
        Err(_) => "nospawn".into(),
    };
    let left: Vec<String> = std::fs::read_dir(&dir).map(|d| d.filter_map(|e| e.ok()).map(|e| format!("{}:{}", e.file_name().to_string_lossy(), e.metadata().map(|m| m.len()).unwrap_or(0))).collect()).unwrap_or_default();
    let p2 = path.clone();
    let restart = catch_unwind(AssertUnwindSafe(|| match clock_bound_shm::ShmWriter::new(std::path::Path::new(&p2)) {
        Ok(mut w) => {
            let ceb = clock_bound_shm::ClockErrorBound::new(libc::timespec { tv_sec: 7, tv_nsec: 0 }, libc::timespec { tv_sec: 1007, tv_nsec: 0 }, 4242, 1000, 0, clock_bound_shm::ClockStatus::Synchronized);
            w.write(&ceb);
            "ok".to_string()
        }
        Err(e) => format!("err_{}", e).replace(' ', "_"),
    }))
    .unwrap_or_else(|p| format!("panic_{}", panic_msg(&p)).replace(' ', "_"));
    let cpath = std::ffi::CString::new(path.clone()).unwrap();
    let opened = catch_unwind(AssertUnwindSafe(|| match clock_bound_shm::ShmReader::new(&cpath) {
        Ok(mut r) => match r.snapshot() {
            Ok(c) => {
                let b: [u8; 56] = unsafe { std::mem::transmute_copy(c) };
                format!("Ok:record_bound={}", i64::from_ne_bytes(b[32..40].try_into().unwrap()))
            }
            Err(e) => format!("Ok:snapshot_err:{:?}", e).replace(' ', "_"),
        },
        Err(e) => shm_err_pub(&e),
    }))
    .unwrap_or_else(|p| format!("panic_{}", panic_msg(&p)).replace(' ', "_"));
    let _ = std::fs::remove_dir_all(&dir);
    format!("ok child={} left={} restart={} reader={}", child, left.join(","), restart, opened.replace(' ', "_"))
}

/// threads <site> <nth> <mode> [<watchdog ms>]: run the child above; report when (whether) thread_manager::run returned
fn cmd_threads(a: &[&str]) -> String {
    let wd: u64 = a.get(3).and_then(|x| x.parse().ok()).unwrap_or(10_000);
    let exe = match std::env::current_exe() {
        Ok(e) => e,
        Err(_) => return "noexe".into(),
    };
    let mut child = match std::process::Command::new(exe)
        .arg("--threads")
        .args(&a[..a.len().min(3)])
        .arg(a.get(4).copied().unwrap_or("0"))
        .arg(a.get(5).copied().unwrap_or("0"))
        .arg(a.get(6).copied().unwrap_or("0"))
        .arg(a.get(7).copied().unwrap_or("0"))
        .arg(a.get(8).copied().unwrap_or("0"))
        .arg(a.get(9).copied().unwrap_or("0"))
        .arg(a.get(10).copied().unwrap_or("0"))
        .stdin(std::process::Stdio::null())
        .stdout(std::process::Stdio::piped())
        .stderr(std::process::Stdio::null())
        .spawn()
    {
        Ok(c) => c,
        Err(_) => return "nospawn".into(),
    };
    let t0 = std::time::Instant::now();
    loop {
        match child.try_wait() {
            Ok(Some(st)) => {
                let mut out = String::new();
                if let Some(mut o) = child.stdout.take() {
                    use std::io::Read;
                    let _ = o.read_to_string(&mut out);
                }
                return format!("ok exited code={} wall_ms={} {}", st.code().unwrap_or(-1), t0.elapsed().as_millis(), out.trim().replace('\n', " "));
            }
            Ok(None) => {}
            Err(_) => return "waiterr".into(),
        }
        if t0.elapsed().as_millis() as u64 > wd {
            let _ = child.kill();
            let _ = child.wait();
            return format!("ok hung wall_ms={} (thread_manager::run had not returned; child killed)", t0.elapsed().as_millis());
        }
        std::thread::sleep(std::time::Duration::from_millis(20));
    }
}

fn main() {
    std::panic::set_hook(Box::new(|_| {}));
    let argv: Vec<String> = std::env::args().collect();
    if argv.get(1).map(|s| s.as_str()) == Some("--threads") {
        threads_child(&argv[2..]);
    }
    if argv.get(1).map(|s| s.as_str()) == Some("--unmapcheck") {
        unmapcheck_child(&argv[2..]);
    }
    if argv.get(1).map(|s| s.as_str()) == Some("--wipecrash") {
        wipecrash_child(&argv[2..]);
    }
    if argv.get(1).map(|s| s.as_str()) == Some("--gettracking") {
        gettracking_child(&argv[2..]);
    }
    if argv.get(1).map(|s| s.as_str()) == Some("--nowchild") {
        nowchild(&argv[2..]);
    }
    if argv.get(1).map(|s| s.as_str()) == Some("--openchild") {
        openchild(&argv[2..]);
    }
    let stdin = std::io::stdin();
    let stdout = std::io::stdout();
    let mut out = stdout.lock();
    for line in stdin.lock().lines() {
        let line = match line {
            Ok(l) => l,
            Err(_) => break,
        };
        let mut it = line.split_whitespace();
        let cmd = match it.next() {
            Some(c) => c,
            None => continue,
        };
        let rest: Vec<&str> = it.collect();
        let ints = || -> Vec<i64> { rest.iter().map(|x| x.parse::<i64>().unwrap_or(0)).collect() };
        let res = match cmd {
            "now" => cmd_now(&ints()),
            "extract" => daemon::cmd_extract(&rest),
            "history" => daemon::cmd_history(&rest),
            "historyseg" => daemon::cmd_historyseg(&rest),
            "msgloop" => daemon::cmd_msgloop(&rest),
            "grace" => daemon::cmd_grace(&rest),
            "refid" => daemon::cmd_refid(&rest),
            "poller" => daemon::cmd_poller(&rest),
            "pollertiming" => daemon::cmd_pollertiming(&rest),
            "phcfile" => daemon::cmd_phcfile(&rest),
            "open" => seg::cmd_open(&rest),
            "snapshot_script" => seg::cmd_snapshot_script(&rest),
            "writegen" => seg::cmd_writegen(&rest),
            "layout" => abi::cmd_layout(&rest),
            "rewrite" => abi::cmd_rewrite(&rest),
            "abi" => abi::cmd_abi(&rest),
            "abi2" => abi::cmd_abi2(&rest),
            "abi3" => abi::cmd_abi3(&rest),
            "recreate" => seg::cmd_recreate(&rest),
            "recreate_link" => seg::cmd_recreate_link(&rest),
            "open_race" => seg::cmd_open_race(&rest),
            "stopstart" => seg::cmd_stopstart(&rest),
            "snapshot_stall" => seg::cmd_snapshot_stall(&rest),
            "seq_publish" => seg::cmd_seq_publish(&rest),
            "snapshot_stall_odd" => seg::cmd_snapshot_stall_odd(&rest),
            "snapshot_busy" => seg::cmd_snapshot_busy(&rest),
            "e2e" => daemon::cmd_e2e(&rest),
            "threads" => cmd_threads(&rest),
            "openlocked" => cmd_openlocked(&rest),
            "nowahead" => cmd_nowahead(&rest),
            "gettracking" => cmd_gettracking(&rest),
            "unmapcheck" => cmd_unmapcheck(&rest),
            "wipecrash" => cmd_wipecrash(&rest),
            "wiperepair" => cmd_wiperepair(&rest),
            "ping" => "pong".to_string(),
            _ => format!("unknown-command {}", cmd),
        };
        let _ = writeln!(out, "{}", res);
        let _ = out.flush();
    }
}
