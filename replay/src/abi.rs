//! C17: the bytes the REAL writer produces, and the C library (the FFI crate's source compiled into this harness)
//! against the Rust client on the same segment at the same (virtual) moment.
use crate::daemon::{clock_off, set_clock};
use crate::seg::{header_bytes, tmp_path, write_file};
use clock_bound_shm::{ClockErrorBound, ClockStatus, ShmWrite, ShmWriter};
use std::ffi::CString;

fn status_of(n: i64) -> ClockStatus {
    match n {
        1 => ClockStatus::Synchronized,
        2 => ClockStatus::FreeRunning,
        _ => ClockStatus::Unknown,
    }
}

/// layout <as_s> <as_n> <va_s> <va_n> <bound> <drift> <reserved> <status>: bytes of a fresh segment after ShmWriter::new + write
pub fn cmd_layout(a: &[&str]) -> String {
    let v: Vec<i64> = a.iter().map(|x| x.parse().unwrap_or(0)).collect();
    if v.len() < 8 {
        return "usage".into();
    }
    let path = tmp_path("lay");
    let r = std::panic::catch_unwind(|| {
        let mut w = ShmWriter::new(std::path::Path::new(&path)).expect("ShmWriter::new");
        let ceb = ClockErrorBound::new(
            libc::timespec { tv_sec: v[0], tv_nsec: v[1] },
            libc::timespec { tv_sec: v[2], tv_nsec: v[3] },
            v[4],
            v[5] as u32,
            v[6] as u32,
            status_of(v[7]),
        );
        w.write(&ceb);
    });
    let after = std::fs::read(&path).unwrap_or_default();
    let _ = std::fs::remove_file(&path);
    let hexs: String = after.iter().map(|b| format!("{:02x}", b)).collect();
    match r {
        Ok(()) => format!("ok len={} bytes={}", after.len(), hexs),
        Err(p) => format!("panic {}", crate::panic_msg(&p)),
    }
}

/// rewrite <g0> <as_s> <as_n> <va_s> <va_n> <bound> <drift> <reserved> <status>: a segment left at generation g0 by a previous
/// writer whose record area is filled with 0xAA; a new real ShmWriter is created on it and writes the given record once; the
/// fields found in the file afterwards, decoded at the compiler's offsets.
pub fn cmd_rewrite(a: &[&str]) -> String {
    let v: Vec<i64> = a.iter().map(|x| x.parse().unwrap_or(0)).collect();
    if v.len() < 9 {
        return "usage".into();
    }
    let path = tmp_path("rw");
    let mut bytes = header_bytes(72, 1, v[0] as u16);
    bytes.extend_from_slice(&[0xAAu8; 56]);
    write_file(&path, &bytes);
    let r = std::panic::catch_unwind(|| {
        let mut w = ShmWriter::new(std::path::Path::new(&path)).expect("ShmWriter::new");
        let ceb = ClockErrorBound::new(
            libc::timespec { tv_sec: v[1], tv_nsec: v[2] },
            libc::timespec { tv_sec: v[3], tv_nsec: v[4] },
            v[5],
            v[6] as u32,
            v[7] as u32,
            status_of(v[8]),
        );
        w.write(&ceb);
    });
    let after = std::fs::read(&path).unwrap_or_default();
    let _ = std::fs::remove_file(&path);
    if after.len() < 72 {
        return format!("short len={}", after.len());
    }
    let i64at = |o: usize| i64::from_ne_bytes(after[o..o + 8].try_into().unwrap());
    let u32at = |o: usize| u32::from_ne_bytes(after[o..o + 4].try_into().unwrap());
    let fields = format!(
        "{},{},{},{},{},{},{},{}",
        i64at(16),
        i64at(24),
        i64at(32),
        i64at(40),
        i64at(48),
        u32at(56),
        u32at(60),
        u32at(64)
    );
    match r {
        Ok(()) => format!("ok gen={} fields={}", u16::from_ne_bytes([after[14], after[15]]), fields),
        Err(p) => format!("panic {}", crate::panic_msg(&p)),
    }
}

fn record_bytes(as_of: (i64, i64), va: (i64, i64), bound: i64, drift: u32, status: i32) -> Vec<u8> {
    let mut b = Vec::new();
    for x in [as_of.0, as_of.1, va.0, va.1, bound] {
        b.extend_from_slice(&x.to_ne_bytes());
    }
    b.extend_from_slice(&drift.to_ne_bytes());
    b.extend_from_slice(&0u32.to_ne_bytes());
    b.extend_from_slice(&status.to_ne_bytes());
    b.extend_from_slice(&0u32.to_ne_bytes());
    b
}

/// abi <scenario> ...: both client libraries on the same file under the same virtual clock
///   scenario := rec <as_s> <as_n> <va_s> <va_n> <bound> <drift> <status> <mono_s> <mono_n> <real_s> <real_n>
///             | missing | badmagic | short | zerogen | smallseg
pub fn cmd_abi(a: &[&str]) -> String {
    let path = tmp_path("abi");
    let mut mono = (100i64, 0i64);
    let mut real = (1_700_000_000i64, 0i64);
    let first = a.get(0).copied().unwrap_or("");
    // `dirty:<scenario>`: the caller's clockbound_err already holds an error (SYSCALL, errno 2) from an earlier call
    let dirty = first.starts_with("dirty:");
    // `nullerr:<scenario>`: the C caller passes err = NULL (clockbound.h: "if err is non-null, fills *err"): the optional out-parameter
    let nullerr = first.starts_with("nullerr:");
    let scen = first.strip_prefix("dirty:").or_else(|| first.strip_prefix("nullerr:")).unwrap_or(first);
    match scen {
        "rec" => {
            let v: Vec<i64> = a[1..].iter().map(|x| x.parse().unwrap_or(0)).collect();
            let mut bytes = header_bytes(72, 1, 2);
            bytes.extend_from_slice(&record_bytes((v[0], v[1]), (v[2], v[3]), v[4], v[5] as u32, v[6] as i32));
            write_file(&path, &bytes);
            mono = (v[7], v[8]);
            real = (v[9], v[10]);
        }
        "missing" => {}
        "badmagic" => {
            let mut bytes = header_bytes(72, 1, 2);
            bytes[0] ^= 0xff;
            bytes.extend_from_slice(&[0u8; 56]);
            write_file(&path, &bytes);
        }
        "badmagic2" => {
            // the first word of the magic number is right, the second is not (another format version of the same family)
            let mut bytes = header_bytes(72, 1, 2);
            bytes[5] ^= 0x03;
            bytes.extend_from_slice(&[0u8; 56]);
            write_file(&path, &bytes);
        }
        "short" => write_file(&path, &header_bytes(72, 1, 2)[..10]),
        "zerogen" => {
            let mut bytes = header_bytes(72, 1, 0);
            bytes.extend_from_slice(&[0u8; 56]);
            write_file(&path, &bytes);
        }
        "smallseg" => {
            let mut bytes = header_bytes(40, 1, 2);
            bytes.extend_from_slice(&[0u8; 56]);
            write_file(&path, &bytes);
        }
        _ => return "usage".into(),
    }
    // ---- Rust client
    set_clock(real.0 as i128 * 1_000_000_000 + real.1 as i128, mono.0 as i128 * 1_000_000_000 + mono.1 as i128);
    let rust = std::panic::catch_unwind(|| match clock_bound_client::ClockBoundClient::new_with_path(&path) {
        Err(e) => format!("open_err:kind={}:errno={}", e.kind as i32 + 1, e.errno.0),
        Ok(mut c) => match c.now() {
            Ok(r) => format!(
                "now_ok:{}.{}:{}.{}:{}",
                r.earliest.tv_sec(),
                r.earliest.tv_nsec(),
                r.latest.tv_sec(),
                r.latest.tv_nsec(),
                r.clock_status as i32
            ),
            Err(e) => format!("now_err:kind={}:errno={}", e.kind as i32 + 1, e.errno.0),
        },
    });
    clock_off();
    // ---- C library (the FFI crate's functions, called through their extern "C" signatures)
    set_clock(real.0 as i128 * 1_000_000_000 + real.1 as i128, mono.0 as i128 * 1_000_000_000 + mono.1 as i128);
    let cpath = CString::new(path.clone()).unwrap();
    let c = std::panic::catch_unwind(|| unsafe {
        let mut err = crate::ffi::clockbound_err::default();
        if dirty {
            let missing = CString::new("/nonexistent/clockbound-verif").unwrap();
            let c0 = crate::ffi::clockbound_open(missing.as_ptr(), &mut err);
            if !c0.is_null() {
                crate::ffi::clockbound_close(c0);
            }
        }
        let errp: *mut crate::ffi::clockbound_err = if nullerr { std::ptr::null_mut() } else { &mut err };
        let ctx = crate::ffi::clockbound_open(cpath.as_ptr(), errp);
        if ctx.is_null() {
            if nullerr {
                return "open_err".to_string();
            }
            return format!("open_err:kind={}:errno={}", err.kind as i32, err.errno);
        }
        // the result structure exactly as clockbound.h declares it to a C program
        #[repr(C)]
        struct CNowResult {
            earliest: libc::timespec,
            latest: libc::timespec,
            clock_status: i32,
        }
        let mut res: std::mem::MaybeUninit<CNowResult> = std::mem::MaybeUninit::zeroed();
        let e = crate::ffi::clockbound_now(ctx, res.as_mut_ptr() as *mut crate::ffi::clockbound_now_result);
        let out = if e.is_null() {
            let r = res.assume_init();
            format!("now_ok:{}.{}:{}.{}:{}", r.earliest.tv_sec, r.earliest.tv_nsec, r.latest.tv_sec, r.latest.tv_nsec, r.clock_status as i32)
        } else {
            format!("now_err:kind={}:errno={}", std::ptr::read(&(*e).kind) as i32, (*e).errno)
        };
        crate::ffi::clockbound_close(ctx);
        out
    });
    clock_off();
    let _ = std::fs::remove_file(&path);
    format!(
        "ok rust={} c={}",
        rust.unwrap_or_else(|p| format!("panic:{}", crate::panic_msg(&p))).replace(' ', "_"),
        c.unwrap_or_else(|p| format!("panic:{}", crate::panic_msg(&p))).replace(' ', "_")
    )
}

/// abi2 <oddgen|zerover|none>: both client libraries OPEN the same consistent segment first; then the segment is changed in
/// place (generation made odd: an update in flight / version zeroed: a restarting daemon wiped it); then both call now().
/// After the same calls on the same bytes the two libraries must give the same answer.
pub fn cmd_abi2(a: &[&str]) -> String {
    use std::io::{Seek, SeekFrom, Write};
    let path = tmp_path("abi2");
    let mut bytes = header_bytes(72, 1, 2);
    bytes.extend_from_slice(&record_bytes((100, 0), (1100, 0), 5000, 1000, 1));
    write_file(&path, &bytes);
    let mode = a.get(0).copied().unwrap_or("none").to_string();
    let (real, mono) = (1_700_000_000i128 * 1_000_000_000, 101i128 * 1_000_000_000);
    let cpath = CString::new(path.clone()).unwrap();
    let p2 = path.clone();
    let r = std::panic::catch_unwind(move || unsafe {
        let mut rc = match clock_bound_client::ClockBoundClient::new_with_path(&p2) {
            Ok(c) => c,
            Err(e) => return format!("rust=open_err:kind={} c=-", e.kind as i32 + 1),
        };
        let mut err = crate::ffi::clockbound_err::default();
        let ctx = crate::ffi::clockbound_open(cpath.as_ptr(), &mut err);
        if ctx.is_null() {
            return format!("rust=- c=open_err:kind={}", err.kind as i32);
        }
        if mode == "growbound" || mode == "okthenbreach" || mode == "syncthenunknown" {
            // both clients answer once on the first record, then the daemon publishes a record whose bound grew by far more than the
            // time between the calls (the interval's lower end moves back): both must follow it
            set_clock(real, mono);
            let _ = rc.now();
            clock_off();
            set_clock(real, mono);
            let mut res0: std::mem::MaybeUninit<[u8; 64]> = std::mem::MaybeUninit::zeroed();
            let _ = crate::ffi::clockbound_now(ctx, res0.as_mut_ptr() as *mut crate::ffi::clockbound_now_result);
            clock_off();
        }
        if mode == "unknownthensync" {
            // both clients are first asked while the segment holds the daemon's placeholder (status Unknown, as_of 0, bound 0), then the
            // daemon publishes a synchronised record with a bound of 1 s: the answer to the second call depends on that record only
            use std::io::{Seek, SeekFrom, Write};
            let mut f0 = std::fs::OpenOptions::new().write(true).open(&p2).expect("open for patch");
            f0.seek(SeekFrom::Start(16)).unwrap();
            f0.write_all(&record_bytes((0, 0), (1000, 0), 0, 1000, 0)).unwrap();
            f0.seek(SeekFrom::Start(14)).unwrap();
            f0.write_all(&4u16.to_ne_bytes()).unwrap();
            drop(f0);
            set_clock(real, mono);
            let _ = rc.now();
            clock_off();
            set_clock(real, mono);
            let mut res0: std::mem::MaybeUninit<[u8; 64]> = std::mem::MaybeUninit::zeroed();
            let _ = crate::ffi::clockbound_now(ctx, res0.as_mut_ptr() as *mut crate::ffi::clockbound_now_result);
            clock_off();
        }
        if mode == "breachthenok" || mode == "malformedthenok" {
            // both clients are first asked at a moment at which the call must fail (monotonic clock 2 s before as-of: causality
            // breach / a record with a drift of 1e9 ppb: malformed), then at a moment / on a record for which it must answer:
            // an earlier failure on the same context must not stick
            if mode == "malformedthenok" {
                use std::io::{Seek, SeekFrom, Write};
                let mut f0 = std::fs::OpenOptions::new().write(true).open(&p2).expect("open for patch");
                f0.seek(SeekFrom::Start(16)).unwrap();
                f0.write_all(&record_bytes((100, 0), (1100, 0), 5000, 1_000_000_000, 1)).unwrap();
                f0.seek(SeekFrom::Start(14)).unwrap();
                f0.write_all(&4u16.to_ne_bytes()).unwrap();
            }
            let early = if mode == "breachthenok" { 98i128 * 1_000_000_000 } else { mono };
            set_clock(real, early);
            let _ = rc.now();
            clock_off();
            set_clock(real, early);
            let mut res0: std::mem::MaybeUninit<[u8; 64]> = std::mem::MaybeUninit::zeroed();
            let _ = crate::ffi::clockbound_now(ctx, res0.as_mut_ptr() as *mut crate::ffi::clockbound_now_result);
            clock_off();
        }
        let mut f = std::fs::OpenOptions::new().write(true).open(&p2).expect("open for patch");
        match mode.as_str() {
            "unknownthensync" => {
                f.seek(SeekFrom::Start(16)).unwrap();
                f.write_all(&record_bytes((100, 0), (1100, 0), 1_000_000_000, 1000, 1)).unwrap();
                f.seek(SeekFrom::Start(14)).unwrap();
                f.write_all(&6u16.to_ne_bytes()).unwrap();
            }
            "malformedthenok" => {
                f.seek(SeekFrom::Start(16)).unwrap();
                f.write_all(&record_bytes((100, 0), (1100, 0), 5000, 1000, 1)).unwrap();
                f.seek(SeekFrom::Start(14)).unwrap();
                f.write_all(&6u16.to_ne_bytes()).unwrap();
            }
            "okthenbreach" => {
                // after a successful answer (Synchronized), the daemon publishes a FreeRunning record whose as-of is 99 s ahead of
                // the caller's monotonic clock: the call has no answer to give (causality breach), least of all the previous one
                f.seek(SeekFrom::Start(16)).unwrap();
                f.write_all(&record_bytes((200, 0), (1200, 0), 5000, 1000, 2)).unwrap();
                f.seek(SeekFrom::Start(14)).unwrap();
                f.write_all(&4u16.to_ne_bytes()).unwrap();
            }
            "syncthenunknown" => {
                f.seek(SeekFrom::Start(16)).unwrap();
                f.write_all(&record_bytes((100, 0), (1100, 0), 5000, 1000, 0)).unwrap();
                f.seek(SeekFrom::Start(14)).unwrap();
                f.write_all(&4u16.to_ne_bytes()).unwrap();
            }
            "growbound" => {
                f.seek(SeekFrom::Start(16)).unwrap();
                f.write_all(&record_bytes((100, 0), (1100, 0), 5_000_000_000, 1000, 1)).unwrap();
                f.seek(SeekFrom::Start(14)).unwrap();
                f.write_all(&4u16.to_ne_bytes()).unwrap();
            }
            "oddgen" => {
                f.seek(SeekFrom::Start(14)).unwrap();
                f.write_all(&3u16.to_ne_bytes()).unwrap();
            }
            "zerover" => {
                f.seek(SeekFrom::Start(12)).unwrap();
                f.write_all(&[0u8; 4]).unwrap();
            }
            _ => {}
        }
        drop(f);
        set_clock(real, mono);
        let rust = match rc.now() {
            Ok(r) => format!("now_ok:{}.{}:{}.{}:{}", r.earliest.tv_sec(), r.earliest.tv_nsec(), r.latest.tv_sec(), r.latest.tv_nsec(), r.clock_status as i32),
            Err(e) => format!("now_err:kind={}:errno={}", e.kind as i32 + 1, e.errno.0),
        };
        clock_off();
        set_clock(real, mono);
        #[repr(C)]
        struct CNowResult {
            earliest: libc::timespec,
            latest: libc::timespec,
            clock_status: i32,
        }
        let mut res: std::mem::MaybeUninit<CNowResult> = std::mem::MaybeUninit::zeroed();
        let e = crate::ffi::clockbound_now(ctx, res.as_mut_ptr() as *mut crate::ffi::clockbound_now_result);
        let c = if e.is_null() {
            let r = res.assume_init();
            format!("now_ok:{}.{}:{}.{}:{}", r.earliest.tv_sec, r.earliest.tv_nsec, r.latest.tv_sec, r.latest.tv_nsec, r.clock_status as i32)
        } else {
            format!("now_err:kind={}:errno={}", std::ptr::read(&(*e).kind) as i32, (*e).errno)
        };
        clock_off();
        crate::ffi::clockbound_close(ctx);
        format!("rust={} c={}", rust, c)
    });
    clock_off();
    let _ = std::fs::remove_file(&path);
    match r {
        Ok(s) => format!("ok {}", s),
        Err(p) => format!("panic {}", crate::panic_msg(&p).replace(' ', "_")),
    }
}

/// abi3: both client libraries have the segment (record A) open; during ONE call for the time, at the very first clock read the call
/// makes, the daemon publishes record B (a bound a million times larger).  A call uses a record it obtained BEFORE its clock readings:
/// the answer must be the one computed from A.  (If the call read the clock first and took its snapshot afterwards, it would pair a
/// reading taken before B was measured with B.)
pub fn cmd_abi3(_a: &[&str]) -> String {
    use std::io::{Seek, SeekFrom, Write};
    let path = tmp_path("abi3");
    let mut bytes = header_bytes(72, 1, 2);
    bytes.extend_from_slice(&record_bytes((100, 0), (1100, 0), 5000, 1000, 1));
    write_file(&path, &bytes);
    let (real, mono) = (1_700_000_000i128 * 1_000_000_000, 101i128 * 1_000_000_000);
    let cpath = CString::new(path.clone()).unwrap();
    let p2 = path.clone();
    let r = std::panic::catch_unwind(move || unsafe {
        let mut rc = match clock_bound_client::ClockBoundClient::new_with_path(&p2) {
            Ok(c) => c,
            Err(e) => return format!("rust=open_err:kind={} c=-", e.kind as i32 + 1),
        };
        let mut err = crate::ffi::clockbound_err::default();
        let ctx = crate::ffi::clockbound_open(cpath.as_ptr(), &mut err);
        if ctx.is_null() {
            return format!("rust=- c=open_err:kind={}", err.kind as i32);
        }
        let publish = |p: String, rec: Vec<u8>, gen: u16| {
            let mut f = std::fs::OpenOptions::new().write(true).open(&p).expect("open for patch");
            f.seek(SeekFrom::Start(16)).unwrap();
            f.write_all(&rec).unwrap();
            f.seek(SeekFrom::Start(14)).unwrap();
            f.write_all(&gen.to_ne_bytes()).unwrap();
        };
        let rec_b = record_bytes((100, 500_000_000), (1100, 0), 5_000_000_000, 1000, 1);
        // ---- Rust client
        let (p3, rb) = (p2.clone(), rec_b.clone());
        crate::set_on_clock_read(Some(Box::new(move |i| {
            if i == 0 {
                publish(p3.clone(), rb.clone(), 4);
            }
        })));
        set_clock(real, mono);
        let rust = match rc.now() {
            Ok(r) => format!("now_ok:{}.{}:{}.{}:{}", r.earliest.tv_sec(), r.earliest.tv_nsec(), r.latest.tv_sec(), r.latest.tv_nsec(), r.clock_status as i32),
            Err(e) => format!("now_err:kind={}:errno={}", e.kind as i32 + 1, e.errno.0),
        };
        let reads_r = clock_off().len();
        crate::set_on_clock_read(None);
        // ---- C library: record A again (a new generation), then the same
        let publish2 = |p: String, rec: Vec<u8>, gen: u16| {
            let mut f = std::fs::OpenOptions::new().write(true).open(&p).expect("open for patch");
            f.seek(SeekFrom::Start(16)).unwrap();
            f.write_all(&rec).unwrap();
            f.seek(SeekFrom::Start(14)).unwrap();
            f.write_all(&gen.to_ne_bytes()).unwrap();
        };
        publish2(p2.clone(), record_bytes((100, 0), (1100, 0), 5000, 1000, 1), 6);
        let (p4, rb2) = (p2.clone(), rec_b.clone());
        crate::set_on_clock_read(Some(Box::new(move |i| {
            if i == 0 {
                publish2(p4.clone(), rb2.clone(), 8);
            }
        })));
        set_clock(real, mono);
        #[repr(C)]
        struct CNowResult {
            earliest: libc::timespec,
            latest: libc::timespec,
            clock_status: i32,
        }
        let mut res: std::mem::MaybeUninit<CNowResult> = std::mem::MaybeUninit::zeroed();
        let e = crate::ffi::clockbound_now(ctx, res.as_mut_ptr() as *mut crate::ffi::clockbound_now_result);
        let c = if e.is_null() {
            let r = res.assume_init();
            format!("now_ok:{}.{}:{}.{}:{}", r.earliest.tv_sec, r.earliest.tv_nsec, r.latest.tv_sec, r.latest.tv_nsec, r.clock_status as i32)
        } else {
            format!("now_err:kind={}:errno={}", std::ptr::read(&(*e).kind) as i32, (*e).errno)
        };
        let reads_c = clock_off().len();
        crate::set_on_clock_read(None);
        crate::ffi::clockbound_close(ctx);
        format!("rust={} c={} clock_reads={},{}", rust, c, reads_r, reads_c)
    });
    clock_off();
    crate::set_on_clock_read(None);
    let _ = std::fs::remove_file(&path);
    match r {
        Ok(s) => format!("ok {}", s),
        Err(p) => format!("panic {}", crate::panic_msg(&p).replace(' ', "_")),
    }
}
