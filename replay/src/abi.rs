//! C17: the bytes the REAL writer produces, and the C library (the FFI crate's source compiled into this harness)
//! against the Rust client on the same segment at the same (virtual) moment.
use crate::daemon::{clock_off, set_clock};
use crate::seg::{header_bytes, tmp_path, write_file};
use clock_bound_shm::{ClockErrorBound, ClockStatus, ShmWrite, ShmWriter};
use std::ffi::CString;

fn status_of(n: i64) -> ClockStatus {
    match n {
        1 => ClockStatus::Synchronized,
        2 => ClockStatus::FreeRunning,
        _ => ClockStatus::Unknown,
    }
}

/// layout <as_s> <as_n> <va_s> <va_n> <bound> <drift> <reserved> <status>: bytes of a fresh segment after ShmWriter::new + write
pub fn cmd_layout(a: &[&str]) -> String {
    let v: Vec<i64> = a.iter().map(|x| x.parse().unwrap_or(0)).collect();
    if v.len() < 8 {
        return "usage".into();
    }
    let path = tmp_path("lay");
    let r = std::panic::catch_unwind(|| {
        let mut w = ShmWriter::new(std::path::Path::new(&path)).expect("ShmWriter::new");
        let ceb = ClockErrorBound::new(
            libc::timespec { tv_sec: v[0], tv_nsec: v[1] },
            libc::timespec { tv_sec: v[2], tv_nsec: v[3] },
            v[4],
            v[5] as u32,
            v[6] as u32,
            status_of(v[7]),
        );
        w.write(&ceb);
    });
    let after = std::fs::read(&path).unwrap_or_default();
    let _ = std::fs::remove_file(&path);
    let hexs: String = after.iter().map(|b| format!("{:02x}", b)).collect();
    match r {
        Ok(()) => format!("ok len={} bytes={}", after.len(), hexs),
        Err(p) => format!("panic {}", crate::panic_msg(&p)),
    }
}

fn record_bytes(as_of: (i64, i64), va: (i64, i64), bound: i64, drift: u32, status: i32) -> Vec<u8> {
    let mut b = Vec::new();
    for x in [as_of.0, as_of.1, va.0, va.1, bound] {
        b.extend_from_slice(&x.to_ne_bytes());
    }
    b.extend_from_slice(&drift.to_ne_bytes());
    b.extend_from_slice(&0u32.to_ne_bytes());
    b.extend_from_slice(&status.to_ne_bytes());
    b.extend_from_slice(&0u32.to_ne_bytes());
    b
}

/// abi <scenario> ...: both client libraries on the same file under the same virtual clock
///   scenario := rec <as_s> <as_n> <va_s> <va_n> <bound> <drift> <status> <mono_s> <mono_n> <real_s> <real_n>
///             | missing | badmagic | short | zerogen | smallseg
pub fn cmd_abi(a: &[&str]) -> String {
    let path = tmp_path("abi");
    let mut mono = (100i64, 0i64);
    let mut real = (1_700_000_000i64, 0i64);
    match a.get(0).copied().unwrap_or("") {
        "rec" => {
            let v: Vec<i64> = a[1..].iter().map(|x| x.parse().unwrap_or(0)).collect();
            let mut bytes = header_bytes(72, 1, 2);
            bytes.extend_from_slice(&record_bytes((v[0], v[1]), (v[2], v[3]), v[4], v[5] as u32, v[6] as i32));
            write_file(&path, &bytes);
            mono = (v[7], v[8]);
            real = (v[9], v[10]);
        }
        "missing" => {}
        "badmagic" => {
            let mut bytes = header_bytes(72, 1, 2);
            bytes[0] ^= 0xff;
            bytes.extend_from_slice(&[0u8; 56]);
            write_file(&path, &bytes);
        }
        "short" => write_file(&path, &header_bytes(72, 1, 2)[..10]),
        "zerogen" => {
            let mut bytes = header_bytes(72, 1, 0);
            bytes.extend_from_slice(&[0u8; 56]);
            write_file(&path, &bytes);
        }
        "smallseg" => {
            let mut bytes = header_bytes(40, 1, 2);
            bytes.extend_from_slice(&[0u8; 56]);
            write_file(&path, &bytes);
        }
        _ => return "usage".into(),
    }
    // ---- Rust client
    set_clock(real.0 as i128 * 1_000_000_000 + real.1 as i128, mono.0 as i128 * 1_000_000_000 + mono.1 as i128);
    let rust = std::panic::catch_unwind(|| match clock_bound_client::ClockBoundClient::new_with_path(&path) {
        Err(e) => format!("open_err:kind={}:errno={}", e.kind as i32 + 1, e.errno.0),
        Ok(mut c) => match c.now() {
            Ok(r) => format!(
                "now_ok:{}.{}:{}.{}:{}",
                r.earliest.tv_sec(),
                r.earliest.tv_nsec(),
                r.latest.tv_sec(),
                r.latest.tv_nsec(),
                r.clock_status as i32
            ),
            Err(e) => format!("now_err:kind={}:errno={}", e.kind as i32 + 1, e.errno.0),
        },
    });
    clock_off();
    // ---- C library (the FFI crate's functions, called through their extern "C" signatures)
    set_clock(real.0 as i128 * 1_000_000_000 + real.1 as i128, mono.0 as i128 * 1_000_000_000 + mono.1 as i128);
    let cpath = CString::new(path.clone()).unwrap();
    let c = std::panic::catch_unwind(|| unsafe {
        let mut err = crate::ffi::clockbound_err::default();
        let ctx = crate::ffi::clockbound_open(cpath.as_ptr(), &mut err);
        if ctx.is_null() {
            return format!("open_err:kind={}:errno={}", err.kind as i32, err.errno);
        }
        // the result structure exactly as clockbound.h declares it to a C program
        #[repr(C)]
        struct CNowResult {
            earliest: libc::timespec,
            latest: libc::timespec,
            clock_status: i32,
        }
        let mut res: std::mem::MaybeUninit<CNowResult> = std::mem::MaybeUninit::zeroed();
        let e = crate::ffi::clockbound_now(ctx, res.as_mut_ptr() as *mut crate::ffi::clockbound_now_result);
        let out = if e.is_null() {
            let r = res.assume_init();
            format!("now_ok:{}.{}:{}.{}:{}", r.earliest.tv_sec, r.earliest.tv_nsec, r.latest.tv_sec, r.latest.tv_nsec, r.clock_status as i32)
        } else {
            format!("now_err:kind={}:errno={}", std::ptr::read(&(*e).kind) as i32, (*e).errno)
        };
        crate::ffi::clockbound_close(ctx);
        out
    });
    clock_off();
    let _ = std::fs::remove_file(&path);
    format!(
        "ok rust={} c={}",
        rust.unwrap_or_else(|p| format!("panic:{}", crate::panic_msg(&p))).replace(' ', "_"),
        c.unwrap_or_else(|p| format!("panic:{}", crate::panic_msg(&p))).replace(' ', "_")
    )
}
