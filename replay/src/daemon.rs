//! daemon-side cases (filled in as the checks that need them are built)
pub fn cmd_extract(_a: &[&str]) -> String { "unimplemented".into() }
pub fn cmd_history(_a: &[&str]) -> String { "unimplemented".into() }
pub fn cmd_grace(_a: &[&str]) -> String { "unimplemented".into() }
pub fn cmd_poller(_a: &[&str]) -> String { "unimplemented".into() }
pub fn cmd_e2e(_a: &[&str]) -> String { "unimplemented".into() }
