//! daemon-side cases: the REAL extract_bound_from_tracking / ShmUpdater / poller loop through the cfg-gated
//! re-exports, under the virtual clock.
use crate::{VClock, VCLOCK};
use chrony_candm::common::{ChronyAddr, ChronyFloat};
use chrony_candm::reply::Tracking;
use clock_bound_d::verif::chrony_poller as vp;
use clock_bound_d::verif::shm_writer as vs;
use clock_bound_shm::{ClockErrorBound, ShmWrite};
use std::cell::RefCell;
use std::rc::Rc;
use std::time::{Duration, SystemTime, UNIX_EPOCH};

fn f64_of_hex(h: &str) -> f64 {
    f64::from_bits(u64::from_str_radix(h, 16).unwrap_or(0))
}

fn hex_of_f64(x: f64) -> String {
    format!("{:016x}", x.to_bits())
}

const BASE_SECS: u64 = 1_000_000_000; // virtual "now" of the realtime clock

pub fn set_clock(real_ns: i128, mono_ns: i128) {
    VCLOCK.with(|v| {
        *v.borrow_mut() = VClock {
            active: true,
            real: ((real_ns.div_euclid(1_000_000_000)) as i64, (real_ns.rem_euclid(1_000_000_000)) as i64),
            mono: ((mono_ns.div_euclid(1_000_000_000)) as i64, (mono_ns.rem_euclid(1_000_000_000)) as i64),
            reads: vec![],
            fail_id: None,
            advance_ns: 0,
            advance_all: 0,
        }
    });
}

pub fn set_advance(ns: i64) {
    VCLOCK.with(|v| v.borrow_mut().advance_ns = ns);
}

pub fn clock_off() -> Vec<i32> {
    VCLOCK.with(|v| {
        let mut v = v.borrow_mut();
        v.active = false;
        v.reads.clone()
    })
}

pub fn tracking(c: f64, d: f64, r: f64, iv: f64, leap: u16, ref_time: SystemTime, ref_id: u32) -> Tracking {
    Tracking {
        ref_id,
        ip_addr: ChronyAddr::default(),
        stratum: 1,
        leap_status: leap,
        ref_time,
        current_correction: ChronyFloat::from(c),
        last_offset: ChronyFloat::from(0.0),
        rms_offset: ChronyFloat::from(0.0),
        freq_ppm: ChronyFloat::from(0.0),
        resid_freq_ppm: ChronyFloat::from(0.0),
        skew_ppm: ChronyFloat::from(0.0),
        root_delay: ChronyFloat::from(d),
        root_dispersion: ChronyFloat::from(r),
        last_update_interval: ChronyFloat::from(iv),
    }
}

fn ref_time_for_age(age_ns: i64) -> SystemTime {
    ref_time_for_age_wide(age_ns as i128)
}

/// ages of any size a SystemTime can express (centuries): seconds and nanoseconds separately
fn ref_time_for_age_wide(age_ns: i128) -> SystemTime {
    let now = UNIX_EPOCH + Duration::from_secs(BASE_SECS);
    let mag = age_ns.unsigned_abs();
    let d = Duration::new((mag / 1_000_000_000) as u64, (mag % 1_000_000_000) as u32);
    if age_ns >= 0 {
        now - d
    } else {
        now + d
    }
}

pub fn chrony_status_num(s: clock_bound_d::ChronyClockStatus) -> i64 {
    match s {
        clock_bound_d::ChronyClockStatus::Unknown => 0,
        clock_bound_d::ChronyClockStatus::Synchronized => 1,
        clock_bound_d::ChronyClockStatus::FreeRunning => 2,
    }
}

/// extract <c hex> <d hex> <r hex> <iv hex> <leap> <age_ns> <ref_id>
pub fn cmd_extract(a: &[&str]) -> String {
    if a.len() < 6 {
        return "usage".into();
    }
    let (c, d, r, iv) = (f64_of_hex(a[0]), f64_of_hex(a[1]), f64_of_hex(a[2]), f64_of_hex(a[3]));
    let leap: u16 = a[4].parse().unwrap_or(0);
    let age_ns: i128 = a[5].parse().unwrap_or(0);
    let ref_id: u32 = a.get(6).and_then(|x| x.parse().ok()).unwrap_or(0);
    let mut t = tracking(c, d, r, iv, leap, ref_time_for_age_wide(age_ns), ref_id);
    // optional 8th value: chrony's last_offset field (hex f64), a field the bound must not depend on
    if let Some(lo) = a.get(7) {
        t.last_offset = ChronyFloat::from(f64_of_hex(lo));
    }
    let seen = (
        f64::from(t.current_correction),
        f64::from(t.root_delay),
        f64::from(t.root_dispersion),
        f64::from(t.last_update_interval),
    );
    set_clock(BASE_SECS as i128 * 1_000_000_000, 0);
    let res = std::panic::catch_unwind(|| vs::extract_bound(t));
    clock_off();
    match res {
        Ok((bound, status)) => format!(
            "ok c={} d={} r={} iv={} bound={} status={} age_ns={}",
            hex_of_f64(seen.0),
            hex_of_f64(seen.1),
            hex_of_f64(seen.2),
            hex_of_f64(seen.3),
            bound,
            chrony_status_num(status),
            age_ns
        ),
        Err(p) => format!("panic {}", crate::panic_msg(&p)),
    }
}

/// a ShmWrite sink that records what the updater publishes
pub struct Sink(pub Rc<RefCell<Vec<ClockErrorBound>>>);

impl ShmWrite for Sink {
    fn write(&mut self, ceb: &ClockErrorBound) {
        self.0.borrow_mut().push(*ceb);
    }
}

pub fn ceb_fields(c: &ClockErrorBound) -> String {
    // ClockErrorBound's fields are private: decode the #[repr(C)] bytes at the documented offsets
    let b: [u8; 56] = unsafe { std::mem::transmute_copy(c) };
    let i = |o: usize| i64::from_ne_bytes(b[o..o + 8].try_into().unwrap());
    let u = |o: usize| u32::from_ne_bytes(b[o..o + 4].try_into().unwrap());
    format!("{}:{}:{}:{}:{}:{}:{}", i(0), i(8), i(16), i(24), i(32), u(40), u(48))
}

/// history <drift> <step> <step> ...   (fresh ShmUpdater; every step publishes one record)
///   step := R,<c hex>,<d hex>,<r hex>,<iv hex>,<leap>,<age_ns>,<phc>,<asof_s>,<asof_ns>   a chrony report
///         | G   no answer within the grace period      | N   no answer beyond the grace period
/// prints the published records as as_of_s:as_of_ns:void_s:void_ns:bound:drift:status
pub fn cmd_history(a: &[&str]) -> String {
    let drift: u32 = a.get(0).and_then(|x| x.parse().ok()).unwrap_or(1000);
    let store = Rc::new(RefCell::new(Vec::new()));
    let res = std::panic::catch_unwind(std::panic::AssertUnwindSafe(|| {
        let mut up = vs::Updater::new(Sink(store.clone()), drift);
        for step in &a[1..] {
            let p: Vec<&str> = step.split(',').collect();
            match p[0] {
                "R" => {
                    let t = tracking(
                        f64_of_hex(p[1]),
                        f64_of_hex(p[2]),
                        f64_of_hex(p[3]),
                        f64_of_hex(p[4]),
                        p[5].parse().unwrap(),
                        ref_time_for_age(p[6].parse().unwrap()),
                        0,
                    );
                    // optional 11th / 12th values: chrony's skew_ppm and last_offset fields (hex f64), which the published record must
                    // not depend on
                    let mut t = t;
                    if let Some(x) = p.get(10) {
                        t.skew_ppm = ChronyFloat::from(f64_of_hex(x));
                    }
                    if let Some(x) = p.get(11) {
                        t.last_offset = ChronyFloat::from(f64_of_hex(x));
                    }
                    set_clock(BASE_SECS as i128 * 1_000_000_000, 0);
                    up.clock_update(t, p[7].parse().unwrap(), libc::timespec { tv_sec: p[8].parse().unwrap(), tv_nsec: p[9].parse().unwrap() });
                    clock_off();
                }
                "G" => up.missing(true),
                "N" => up.missing(false),
                _ => {}
            }
        }
    }));
    clock_off();
    let recs: Vec<String> = store.borrow().iter().map(ceb_fields).collect();
    match res {
        Ok(()) => format!("ok {}", recs.join(" ")),
        Err(p) => format!("panic {} after {}", crate::panic_msg(&p), recs.join(" ")),
    }
}

/// grace <elapsed_ns_since_last_answer | -1 for "never answered, fresh default poller"> <uptime_ns>
pub fn cmd_grace(a: &[&str]) -> String {
    let el: i64 = a.get(0).and_then(|x| x.parse().ok()).unwrap_or(-1);
    let res = std::panic::catch_unwind(|| {
        if el < 0 {
            let p = vp::Poller::new_default();
            // evaluated immediately and again `-el - 1` ns later is not possible without sleeping: report the immediate value
            p.is_within_grace_period()
        } else {
            let now = std::time::Instant::now();
            match now.checked_sub(Duration::from_nanos(el as u64)) {
                Some(last) => vp::Poller::with_last_tracking_data(last).is_within_grace_period(),
                None => false,
            }
        }
    });
    match res {
        Ok(b) => format!("ok within={}", b),
        Err(p) => format!("panic {}", crate::panic_msg(&p)),
    }
}

struct MockOps {
    tracking: Option<Tracking>,
    /// answer of is_within_grace_period() once chronyd has been queried in this iteration
    grace: bool,
    /// its answer before the query (the grace period may run out while the query is pending)
    grace_before: bool,
    queried: std::cell::Cell<bool>,
    reads_before_query: Rc<RefCell<Vec<usize>>>,
    /// when set: (path, content) written to the PHC error-bound file at the second query (the device's value changed between two polls)
    second_phc: Option<(String, Option<String>)>,
    /// chronyd does not answer the second query
    second_silent: bool,
    queries: usize,
}

impl vp::ChronyOps for MockOps {
    fn get_tracking(&mut self) -> Option<Tracking> {
        let n = VCLOCK.with(|v| v.borrow().reads.len());
        self.reads_before_query.borrow_mut().push(n);
        self.queried.set(true);
        self.queries += 1;
        if self.queries == 2 && self.second_silent {
            return None;
        }
        if self.queries == 2 {
            if let Some((path, content)) = &self.second_phc {
                match content {
                    Some(v) => {
                        std::fs::write(path, format!("{}\n", v)).ok();
                    }
                    None => {
                        std::fs::remove_file(path).ok();
                    }
                }
            }
        }
        // every reply says which query it answers (chrony's last_offset field is not used by the daemon): a report may only be
        // published under an as-of instant read before THAT query
        self.tracking.clone().map(|mut t| {
            t.last_offset = ChronyFloat::from(self.queries as f64);
            t
        })
    }
    fn is_within_grace_period(&self) -> bool {
        if self.queried.get() {
            self.grace
        } else {
            self.grace_before
        }
    }
}

/// poller <tracking_some 0|1> <grace 0|1> <phc_cfg 0|1> <cfg_refid> <tracking_refid> <ok:VALUE|missing>
/// runs exactly one iteration of the REAL poller loop and prints what reached the ShmWriter mailbox
pub fn cmd_poller(a: &[&str]) -> String {
    use clock_bound_d::channels::new_channel_web;
    use clock_bound_d::thread_manager::Context;
    use clock_bound_d::{ChannelId, Message, PhcInfo};
    if a.len() < 6 {
        return "usage".into();
    }
    let some = a[0] == "1";
    // grace: 0 | 1 (same answer whenever asked) | 10 = inside before the query, outside once it has returned | 01 = the reverse
    let grace = a[1] == "1" || a[1] == "01";
    let grace_before = a[1] == "1" || a[1] == "10";
    let cfg = a[2] == "1";
    let cfg_refid: u32 = a[3].parse().unwrap_or(0);
    let t_refid: u32 = a[4].parse().unwrap_or(0);
    let path = crate::seg::tmp_path("phc");
    if let Some(v) = a[5].strip_prefix("ok:") {
        std::fs::write(&path, format!("{}\n", v)).ok();
    }
    if a[5] == "dir" {
        // the attribute opens but every read fails (EISDIR), as a sysfs attribute whose driver returns an error on read
        std::fs::create_dir_all(&path).ok();
    }
    let phc_info = if cfg { Some(PhcInfo { refid: cfg_refid, sysfs_error_bound_path: std::path::PathBuf::from(&path) }) } else { None };
    let (mut mbox, dbox) = new_channel_web(vec![ChannelId::ClockErrorBoundPoller, ChannelId::ShmWriter]);
    let shm_mailbox = mbox.get_mailbox(&ChannelId::ShmWriter).unwrap();
    let my = mbox.get_mailbox(&ChannelId::ClockErrorBoundPoller).unwrap();
    // optional 7th argument `second=<ok:VALUE|missing>`: a second iteration with the same report; the PHC file changes before its query
    let second = a.get(6).and_then(|x| x.strip_prefix("second=")).map(|x| x.to_string());
    if second.is_some() {
        let _ = dbox.send(&ChannelId::ClockErrorBoundPoller, Message::ChronyNotResponding);
    }
    let _ = dbox.send(&ChannelId::ClockErrorBoundPoller, Message::ThreadAbort);
    let ctx = Context { mbox: my, dbox, channel_id: ChannelId::ClockErrorBoundPoller };
    let reads = Rc::new(RefCell::new(Vec::new()));
    // optional `stratum=<n>` (any position after the sixth argument): the stratum of the report (default 1)
    let stratum: u16 = a.iter().skip(6).find_map(|x| x.strip_prefix("stratum=")).and_then(|x| x.parse().ok()).unwrap_or(1);
    let t = if some {
        let mut t0 = tracking(0.0, 0.0, 0.0, 1.0, 0, ref_time_for_age(1000), t_refid);
        t0.stratum = stratum;
        // optional `leap=<n>`: the leap status of the report (default 0)
        if let Some(l) = a.iter().skip(6).find_map(|x| x.strip_prefix("leap=")).and_then(|x| x.parse::<u16>().ok()) {
            t0.leap_status = l;
        }
        Some(t0)
    } else {
        None
    };
    let second_silent = second.as_deref() == Some("silent");
    let second_phc = if second_silent { None } else { second.map(|x| (path.clone(), x.strip_prefix("ok:").map(|v| v.to_string()))) };
    let ops = MockOps { tracking: t, grace, grace_before, queried: std::cell::Cell::new(false), reads_before_query: reads.clone(), second_phc, second_silent, queries: 0 };
    set_clock(BASE_SECS as i128 * 1_000_000_000, 123_000_000_456);
    set_advance(1_000_000_000);
    let res = std::panic::catch_unwind(std::panic::AssertUnwindSafe(|| vp::run_poller(ctx, ops, phc_info, Duration::from_millis(1))));
    let clock_reads = clock_off();
    let _ = std::fs::remove_file(&path);
    let _ = std::fs::remove_dir(&path);
    let mut msgs = Vec::new();
    while let Ok(m) = shm_mailbox.try_recv() {
        msgs.push(match m {
            Message::ClockErrorBoundData((t, phc, asof)) => format!("ClockErrorBoundData:refid={}:phc={}:asof={}.{}:q={}", t.ref_id, phc, asof.tv_sec, asof.tv_nsec, f64::from(t.last_offset) as i64),
            Message::ChronyNotRespondingGracePeriod => "ChronyNotRespondingGracePeriod".to_string(),
            Message::ChronyNotResponding => "ChronyNotResponding".to_string(),
            Message::PhcErrorBoundRetrievalFailedGracePeriod => "PhcErrorBoundRetrievalFailedGracePeriod".to_string(),
            Message::PhcErrorBoundRetrievalFailed => "PhcErrorBoundRetrievalFailed".to_string(),
            other => format!("other:{:?}", other).replace(' ', "_"),
        });
    }
    let rb: Vec<String> = reads.borrow().iter().map(|x| x.to_string()).collect();
    let cr: Vec<String> = clock_reads.iter().map(|x| x.to_string()).collect();
    match res {
        Ok(()) => format!("ok n={} msgs={} clock_ids={} clock_reads_before_query={}", msgs.len(), msgs.join("|"), cr.join(","), rb.join(",")),
        Err(p) => format!("panic {} msgs={}", crate::panic_msg(&p), msgs.join("|")),
    }
}

/// pollertiming <period_ms> <total_ms>: the REAL poller loop with the given polling period against a chronyd that never answers (and
/// was never heard: outside the grace period); after <total_ms> it is told to stop.  Prints how many outcome messages reached the
/// writer's mailbox: the grace period is only evaluated at a poll, so the polls must keep their period during an outage.
pub fn cmd_pollertiming(a: &[&str]) -> String {
    use clock_bound_d::channels::new_channel_web;
    use clock_bound_d::thread_manager::Context;
    use clock_bound_d::{ChannelId, Message};
    let period: u64 = a.get(0).and_then(|x| x.parse().ok()).unwrap_or(40);
    let total: u64 = a.get(1).and_then(|x| x.parse().ok()).unwrap_or(600);
    let (mut mbox, dbox) = new_channel_web(vec![ChannelId::ClockErrorBoundPoller, ChannelId::ShmWriter]);
    let shm_mailbox = mbox.get_mailbox(&ChannelId::ShmWriter).unwrap();
    let my = mbox.get_mailbox(&ChannelId::ClockErrorBoundPoller).unwrap();
    let stopper = dbox.clone();
    let ctx = Context { mbox: my, dbox, channel_id: ChannelId::ClockErrorBoundPoller };
    let h = std::thread::spawn(move || {
        std::thread::sleep(Duration::from_millis(total));
        let _ = stopper.send(&ChannelId::ClockErrorBoundPoller, Message::ThreadAbort);
    });
    let ops = MockOps { tracking: None, grace: false, grace_before: false, queried: std::cell::Cell::new(false), reads_before_query: Rc::new(RefCell::new(Vec::new())), second_phc: None, second_silent: false, queries: 0 };
    let t0 = std::time::Instant::now();
    let res = std::panic::catch_unwind(std::panic::AssertUnwindSafe(|| vp::run_poller(ctx, ops, None, Duration::from_millis(period))));
    let ran_ms = t0.elapsed().as_millis();
    let _ = h.join();
    let mut n = 0;
    while let Ok(_m) = shm_mailbox.try_recv() {
        n += 1;
    }
    match res {
        Ok(()) => format!("ok messages={} ran_ms={} period_ms={} total_ms={}", n, ran_ms, period, total),
        Err(p) => format!("panic {}", crate::panic_msg(&p).replace(' ', "_")),
    }
}

/// e2e <drift> <step> ... ; <real_s> <real_n> <mono_s> <mono_n>
///   steps as in `history`, plus X = daemon restart (new ShmWriter on the same file, fresh ShmUpdater).
/// The REAL ShmUpdater writes through the REAL ShmWriter into a /dev/shm file; then the REAL ClockBoundClient opens the file
/// and evaluates now() at the given virtual (realtime, monotonic) readings.
pub fn cmd_e2e(a: &[&str]) -> String {
    let k = match a.iter().position(|x| *x == ";") {
        Some(k) => k,
        None => return "usage".into(),
    };
    let drift: u32 = a.get(0).and_then(|x| x.parse().ok()).unwrap_or(1000);
    let tail: Vec<i64> = a[k + 1..].iter().map(|x| x.parse().unwrap_or(0)).collect();
    if tail.len() < 4 {
        return "usage".into();
    }
    let path = crate::seg::tmp_path("e2e");
    let res = std::panic::catch_unwind(std::panic::AssertUnwindSafe(|| {
        let mk = |p: &str| vs::Updater::new(clock_bound_shm::ShmWriter::new(std::path::Path::new(p)).expect("ShmWriter::new"), drift);
        let mut up = mk(&path);
        for step in &a[1..k] {
            let p: Vec<&str> = step.split(',').collect();
            match p[0] {
                "R" => {
                    let t = tracking(f64_of_hex(p[1]), f64_of_hex(p[2]), f64_of_hex(p[3]), f64_of_hex(p[4]), p[5].parse().unwrap(), ref_time_for_age(p[6].parse().unwrap()), 0);
                    set_clock(BASE_SECS as i128 * 1_000_000_000, 0);
                    up.clock_update(t, p[7].parse().unwrap(), libc::timespec { tv_sec: p[8].parse().unwrap(), tv_nsec: p[9].parse().unwrap() });
                    clock_off();
                }
                "G" => up.missing(true),
                "N" => up.missing(false),
                "X" => {
                    drop(up);
                    up = mk(&path);
                }
                _ => {}
            }
        }
        set_clock(tail[0] as i128 * 1_000_000_000 + tail[1] as i128, tail[2] as i128 * 1_000_000_000 + tail[3] as i128);
        let out = match clock_bound_client::ClockBoundClient::new_with_path(&path) {
            Err(e) => format!("open_err={:?}", e.kind),
            Ok(mut c) => match c.now() {
                Ok(r) => format!("interval={}:{}:{}:{}:{}", r.earliest.tv_sec(), r.earliest.tv_nsec(), r.latest.tv_sec(), r.latest.tv_nsec(), r.clock_status as i32),
                Err(e) => format!("now_err={:?}", e.kind),
            },
        };
        clock_off();
        out
    }));
    clock_off();
    let _ = std::fs::remove_file(&path);
    match res {
        Ok(s) => format!("ok {}", s),
        Err(p) => format!("panic {}", crate::panic_msg(&p)),
    }
}

/// historyseg <max_drift_ppb> <step> ...: like `history`, but the REAL ShmUpdater writes through the REAL ShmWriter into a segment file
/// and the record is read back from the file after every step; the step X drops the daemon's updater and writer and starts new ones on
/// the same file (a daemon restart): records are printed per life, lives separated by "|"
pub fn cmd_historyseg(a: &[&str]) -> String {
    let drift: u32 = a.get(0).and_then(|x| x.parse().ok()).unwrap_or(1000);
    let path = crate::seg::tmp_path("hseg");
    let _ = std::fs::remove_file(&path);
    let mut recs: Vec<String> = Vec::new();
    let res = std::panic::catch_unwind(std::panic::AssertUnwindSafe(|| {
        let mk = |p: &str| vs::Updater::new(clock_bound_shm::ShmWriter::new(std::path::Path::new(p)).expect("ShmWriter::new"), drift);
        let mut up = mk(&path);
        let read_back = |p: &str| -> String {
            let b = std::fs::read(p).unwrap_or_default();
            if b.len() < 72 {
                return "short".into();
            }
            let i = |o: usize| i64::from_ne_bytes(b[o..o + 8].try_into().unwrap());
            let u = |o: usize| u32::from_ne_bytes(b[o..o + 4].try_into().unwrap());
            format!("{}:{}:{}:{}:{}:{}:{}", i(16), i(24), i(32), i(40), i(48), u(56), u(64))
        };
        for step in &a[1..] {
            let p: Vec<&str> = step.split(',').collect();
            match p[0] {
                "R" => {
                    let t = tracking(f64_of_hex(p[1]), f64_of_hex(p[2]), f64_of_hex(p[3]), f64_of_hex(p[4]), p[5].parse().unwrap(), ref_time_for_age(p[6].parse().unwrap()), 0);
                    set_clock(BASE_SECS as i128 * 1_000_000_000, 0);
                    up.clock_update(t, p[7].parse().unwrap(), libc::timespec { tv_sec: p[8].parse().unwrap(), tv_nsec: p[9].parse().unwrap() });
                    clock_off();
                    recs.push(read_back(&path));
                }
                "G" => {
                    up.missing(true);
                    recs.push(read_back(&path));
                }
                "N" => {
                    up.missing(false);
                    recs.push(read_back(&path));
                }
                "X" => {
                    drop(up);
                    up = mk(&path);
                    recs.push("|".into());
                }
                _ => {}
            }
        }
    }));
    clock_off();
    let _ = std::fs::remove_file(&path);
    match res {
        Ok(()) => format!("ok {}", recs.join(" ")),
        Err(p) => format!("panic {} after {}", crate::panic_msg(&p), recs.join(" ")),
    }
}

/// refid <hex bytes of the string>: the real refid_to_u32
pub fn cmd_refid(a: &[&str]) -> String {
    let hex = a.get(0).copied().unwrap_or("");
    let bytes: Vec<u8> = (0..hex.len() / 2).map(|i| u8::from_str_radix(&hex[2 * i..2 * i + 2], 16).unwrap_or(0)).collect();
    match String::from_utf8(bytes) {
        Err(_) => "not-utf8".into(),
        Ok(s) => match std::panic::catch_unwind(|| clock_bound_d::refid_to_u32(&s)) {
            Ok(Ok(v)) => format!("ok value={}", v),
            Ok(Err(_)) => "ok refused".into(),
            Err(p) => format!("panic {}", crate::panic_msg(&p)),
        },
    }
}

/// phcfile <hex bytes>: write the bytes to a real file and run the real get_phc_error_bound_from_path on it
pub fn cmd_phcfile(a: &[&str]) -> String {
    let hex = a.get(0).copied().unwrap_or("");
    let bytes: Vec<u8> = (0..hex.len() / 2).filter_map(|i| u8::from_str_radix(&hex[2 * i..2 * i + 2], 16).ok()).collect();
    let path = crate::seg::tmp_path("phc");
    if std::fs::write(&path, &bytes).is_err() {
        return "io".into();
    }
    let p2 = path.clone();
    let r = std::panic::catch_unwind(move || vp::phc_error_bound_from_path(std::path::Path::new(&p2)));
    let _ = std::fs::remove_file(&path);
    match r {
        Ok(Ok(v)) => format!("ok value={}", v),
        Ok(Err(e)) => format!("err {}", format!("{:?}", e.kind()).replace(' ', "_")),
        Err(p) => format!("panic {}", crate::panic_msg(&p).replace(' ', "_")),
    }
}

/// msgloop <max_drift_ppb> <step> ...: the same steps as `history`, but delivered as messages: all of them are queued in the
/// writer thread's mailbox (followed by ThreadAbort) before the REAL process_messages loop runs over the REAL ShmUpdater.
pub fn cmd_msgloop(a: &[&str]) -> String {
    use clock_bound_d::channels::new_channel_web;
    use clock_bound_d::thread_manager::Context;
    use clock_bound_d::{ChannelId, Message};
    let drift: u32 = a.get(0).and_then(|x| x.parse().ok()).unwrap_or(1000);
    let store = Rc::new(RefCell::new(Vec::new()));
    let (mut mbox, dbox) = new_channel_web(vec![ChannelId::MainThread, ChannelId::ShmWriter]);
    let my = mbox.get_mailbox(&ChannelId::ShmWriter).unwrap();
    let _main = mbox.get_mailbox(&ChannelId::MainThread).unwrap();
    for step in &a[1..] {
        let p: Vec<&str> = step.split(',').collect();
        let msg = match p[0] {
            "R" => {
                let t = tracking(f64_of_hex(p[1]), f64_of_hex(p[2]), f64_of_hex(p[3]), f64_of_hex(p[4]), p[5].parse().unwrap(), ref_time_for_age(p[6].parse().unwrap()), 0);
                Message::ClockErrorBoundData((t, p[7].parse().unwrap(), libc::timespec { tv_sec: p[8].parse().unwrap(), tv_nsec: p[9].parse().unwrap() }))
            }
            "G" => Message::ChronyNotRespondingGracePeriod,
            "N" => Message::ChronyNotResponding,
            // the PHC flavours of a missing update (same updater calls as G / N)
            "PG" => Message::PhcErrorBoundRetrievalFailedGracePeriod,
            "PN" => Message::PhcErrorBoundRetrievalFailed,
            _ => continue,
        };
        let _ = dbox.send(&ChannelId::ShmWriter, msg);
    }
    let _ = dbox.send(&ChannelId::ShmWriter, Message::ThreadAbort);
    let ctx = Context { mbox: my, dbox, channel_id: ChannelId::ShmWriter };
    set_clock(BASE_SECS as i128 * 1_000_000_000, 0);
    let st2 = store.clone();
    let res = std::panic::catch_unwind(std::panic::AssertUnwindSafe(move || vs::run_process_messages(ctx, vs::Updater::new(Sink(st2), drift))));
    clock_off();
    let recs: Vec<String> = store.borrow().iter().map(ceb_fields).collect();
    match res {
        Ok(()) => format!("ok {}", recs.join(" ")),
        Err(p) => format!("panic {} after {}", crate::panic_msg(&p), recs.join(" ")),
    }
}
