#!/bin/bash
# Build the framework from files on disk only (offline). Idempotent.
set -e
cd "$(dirname "$0")"
export CARGO_NET_OFFLINE=true
mkdir -p build evidence
python3-vt - <<'PY'
import sys
sys.path.insert(0, '.')
from vcheck import common
for prof in ('debug', 'release'):
    common.build_replay(prof)
for kind in ('shm', 'dlib', 'dbin'):
    common.dump_mir(kind)
print('setup ok')
PY
