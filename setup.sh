#!/bin/bash
# Build the framework from files on disk only (offline). Idempotent.
set -e
cd "$(dirname "$0")"
export CARGO_NET_OFFLINE=true
mkdir -p build evidence
python3-vt - <<'PY'
import sys
sys.path.insert(0, '.')
from vcheck import common
for prof in ('debug', 'release'):
    common.build_replay(prof)
for kind in ('shm', 'dlib', 'dbin'):
    common.dump_mir(kind)
from vcheck.kani_run import run_kani
print('kani warm-up:', run_kani('refid_is_the_big_endian_packing_of_its_ascii_bytes').get('verdict'))
print('setup ok')
PY
