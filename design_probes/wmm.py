"""Prototype: single-writer / one-reader seqlock under RC11 (rel/acq + relaxed), z3.
Writer: N publications from generation g0. Reader: one snapshot() call, loop unrolled R times.
Data: W words tagged with publication index. Hand-written event lists here; the real engine
derives them from MIR."""
import sys, time
from z3 import *

N = int(sys.argv[1]); R = int(sys.argv[2]); W = int(sys.argv[3])
WF = sys.argv[4] == '1'   # writer fence(Release) after first gen store
RF = sys.argv[5] == '1'   # reader fence(Acquire) after data reads

# ---------------- writer events (po order) ----------------
# each: dict(kind, loc, val (python int or z3), rel(bool))
g0 = BitVec('g0', 16)
wev = []      # list of events
def wadd(**e): e['idx'] = len(wev); wev.append(e); return e
gen = g0
s = Solver()
s.add(g0 & 1 == 0, g0 != 0)        # start from a completed publication 0 with even non-zero generation
gens = [g0]
for k in range(1, N + 1):
    godd = gen + 1
    wadd(kind='st', loc='gen', val=godd, rel=True, pub=k)
    if WF: wadd(kind='frel')
    for i in range(W): wadd(kind='st', loc='d%d' % i, val=BitVecVal(k, 16), rel=False, pub=k)
    ge = godd + 1
    ge = If(ge == 0, BitVecVal(2, 16), ge)
    wadd(kind='st', loc='gen', val=ge, rel=True, pub=k)
    gen = ge
    gens.append(ge)

locs = ['gen'] + ['d%d' % i for i in range(W)]
# mo per location: position 0 = initial value, then writer stores in po order
mo = {l: [None] + [e for e in wev if e['kind'] == 'st' and e['loc'] == l] for l in locs}
init = {'gen': g0}
for i in range(W): init['d%d' % i] = BitVecVal(0, 16)

def val_at(loc, pos):       # pos: z3 Int -> value
    v = init[loc]
    for p in range(1, len(mo[loc])):
        v = If(pos == p, mo[loc][p]['val'], v)
    return v
def relidx_at(loc, pos):    # writer index up to which everything is released by reading mo[loc][pos]
    r = IntVal(-1)
    for p in range(1, len(mo[loc])):
        e = mo[loc][p]
        if e['rel']:
            ri = e['idx']
        else:
            fr = [f['idx'] for f in wev if f['kind'] == 'frel' and f['idx'] < e['idx']]
            ri = max(fr) if fr else -1
        r = If(pos == p, IntVal(ri), r)
    return r
def last_pos_le(loc, hb):   # mo position of last write to loc with writer idx <= hb
    r = IntVal(0)
    for p in range(1, len(mo[loc])):
        r = If(mo[loc][p]['idx'] <= hb, IntVal(p), r)
    return r

# ---------------- reader events ----------------
rev = []
def radd(kind, loc=None, acq=False):
    e = dict(kind=kind, loc=loc, acq=acq, pos=len(rev))
    if kind == 'ld':
        e['rf'] = Int('rf_%d' % e['pos'])
        s.add(e['rf'] >= 0, e['rf'] < len(mo[loc]))
        e['val'] = val_at(loc, e['rf'])
    rev.append(e); return e

# reader local state: cached generation sg (the reader previously accepted publication 0 or is fresh)
sg = BitVec('sg', 16)
s.add(Or(sg == 0, sg == g0))
cache_tag = BitVecVal(0, 16)   # both cases: tag 0 ("initial/previous")

a1 = radd('ld', 'gen', acq=True)
iters = []
for it in range(R):
    ds = [radd('ld', 'd%d' % i) for i in range(W)]
    if RF: radd('facq')
    a2 = radd('ld', 'gen', acq=True)
    iters.append((ds, a2))

# hb bound for each reader position m: max over reads r with acquire position < m of relidx(rf(r))
def acq_pos(e):
    if e['acq']: return e['pos']
    f = [x['pos'] for x in rev if x['kind'] == 'facq' and x['pos'] > e['pos']]
    return min(f) if f else None
HB = []
for m in range(len(rev)):
    h = IntVal(-1)
    for r in rev:
        if r['kind'] != 'ld': continue
        ap = acq_pos(r)
        if ap is not None and ap < m:
            ri = relidx_at(r['loc'], r['rf'])
            h = If(ri > h, ri, h)
    HB.append(h)
for r in rev:
    if r['kind'] != 'ld': continue
    s.add(r['rf'] >= last_pos_le(r['loc'], HB[r['pos']]))          # CoWR
    for r2 in rev:
        if r2['kind'] == 'ld' and r2['loc'] == r['loc'] and r2['pos'] > r['pos']:
            s.add(r2['rf'] >= r['rf'])                               # CoRR

# ---------------- reader control flow (hand-transcribed from snapshot()) ----------------
first = a1['val']
early = Or(first == 0, first == sg, first & 1 == 1)
accepted = BoolVal(False); result = None
bad = BoolVal(False)
cur_first = first
done = early
for (ds, a2) in iters:
    second = a2['val']
    acc = And(Not(done), cur_first == second)
    tags = [d['val'] for d in ds]
    mixed = Or([tags[i] != tags[0] for i in range(1, W)]) if W > 1 else BoolVal(False)
    # a complete record k must additionally be a *completed* publication: fine, tag identifies it
    bad = Or(bad, And(acc, mixed))
    done = Or(done, acc)
    cur_first = If(And(Not(done), second & 1 == 0), second, cur_first)
s.add(bad)
t = time.time(); r = s.check(); print('N=%d R=%d W=%d wfence=%s rfence=%s ->' % (N, R, W, WF, RF), r, round(time.time() - t, 2), 's')
if r == sat:
    m = s.model()
    print('  g0=', m[g0], 'sg=', m[sg])
    for e in rev:
        if e['kind'] == 'ld': print('  reader', e['pos'], e['loc'], 'rf=', m[e['rf']], 'val=', m.eval(e['val']))
        else: print('  reader', e['pos'], e['kind'])
