#[cfg(kani)]
mod h {
    fn powi_model(base: f64, n: i32) -> f64 {
        assert!(base == 2.0 && n > -1000 && n < 1000);
        f64::from_bits(((1023 + n) as u64) << 52)
    }
    #[kani::proof]
    #[kani::stub(f64::powi, powi_model)]
    fn powi_probe() {
        let e: i32 = kani::any();
        kani::assume(e >= -89 && e <= 38);
        let c: i32 = kani::any();
        kani::assume(c > -(1<<24) && c < (1<<24));
        let x = (c as f64) * 2.0f64.powi(e);
        if e == 3 { assert!(x == (c as f64) * 8.0); }
        if e == -2 { assert!(x == (c as f64) * 0.25); }
    }
}
