#[cfg(kani)]
mod h {
    use clock_bound_shm::{ShmError, ShmReader};
    use std::ffi::CStr;

    extern "C" {
        #[link_name = "VERIF_FILE"]
        static mut FILE: [u8; 72];
        #[link_name = "VERIF_FLEN"]
        static mut FLEN: usize;
    }

    #[kani::proof]
    #[kani::unwind(80)]
    fn open_probe() {
        unsafe {
            FILE = kani::any();
            FLEN = kani::any();
            kani::assume(FLEN <= 72);
        }
        let path = CStr::from_bytes_with_nul(b"/x\0").unwrap();
        let r = ShmReader::new(path);
        let f = unsafe { FILE };
        let magic_ok = f[0] == 0x4E && f[1] == 0x5A && f[2] == 0x4D && f[3] == 0x41 && f[4] == 0 && f[5] == 2 && f[6] == 0x42 && f[7] == 0x43;
        let segsize = u32::from_ne_bytes([f[8], f[9], f[10], f[11]]);
        let ver = u16::from_ne_bytes([f[12], f[13]]);
        let gen = u16::from_ne_bytes([f[14], f[15]]);
        let flen = unsafe { FLEN };
        match &r {
            Ok(_) => {
                assert!(flen >= 16 && magic_ok && ver != 0 && gen != 0 && segsize >= 72);
            }
            Err(ShmError::SegmentNotInitialized) => {
                assert!(flen < 16 || !magic_ok || ver == 0 || gen == 0);
            }
            Err(ShmError::SegmentMalformed) => {
                assert!(segsize < 72);
            }
            Err(_) => {
                assert!(false);
            }
        }
        std::mem::forget(r);
    }
}
