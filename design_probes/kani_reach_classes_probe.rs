#[cfg(kani)]
mod h {
    use clock_bound_d::verif::*;
    use clock_bound_d::ChronyClockStatus;
    use chrony_candm::common::{ChronyAddr, ChronyFloat};
    use chrony_candm::reply::Tracking;
    use std::time::{Duration, SystemTime};
    fn powi_model(base: f64, n: i32) -> f64 {
        assert!(base == 2.0 && n > -1000 && n < 1000);
        f64::from_bits(((1023 + n) as u64) << 52)
    }
    static mut NOW_S: u64 = 0;
    static mut NOW_N: u32 = 0;
    fn stub_now() -> SystemTime { unsafe { SystemTime::UNIX_EPOCH + Duration::new(NOW_S, NOW_N) } }
    fn cf(bits: u32) -> ChronyFloat { unsafe { std::mem::transmute::<u32, ChronyFloat>(bits) } }

    // Which outcome classes of the real function can Kani reach at all? (vacuity map for C08/C09)
    #[kani::proof]
    #[kani::stub(std::time::SystemTime::now, stub_now)]
    #[kani::stub(f64::powi, powi_model)]
    #[kani::unwind(4)]
    fn reach_classes() {
        unsafe { NOW_S = kani::any(); NOW_N = kani::any(); kani::assume(NOW_S < (1u64<<33) && NOW_N < 1_000_000_000); }
        let rs: u64 = kani::any(); let rn: u32 = kani::any();
        kani::assume(rs < (1u64 << 33) && rn < 1_000_000_000);
        let leap: u16 = kani::any();
        let t = Tracking {
            ref_id: 0, ip_addr: ChronyAddr::default(), stratum: 1, leap_status: leap,
            ref_time: SystemTime::UNIX_EPOCH + Duration::new(rs, rn),
            current_correction: cf(0), last_offset: cf(0), rms_offset: cf(0), freq_ppm: cf(0), resid_freq_ppm: cf(0), skew_ppm: cf(0),
            root_delay: cf(0), root_dispersion: cf(0), last_update_interval: cf(kani::any()),
        };
        let (_b, st) = extract_bound(t);
        kani::cover!(st == ChronyClockStatus::Synchronized && leap <= 2, "sync reachable");
        kani::cover!(st == ChronyClockStatus::FreeRunning && leap == 3, "free via leap 3");
        kani::cover!(st == ChronyClockStatus::FreeRunning && leap <= 2, "free via staleness");
        kani::cover!(st == ChronyClockStatus::Unknown && leap > 3, "unknown via leap");
        kani::cover!(st == ChronyClockStatus::Unknown && leap <= 2, "unknown via future ref time");
    }
}
