//! empty verification shim
