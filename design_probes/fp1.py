import sys, time
from z3 import *
NSBITS = int(sys.argv[1]); DR = sys.argv[2]
ns = BitVec('ns', 64); d = BitVec('d', 32)
s = SolverFor('QF_FPBV') if False else Solver()
s.set('timeout', int(sys.argv[3])*1000)
s.add(ULT(ns, BitVecVal(1<<NSBITS, 64)))
if DR == 'sym':
    s.add(ULT(d, BitVecVal(10**9, 32)))
else:
    s.add(d == int(DR))
F = Float64()
x = fpSignedToFP(RNE(), ns, F)
q = fpDiv(RNE(), x, FPVal(1e9, F))
df = fpUnsignedToFP(RNE(), d, F)
p = fpMul(RNE(), q, df)
g = fpToSBV(RTZ(), p, BitVecSort(64))
W=128
g_ = SignExt(W-64, g); ns_ = ZeroExt(W-64, ns); d_ = ZeroExt(W-32, d)
prod = ns_ * d_
E9 = BitVecVal(10**9, W)
ok = And((g_ + 2) * E9 > prod, (g_ - 1) * E9 <= prod)
s.add(Not(ok))
t=time.time(); r = s.check(); print(NSBITS, DR, r, round(time.time()-t,1))
if r == sat: print(s.model())
