#[cfg(kani)]
mod h {
    use clock_bound_d::verif::*;
    use clock_bound_d::ChronyClockStatus;
    use clock_bound_shm::{ClockErrorBound, ShmWrite, ClockStatus};
    use chrony_candm::common::{ChronyAddr, ChronyFloat};
    use chrony_candm::reply::Tracking;
    use std::time::{Duration, SystemTime};

    struct Sink { n: u32, last: Option<ClockErrorBound> }
    impl ShmWrite for Sink { fn write(&mut self, ceb: &ClockErrorBound) { self.n += 1; self.last = Some(*ceb); } }

    fn powi_model(base: f64, n: i32) -> f64 {
        assert!(base == 2.0 && n > -1000 && n < 1000);
        f64::from_bits(((1023 + n) as u64) << 52)
    }
    static mut NOW_S: u64 = 0;
    static mut NOW_N: u32 = 0;
    fn stub_now() -> SystemTime { unsafe { SystemTime::UNIX_EPOCH + Duration::new(NOW_S, NOW_N) } }
    fn cf(bits: u32) -> ChronyFloat { unsafe { std::mem::transmute::<u32, ChronyFloat>(bits) } }

    fn any_tracking() -> Tracking {
        let s: u64 = kani::any();
        let n: u32 = kani::any();
        kani::assume(s < (1u64 << 33) && n < 1_000_000_000);
        Tracking {
            ref_id: kani::any(), ip_addr: ChronyAddr::default(), stratum: kani::any(),
            leap_status: kani::any(),
            ref_time: SystemTime::UNIX_EPOCH + Duration::new(s, n),
            current_correction: cf(0), last_offset: cf(0), rms_offset: cf(0), freq_ppm: cf(0), resid_freq_ppm: cf(0), skew_ppm: cf(0),
            root_delay: cf(0), root_dispersion: cf(0),
            last_update_interval: cf(kani::any()),
        }
    }
    fn ceb_eq(c: &ClockErrorBound, as_of: libc::timespec, bound: i64, drift: u32, st: ClockStatus) -> bool {
        let e = ClockErrorBound::new(as_of, libc::timespec{tv_sec: as_of.tv_sec + 1000, tv_nsec: 0}, bound, drift, 0, st);
        *c == e
    }

    #[kani::proof]
    #[kani::stub(std::time::SystemTime::now, stub_now)]
    #[kani::stub(f64::powi, powi_model)]
    #[kani::unwind(4)]
    fn hist3() {
        let drift: u32 = kani::any();
        let mut up = Updater::new(Sink { n: 0, last: None }, drift);
        // reference model
        let mut m_bound: i64 = 0; let mut m_asof = libc::timespec{tv_sec:0,tv_nsec:0}; let mut seen = false;
        let mut k = 0;
        while k < 3 {
            unsafe { NOW_S = kani::any(); NOW_N = kani::any(); kani::assume(NOW_S < (1u64<<33) && NOW_N < 1_000_000_000); }
            let kind: u8 = kani::any(); kani::assume(kind < 3);
            let expect: ClockStatus;
            if kind == 0 {
                let t = any_tracking();
                let as_of = libc::timespec { tv_sec: kani::any(), tv_nsec: kani::any() };
                kani::assume(as_of.tv_sec >= 0 && as_of.tv_sec < (1 << 40) && as_of.tv_nsec >= 0 && as_of.tv_nsec < 1_000_000_000);
                let phc: i64 = kani::any(); kani::assume(phc >= 0 && phc < (1<<40));
                let (eb, est) = extract_bound(t);
                up.clock_update(t, phc, as_of);
                if est == ChronyClockStatus::Synchronized { m_bound = eb + phc; m_asof = as_of; seen = true; }
                expect = match est { ChronyClockStatus::Synchronized => ClockStatus::Synchronized, ChronyClockStatus::FreeRunning => ClockStatus::FreeRunning, ChronyClockStatus::Unknown => ClockStatus::Unknown };
            } else {
                let grace = kind == 1;
                up.missing(grace);
                expect = if grace { ClockStatus::FreeRunning } else { ClockStatus::Unknown };
            }
            assert!(up.writer().n == k + 1);
            let c = up.writer().last.unwrap();
            if seen {
                assert!(ceb_eq(&c, m_asof, m_bound, drift, expect));
            } else {
                // C09: no trust before first measurement
                assert!(ceb_eq(&c, m_asof, m_bound, drift, ClockStatus::Unknown));
            }
            k += 1;
        }
    }
}
