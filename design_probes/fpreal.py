import time
from z3 import *
u = Q(1, 2**53)
ns, d = Reals('ns d')
x, q, p, g = Reals('x q p g')
s = Solver(); s.set('timeout', 120000)
s.add(ns >= 0, ns <= 2**62, d >= 0, d < 10**9)
def fl(y, e):  # y = fl(e), e >= 0
    return And(y >= e*(1-u), y <= e*(1+u))
s.add(fl(x, ns), Implies(ns <= 2**53, x == ns))
s.add(fl(q, x/10**9))
s.add(fl(p, q*d))
s.add(g <= p, g > p-1)   # g = floor(p) relaxed to reals
r = ns*d/10**9
tol = r*Q(1, 2**50)
ok = And(g > r - 1 - tol, g <= r + tol)
s.add(Not(ok))
t=time.time(); print(s.check(), round(time.time()-t,2))
