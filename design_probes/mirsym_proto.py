#!/usr/bin/env python3
"""Design-phase prototype (NOT the framework): minimal MIR -> z3 symbolic executor.
Goal: show that compute_bound_at (clock-bound-shm) + its nix::TimeSpec callees can be executed
symbolically from the nightly MIR dump with Int/Real theories, and that C05/C06/C14-style queries
are decided in seconds over the full input range."""
import re, sys, time
from z3 import *

# ----------------------------------------------------------------------------- parsing

def strip_generics(s):
    out=''; i=0
    while i < len(s):
        if s.startswith('::<', i):
            d=0; j=i+2
            while j < len(s):
                if s[j]=='<': d+=1
                elif s[j]=='>' and s[j-1] != '-':
                    d-=1
                    if d==0: break
                j+=1
            i=j+1; continue
        out+=s[i]; i+=1
    return out

class Fn:
    def __init__(self, name, params, ret, kind):
        self.name, self.params, self.ret, self.kind = name, params, ret, kind
        self.ltypes, self.blocks = {}, {}

HDR = re.compile(r'^(fn|const|static) (.+?)(?:\((.*)\))?(?: -> (.+?))?(?:: (.+?))? (?:= )?\{$')

def split_top(s, sep=','):
    out, depth, cur = [], 0, ''
    i = 0
    instr = False
    while i < len(s):
        c = s[i]
        if c == '"': instr = not instr
        if not instr:
            if c in '([{<': depth += 1
            elif c in ')]}>':
                if not (c == '>' and i > 0 and s[i-1] == '-'): depth -= 1
            elif c == sep and depth == 0:
                out.append(cur.strip()); cur = ''; i += 1; continue
        cur += c; i += 1
    if cur.strip(): out.append(cur.strip())
    return out

def parse_file(path, fns):
    cur = None; blk = None; seen_ctfe = False
    for line in open(path):
        line = line.rstrip('\n')
        if line.startswith('// MIR FOR CTFE'):
            seen_ctfe = True; continue
        if cur is None:
            mm = re.match(r'^const (.+): ([^=]+) = const (.+);$', line)
            if mm:
                f = Fn(mm.group(1), [], mm.group(2), 'constval'); f.val = mm.group(3); fns.setdefault(f.name, f); continue
            m = None
            if (line.startswith('fn ') or line.startswith('const ') or line.startswith('static ')) and line.endswith('{'):
                kind, rest = line.split(' ', 1)
                rest = rest[:-1].rstrip()
                if rest.endswith('='): rest = rest[:-1].rstrip()
                params = None; ret = None; name = rest
                if kind == 'fn':
                    depth = 0; i0 = None
                    for i, c in enumerate(rest):
                        if c == '<': depth += 1
                        elif c == '>' and rest[i-1] != '-': depth -= 1
                        elif c == '(' and depth == 0: i0 = i; break
                    if i0 is None: continue
                    d = 0
                    for j in range(i0, len(rest)):
                        if rest[j] in '([': d += 1
                        elif rest[j] in ')]':
                            d -= 1
                            if d == 0: break
                    name = rest[:i0]; params = rest[i0+1:j]; tail = rest[j+1:].strip()
                    ret = tail[3:].strip() if tail.startswith('->') else None
                else:
                    # const NAME: TYPE   (name may contain "<impl at a:b:c: d:e>")
                    k = rest.rfind(': ')
                    name, ret = rest[:k], rest[k+2:]
                m = True
            if m:
                f = Fn(name, [], ret, kind)
                if params:
                    for p in split_top(params):
                        pm = re.match(r'(_\d+): (.+)', p)
                        if pm: f.params.append(pm.group(1)); f.ltypes[pm.group(1)] = pm.group(2)
                cur = f
                cur.skip = seen_ctfe; seen_ctfe = False
            continue
        if line == '}':
            if not cur.skip: fns.setdefault(cur.name, cur)
            cur = None; blk = None; continue
        s = line.strip()
        m = re.match(r'let (?:mut )?(_\d+): (.+);$', s)
        if m and blk is None: cur.ltypes[m.group(1)] = m.group(2); continue
        m = re.match(r'(bb\d+)(?: \(cleanup\))?: \{$', s)
        if m: blk = []; cur.blocks[m.group(1)] = blk; continue
        if s == '}' : blk = None if blk is not None else None; continue
        if blk is not None and s and not s.startswith('//'):
            blk.append(s.rstrip(';'))

# ----------------------------------------------------------------------------- values
class Struct:  # also tuples, newtypes
    def __init__(self, fields): self.f = list(fields)
    def __repr__(self): return 'S%r' % (self.f,)
class Enum:
    def __init__(self, discr, payload=None): self.d = discr; self.p = payload or {}
    def __repr__(self): return 'E(%r,%r)' % (self.d, self.p)
class Ref:
    def __init__(self, frame, local, path): self.frame, self.local, self.path = frame, local, path
class FPV:
    def __init__(self, num, den, k): self.num, self.den, self.k = num, den, k
MUL = Function('MUL', IntSort(), IntSort(), IntSort())
class Panic(Exception):
    pass

def ite(c, a, b):
    if a is b: return a
    if isinstance(a, Struct):
        return Struct([ite(c, x, y) for x, y in zip(a.f, b.f)])
    if isinstance(a, Enum):
        keys = set(a.p) | set(b.p)
        pl = {}
        for k in keys:
            if k in a.p and k in b.p: pl[k] = ite(c, a.p[k], b.p[k])
            else: pl[k] = a.p.get(k, b.p.get(k))
        return Enum(If(c, a.d, b.d) if not (isinstance(a.d, int) and isinstance(b.d, int) and a.d == b.d) else a.d, pl)
    if isinstance(a, Ref): return a  # prototype: refs never merged differently
    if a is None or b is None: return a if b is None else b
    return If(c, a, b)

ENUMS = {  # variant name -> (discriminant, nfields); declaration order (prototype: hard-coded)
    'Ok': 0, 'Err': 1, 'None': 0, 'Some': 1, 'Continue': 0, 'Break': 1,
    'ShmError::SyscallError': 0, 'ShmError::SegmentNotInitialized': 1, 'ShmError::SegmentMalformed': 2, 'ShmError::CausalityBreach': 3,
    'ClockStatus::Unknown': 0, 'ClockStatus::Synchronized': 1, 'ClockStatus::FreeRunning': 2,
    'Less': -1, 'Equal': 0, 'Greater': 1,
}
INTTY = {'i8': (-2**7, 2**7-1), 'i16': (-2**15, 2**15-1), 'i32': (-2**31, 2**31-1), 'i64': (-2**63, 2**63-1), 'isize': (-2**63, 2**63-1),
         'u8': (0, 2**8-1), 'u16': (0, 2**16-1), 'u32': (0, 2**32-1), 'u64': (0, 2**64-1), 'usize': (0, 2**64-1)}
U = Q(1, 2**53)
fresh_n = [0]
def fresh(prefix, sort=RealSort()):
    fresh_n[0] += 1
    return Const('%s!%d' % (prefix, fresh_n[0]), sort)

class Exec:
    def __init__(self, fns):
        self.fns = fns; self.side = []   # side constraints (axioms about fresh float vars)
        self.obligations = []            # (pathcond, description) that must be unsat (panics)
        self.frames = {}; self.fid = 0
        self.calls = 0

    # -------- function lookup by suffix + arity
    def lookup(self, callee, nargs):
        short_ty = lambda t: re.sub(r'<.*>', '', t.replace('&mut ', '').replace('&', '').strip()).split('::')[-1]
        m = re.match(r'<(.+?) as (.+)>::(\w+)$', callee)
        cands = []
        if m:
            ty, tr, meth = m.groups(); ty = short_ty(ty)
            targ = re.match(r'\w+<(.+)>$', tr.split('::')[-1])
            targ = short_ty(targ.group(1)) if targ else None
            for f in self.fns.values():
                if f.kind == 'fn' and f.name.endswith('>::' + meth) and (nargs is None or len(f.params) == nargs):
                    t0 = short_ty(f.ltypes[f.params[0]]); r0 = short_ty(f.ret or '')
                    if tr.startswith('From') or tr.startswith('Into'):
                        if tr.startswith('From') and r0 == ty and t0 == targ: cands.append(f)
                        if tr.startswith('Into') and t0 == ty and r0 == targ: cands.append(f)
                    elif t0 == ty or r0 == ty: cands.append(f)
        else:
            name = strip_generics(callee)
            short = name.split('::')[-1]
            tyq = name.split('::')[-2] if '::' in name else None
            for f in self.fns.values():
                if f.kind == 'fn' and (f.name == name or f.name.endswith('::' + short) or f.name == short) and (nargs is None or len(f.params) == nargs):
                    if tyq and f.name.endswith('>::' + short) and f.params:
                        t0 = short_ty(f.ltypes[f.params[0]]); r0 = short_ty(f.ret or '')
                        if tyq not in (t0, r0): continue
                    cands.append(f)
        return cands

    def const_named(self, name):
        short = name.split('::')[-1]
        pm = re.match(r'(.+)::(promoted\[\d+\])$', name)
        if pm:
            cands = self.lookup(pm.group(1), None)
            for c in cands:
                f = self.fns.get(c.name + '::' + pm.group(2))
                if f: return self.run(f, [], BoolVal(True))
            return None
        for f in self.fns.values():
            if f.kind == 'constval' and (f.name == name or f.name.endswith('::' + short) or f.name == short):
                return [(BoolVal(True), self.const(f.val, None))]
        for f in self.fns.values():
            if f.kind == 'const' and (f.name == name or f.name.endswith('::' + short) or f.name == short or f.name.endswith(name)):
                m = re.match(r'const (.+)$', f.ret or '')
                if not f.blocks:
                    return None
                outs = self.run(f, [], BoolVal(True))
                return outs
        return None

    # -------- operands / places
    def parse_place(self, s):
        s = s.strip()
        if re.fullmatch(r'_\d+', s): return (s, [])
        if s.startswith('(*') and s.endswith(')'):
            b, p = self.parse_place(s[2:-1]); return (b, p + ['*'])
        if s.startswith('(') and s.endswith(')'):
            inner = s[1:-1]
            m = re.match(r'(.+) as (\w+)$', inner)
            if m and not re.search(r'\.\d+: ', inner.split(' as ')[-1]):
                b, p = self.parse_place(m.group(1)); return (b, p + [('as', m.group(2))])
            # field: find last ".N: type" at depth 0
            depth = 0
            for i in range(len(inner)):
                c = inner[i]
                if c in '([{': depth += 1
                elif c in ')]}': depth -= 1
                elif c == '.' and depth == 0:
                    m2 = re.match(r'\.(\d+): ', inner[i:])
                    if m2:
                        b, p = self.parse_place(inner[:i]); return (b, p + [int(m2.group(1))])
        raise Exception('place? ' + s)

    def load(self, fr, place):
        b, path = place
        v = self.frames[fr][b]
        return self.proj(v, path)
    def proj(self, v, path):
        for st in path:
            if st == '*':
                assert isinstance(v, Ref), v
                v = self.proj(self.frames[v.frame][v.local], v.path)
            elif isinstance(st, tuple):
                v = v.p[st[1]]
            else:
                v = v.f[st]
        return v
    def store(self, fr, place, val):
        b, path = place
        # resolve derefs to a (frame, local, path)
        f, l, p = fr, b, []
        for st in path:
            if st == '*':
                r = self.proj(self.frames[f][l], p); f, l, p = r.frame, r.local, list(r.path)
            else: p.append(st)
        if not p: self.frames[f][l] = val; return
        self.frames[f][l] = self.upd(self.frames[f].get(l), p, val)
    def upd(self, v, p, val):
        if not p: return val
        st = p[0]
        if isinstance(st, tuple):
            pl = dict(v.p); pl[st[1]] = self.upd(v.p.get(st[1]), p[1:], val); return Enum(v.d, pl)
        if v is None: v = Struct([None] * (st + 1))
        f = list(v.f) + [None] * (st + 1 - len(v.f)); f[st] = self.upd(f[st], p[1:], val); return Struct(f)

    def const(self, s, fr):
        s = s.strip()
        m = re.fullmatch(r'(-?\d+)_(i8|i16|i32|i64|isize|u8|u16|u32|u64|usize)', s)
        if m: return IntVal(int(m.group(1)))
        m = re.fullmatch(r'(-?[\d.]+(?:E[+-]?\d+)?)f64', s)
        if m: return RealVal(m.group(1).replace('E+', 'e').replace('E', 'e')) if 'E' not in m.group(1) else RealVal(str(int(float(m.group(1)))))
        if s == 'true': return BoolVal(True)
        if s == 'false': return BoolVal(False)
        if s in ('i64::MAX','core::num::<impl i64>::MAX'): return IntVal(2**63-1)
        if s == 'core::num::<impl i64>::MIN': return IntVal(-2**63)
        if s == 'i64::MIN': return IntVal(-2**63)
        if s.startswith('"'): return None
        outs = self.const_named(s)
        if outs is None: raise Exception('const? ' + s)
        (pc, v), = [(p, v) for p, v in outs]
        return v

    def operand(self, s, fr):
        s = s.strip()
        if s.startswith('copy ') or s.startswith('move '): return self.load(fr, self.parse_place(s[5:]))
        if s.startswith('const '): return self.const(s[6:], fr)
        raise Exception('operand? ' + s)

    # -------- rvalues
    def rvalue(self, s, fr, fn, dest_ty):
        s = s.strip()
        m = re.match(r'(\w+)\((.*)\)$', s)
        BIN = {'Add','Sub','Mul','Div','Rem','Eq','Ne','Lt','Le','Gt','Ge','BitAnd','BitOr','AddWithOverflow','SubWithOverflow','MulWithOverflow'}
        if m and m.group(1) in BIN:
            a, b = [self.operand(x, fr) for x in split_top(m.group(2))]
            op = m.group(1)
            if isinstance(a, FPV) or isinstance(b, FPV):
                cst = lambda x: int(float(str(x.as_decimal(20)).rstrip('?'))) if is_expr(x) else None
                if op == 'Div' and not isinstance(b, FPV): return FPV(a.num, a.den * cst(b), a.k + 1)
                if op == 'Mul' and isinstance(a, FPV) and isinstance(b, FPV): return FPV(a.num + b.num, a.den * b.den, a.k + b.k + 1)
                raise Exception('fp op ' + s)
            if op in ('AddWithOverflow','SubWithOverflow','MulWithOverflow'):
                r = {'A': a + b, 'S': a - b, 'M': a * b}[op[0]]
                lo, hi = INTTY[re.match(r'\((\w+), bool\)', dest_ty).group(1)]
                return Struct([r, Or(r < lo, r > hi)])
            if op == 'Add': return a + b
            if op == 'Sub': return a - b
            if op == 'Mul': return a * b
            if op == 'Div': return If(a >= 0, a / b, -((-a) / b)) if True else None   # b>0 const in our use (trunc toward zero)
            if op == 'Rem': return a - b * If(a >= 0, a / b, -((-a) / b))
            if op == 'Eq': return a == b
            if op == 'Ne': return a != b
            if op == 'Lt': return a < b
            if op == 'Le': return a <= b
            if op == 'Gt': return a > b
            if op == 'Ge': return a >= b
            if op == 'BitAnd' and is_bool(a): return And(a, b)
            if op == 'BitOr' and is_bool(a): return Or(a, b)
            raise Exception('binop ' + s)
        if m and m.group(1) == 'Not': return Not(self.operand(m.group(2), fr))
        if m and m.group(1) == 'Neg': return -self.operand(m.group(2), fr)
        if m and m.group(1) == 'discriminant':
            v = self.load(fr, self.parse_place(m.group(2))); return v.d if not isinstance(v.d, int) else IntVal(v.d)
        m2 = re.match(r'(.+) as (\S+) \((\w+)\)$', s)
        if m2:
            v = self.operand(m2.group(1), fr); ty, kind = m2.group(2), m2.group(3)
            if kind == 'IntToFloat':
                return FPV([v], 1, 1)
            if kind == 'FloatToInt':
                lo, hi = INTTY[ty]
                assert isinstance(v, FPV) and len(v.num) <= 2
                if len(v.num) == 1: P = v.num[0]
                else:
                    a_, b_ = v.num; P = MUL(a_, b_)
                    self.side.append(Implies(And(a_ >= 0, b_ >= 0), P >= 0))
                    for K in (10**9 - 1, 2**32 - 1):
                        self.side.append(Implies(And(a_ >= 0, b_ >= 0, b_ <= K), P <= a_ * K))
                    self.side.append(Implies(Or(a_ == 0, b_ == 0), P == 0))
                g = fresh('f2i', IntSort())
                eps = Q(v.k + 1, 2**52)
                E = 2**52; kk = v.k + 1
                self.side.append(Implies(P >= 0, And(g >= 0, g * v.den * E <= P * (E + kk), g * v.den * E > P * (E - kk) - v.den * E)))
                self.fp_islands = getattr(self, 'fp_islands', []) + [(v, P, g)]
                return If(g > hi, hi, If(g < lo, lo, g))
            if kind == 'IntToInt': return v
            if kind == 'Transmute' and 'timespec' in ty: return Struct([IntVal(0), IntVal(0)])
            raise Exception('cast ' + s)
        if s.startswith('&raw ') : raise Exception('raw ' + s)
        if s.startswith('&'):
            pl = self.parse_place(s.replace('&mut ', '').replace('&', '', 1).strip())
            b, path = pl
            if '*' in path:
                # reborrow: resolve
                f, l, p = fr, b, []
                for st in path:
                    if st == '*':
                        r = self.proj(self.frames[f][l], p); f, l, p = r.frame, r.local, list(r.path)
                    else: p.append(st)
                return Ref(f, l, p)
            return Ref(fr, b, path)
        if s.startswith('[') and '; ' in s: return ('array', s)
        if s.startswith('(') and not s.startswith('(*') and not re.match(r'\(.+\.\d+: ', s) and not s.startswith('(_'):
            return Struct([self.operand(x, fr) for x in split_top(s[1:-1])])
        if s.startswith('copy ') or s.startswith('move ') or s.startswith('const '): return self.operand(s, fr)
        # aggregates: Variant(args) / Path::Variant / Struct(args)
        s2 = strip_generics(s)
        name = s2.split('(')[0].strip()
        args = []
        if '(' in s2: args = [self.operand(x, fr) for x in split_top(s2[s2.index('(')+1:-1])]
        short = name.split('::')[-1]
        key = '::'.join(name.split('::')[-2:])
        if key in ENUMS: return Enum(ENUMS[key], {short: Struct(args)})
        if short in ENUMS: return Enum(ENUMS[short], {short: Struct(args)})
        if short in ('TimeSpec',): return Struct(args)
        raise Exception('rvalue? ' + s)

    # -------- builtins
    def builtin(self, callee, args, fr):
        c = strip_generics(callee)
        if c.endswith('RangeInclusive::new'): return Struct(args)
        if c.endswith('RangeInclusive::contains'):
            r = self.deref(args[0]); x = self.deref(args[1]); return And(r.f[0] <= x, x <= r.f[1])
        if c == '<i64 as Ord>::cmp':
            a, b = self.deref(args[0]), self.deref(args[1]); return Enum(If(a < b, -1, If(a == b, 0, 1)), {})
        m = re.match(r'<(\w+) as PartialOrd>::(lt|le|gt|ge)$', c)
        if m:
            cands = self.lookup('<%s as PartialOrd>::partial_cmp' % m.group(1), 2)
            (pc, v), = self.run(cands[0], args, BoolVal(True))
            o = v.p['Some'].f[0].d
            return {'lt': o == -1, 'le': o != 1, 'gt': o == 1, 'ge': o != -1}[m.group(2)]
        if c.endswith('begin_panic') or c.endswith('panic_fmt') or c.endswith('::panic'): raise Panic(c)
        return NotImplemented
    def deref(self, r):
        return self.proj(self.frames[r.frame][r.local], r.path) if isinstance(r, Ref) else r

    # -------- run a function: returns list of (pathcond, retval); panics recorded as obligations
    def run(self, fn, args, pc0):
        self.fid += 1; fr = self.fid
        self.frames[fr] = {p: a for p, a in zip(fn.params, args)}
        outs = []
        work = [('bb0', pc0, dict(self.frames[fr]))]
        steps = 0
        while work:
            bb, pc, locs = work.pop()
            self.frames[fr] = locs
            while True:
                steps += 1
                stmts = fn.blocks[bb]
                for s in stmts[:-1]:
                    self.stmt(s, fr, fn)
                t = stmts[-1]
                if t == 'return':
                    outs.append((pc, self.frames[fr].get('_0'))); break
                if t == 'unreachable': break
                m = re.match(r'goto -> (bb\d+)$', t)
                if m: bb = m.group(1); continue
                m = re.match(r'switchInt\((.+)\) -> \[(.+)\]$', t)
                if m:
                    v = self.operand(m.group(1), fr)
                    arms = [a.split(': ') for a in m.group(2).split(', ')]
                    taken = []
                    rest = BoolVal(True)
                    for val, tgt in arms:
                        if val == 'otherwise': cond = rest
                        else:
                            k = int(val)
                            cond = (v if k else Not(v)) if is_bool(v) else (v == k)
                            rest = And(rest, Not(cond))
                        cond = simplify(cond)
                        if is_false(cond): continue
                        taken.append((tgt, cond))
                    for tgt, cond in taken[1:]:
                        work.append((tgt, And(pc, cond), dict(self.frames[fr])))
                    bb, c0 = taken[0]; pc = And(pc, c0); continue
                m = re.match(r'assert\((!?)(.+?), "(.*?)"(?:, .*)?\) -> \[success: (bb\d+).*\]$', t)
                if m:
                    v = self.operand(m.group(2), fr)
                    good = Not(v) if m.group(1) else v
                    self.obligations.append((And(pc, Not(good)), '%s: %s' % (fn.name.split('>::')[-1], m.group(3))))
                    pc = And(pc, good); bb = m.group(4); continue
                m = re.match(r'drop\(.+\) -> \[return: (bb\d+).*\]$', t)
                if m: bb = m.group(1); continue
                m = re.match(r'(.+?) = (.+?)\((.*)\) -> (?:\[return: (bb\d+).*\]|.*)$', t)
                if m:
                    dest, callee, argstr, nxt = m.groups()
                    argv = [self.operand(a, fr) for a in split_top(argstr)] if argstr.strip() else []
                    try:
                        r = self.call(callee, argv, fr, pc)
                    except Panic as e:
                        self.obligations.append((pc, '%s: panic %s' % (fn.name.split('>::')[-1], e))); break
                    if nxt is None: break
                    self.store(fr, self.parse_place(dest), r); bb = nxt; continue
                raise Exception('terminator? ' + t)
        # merge
        return outs

    def call(self, callee, argv, fr, pc):
        self.calls += 1
        r = self.builtin(callee, argv, fr)
        if r is not NotImplemented: return r
        cands = self.lookup(callee, len(argv))
        if len(cands) != 1: raise Exception('lookup %s -> %d candidates %s' % (callee, len(cands), [c.name[-40:] for c in cands][:4]))
        outs = self.run(cands[0], argv, pc)
        if not outs: raise Panic('all paths of %s diverge' % callee)
        # ite-merge return values (callee is pure in this prototype)
        pcs = [o[0] for o in outs]
        v = outs[-1][1]
        for p, x in reversed(outs[:-1]): v = ite(p, x, v)
        return v

    def stmt(self, s, fr, fn):
        if s.startswith('StorageLive') or s.startswith('StorageDead') or s == 'nop' or s.startswith('ConstEvalCounter') or s.startswith('FakeRead') or s.startswith('PlaceMention') or s.startswith('Retag') or s.startswith('AscribeUserType'): return
        m = re.match(r'(.+?) = (.+)$', s)
        if not m: raise Exception('stmt? ' + s)
        dest = self.parse_place(m.group(1))
        dty = fn.ltypes.get(dest[0], '') if not dest[1] else ''
        self.store(fr, dest, self.rvalue(m.group(2), fr, fn, dty))

# ----------------------------------------------------------------------------- driver
def main():
    fns = {}
    t0 = time.time()
    parse_file('/tmp/probe/mir/shm.mir', fns); parse_file('/tmp/probe/mir/nix.mir', fns)
    print('parsed %d bodies in %.1fs' % (len(fns), time.time() - t0))
    ex = Exec(fns)
    cba = [f for f in fns.values() if f.name.endswith('::compute_bound_at')][0]
    I = lambda n: Int(n)
    as_s, as_n, va_s, va_n, bnd, dr, st = I('as_s'), I('as_n'), I('va_s'), I('va_n'), I('bound'), I('drift'), I('st')
    re_s, re_n, mo_s, mo_n = I('re_s'), I('re_n'), I('mo_s'), I('mo_n')
    ceb = Struct([Struct([as_s, as_n]), Struct([va_s, va_n]), bnd, dr, IntVal(0), Enum(st, {})])
    ex.frames[0] = {'ceb': ceb}
    Y = 68 * 366 * 86400
    dom = [And(x >= -Y, x <= Y) for x in (as_s, va_s, re_s, mo_s)] + [And(x >= 0, x < 10**9) for x in (as_n, va_n, re_n, mo_n)] + \
          [bnd >= 0, bnd < 2**60, dr >= 0, dr < 2**32, st >= 0, st <= 2]
    t0 = time.time()
    outs = ex.run(cba, [Ref(0, 'ceb', []), Struct([re_s, re_n]), Struct([mo_s, mo_n])], BoolVal(True))
    print('symbolic execution: %d return paths, %d panic/overflow obligations, %d calls, %.1fs' % (len(outs), len(ex.obligations), ex.calls, time.time() - t0))
    s = Solver(); s.set('timeout', 60000)
    s.add(dom); s.add(ex.side)
    # --- C14: no panic / overflow in the domain
    t0 = time.time(); bad = 0
    for pc, d in ex.obligations:
        s.push(); s.add(pc); r = s.check(); s.pop()
        if r != unsat: bad += 1; print('  OBLIGATION', r, d)
    print('C14 no-panic obligations: %d checked, %d not unsat, %.1fs' % (len(ex.obligations), bad, time.time() - t0))
    # --- per return path properties
    ns = lambda ts: ts.f[0] * 10**9 + ts.f[1]
    real_ns = re_s * 10**9 + re_n; mono_ns = mo_s * 10**9 + mo_n; asof_ns = as_s * 10**9 + as_n; va_ns = va_s * 10**9 + va_n
    t0 = time.time(); q = 0
    for pc, rv in outs:
        s.push(); s.add(pc)
        isok = rv.d == 0 if not isinstance(rv.d, int) else BoolVal(rv.d == 0)
        if 'Ok' in rv.p:
            tup = rv.p['Ok'].f[0]; e, l, stt = tup.f[0], tup.f[1], tup.f[2]
            e = e.f[0] if len(e.f) == 1 else e; l = l.f[0] if len(l.f) == 1 else l
            hw = ns(l) - real_ns
            el = If(mono_ns >= asof_ns, mono_ns - asof_ns, 0)
            props = {
              'normalized': And(e.f[1] >= 0, e.f[1] < 10**9, l.f[1] >= 0, l.f[1] < 10**9),
              'symmetric': real_ns - ns(e) == hw,
              'ordered': ns(e) <= ns(l),
              'drift_ok': dr < 10**9,
              'growth_lo': (hw - bnd + 1) * 10**9 * 2**49 + MUL(el, dr) > MUL(el, dr) * 2**49,    # hw >= bound + r - 1 - eps
              'growth_hi': (hw - bnd) * 10**9 * 2**49 <= MUL(el, dr) * (2**49 + 1),
              'causal': mono_ns > asof_ns - 1000,
              'st_sync': Implies(stt.d == 1, And(st == 1, mono_ns < asof_ns + 5 * 10**9)),
              'st_free': Implies(stt.d == 2, And(st != 0, Or(mono_ns < va_ns, And(st == 2, mono_ns < asof_ns + 5 * 10**9)))),
              'st_unknown_passthrough': Implies(st == 0, stt.d == 0),
              'fresh_passthrough': Implies(mono_ns < asof_ns + 5 * 10**9, stt.d == st),
            }
            for k, p in props.items():
                s.push(); s.add(Not(p)); r = s.check(); q += 1
                if r != unsat: print('  path-prop', k, r, (s.model() if r == sat else ''))
                s.pop()
        else:
            err = rv.p['Err'].f[0].d
            p = Or(And(err == 2, dr >= 10**9), And(err == 3, mono_ns <= asof_ns - 1000, dr < 10**9))
            s.push(); s.add(Not(p)); r = s.check(); q += 1
            if r != unsat: print('  err-prop', r, s.model() if r == sat else '')
            s.pop()
        s.pop()
    print('path properties: %d queries, %.1fs' % (q, time.time() - t0))
    # reachability witnesses (vacuity)
    w = 0
    for pc, rv in outs:
        s.push(); s.add(pc)
        if s.check() == sat: w += 1
        s.pop()
    print('reachable return paths: %d of %d' % (w, len(outs)))

if __name__ == '__main__':
    main()
