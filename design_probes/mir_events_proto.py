#!/usr/bin/env python3
"""Design-phase prototype (NOT the framework): extract the shared-memory event lists of
ShmWrite::write and ShmReader::snapshot from the nightly MIR dump with the prototype executor.
Shows that engine W's input can be generated from the real code."""
import re, sys
from z3 import *
import mirsym_proto as M

class EvExec(M.Exec):
    def __init__(self, fns, R):
        super().__init__(fns); self.trace = []; self.R = R; self.nld = 0
    def rvalue(self, s, fr, fn, dest_ty):
        s = s.strip()
        if s.startswith('no_retag '): s = s[len('no_retag '):]
        if s.startswith('&(*') or s.startswith('&mut (*'):
            # reference to the pointee of a raw pointer that is a location tag
            inner = s[s.index('(*')+2:-1]
            try:
                v = self.load(fr, self.parse_place(inner))
                if isinstance(v, str): return v
            except Exception: pass
        if re.fullmatch(r'std::sync::atomic::Ordering::\w+', s): return s.split('::')[-1]
        m = re.match(r'BitAnd\((.+), const 1_u16\)$', s)
        if m: return self.operand(m.group(1), fr) % 2
        return super().rvalue(s, fr, fn, dest_ty)
    def builtin(self, callee, args, fr):
        c = M.strip_generics(callee)
        if c.endswith('Atomic::load'):
            self.nld += 1; v = Int('ld%d_%s' % (self.nld, args[0].split(':')[1]))
            self.trace.append(('LOAD', args[0], args[1], v)); return v
        if c.endswith('Atomic::store'):
            self.trace.append(('STORE', args[0], args[2], simplify(args[1]))); return M.Struct([])
        if c.endswith('::read_volatile'):
            self.nld += 1; v = M.Struct([Int('rec%d_w%d' % (self.nld, i)) for i in range(7)])
            self.trace.append(('READ_REC', args[0], v)); return v
        if c.endswith('mut_ptr::<impl *mut ClockErrorBound>::write') or c.endswith('::write') and isinstance(args[0], str):
            self.trace.append(('WRITE_REC', args[0], args[1])); return M.Struct([])
        if c.endswith('::fence'):
            self.trace.append(('FENCE', args[0])); return M.Struct([])
        if c.endswith('wrapping_add'):
            return (args[0] + args[1]) % 65536
        return super().builtin(callee, args, fr)
    def run(self, fn, args, pc0):
        # top-level variant: carries the event trace per path and bounds loop-head visits
        if getattr(self, '_nested', False): return super().run(fn, args, pc0)
        self._nested = True
        self.fid += 1; fr = self.fid
        self.frames[fr] = {p: a for p, a in zip(fn.params, args)}
        outs = []
        work = [('bb0', pc0, dict(self.frames[fr]), [], {}, dict(self.frames[0]))]
        while work:
            bb, pc, locs, trace, visits, heap = work.pop()
            self.frames[fr] = locs; self.trace = trace; self.frames[0] = heap
            while True:
                visits[bb] = visits.get(bb, 0) + 1
                if visits[bb] > self.R + 1: outs.append((pc, 'UNWOUND', list(self.trace), dict(self.frames[0]))); break
                stmts = fn.blocks[bb]
                for st in stmts[:-1]: self.stmt(st, fr, fn)
                t = stmts[-1]
                if t == 'return': outs.append((pc, self.frames[fr].get('_0'), list(self.trace), dict(self.frames[0]))); break
                m = re.match(r'goto -> (bb\d+)$', t)
                if m: bb = m.group(1); continue
                m = re.match(r'switchInt\((.+)\) -> \[(.+)\]$', t)
                if m:
                    v = self.operand(m.group(1), fr)
                    arms = [a.split(': ') for a in m.group(2).split(', ')]
                    taken = []; rest = BoolVal(True)
                    for val, tgt in arms:
                        if val == 'otherwise': cond = rest
                        else:
                            k = int(val); cond = (v if k else Not(v)) if is_bool(v) else (v == k); rest = And(rest, Not(cond))
                        cond = simplify(cond)
                        if is_false(cond): continue
                        taken.append((tgt, cond))
                    for tgt, cond in taken[1:]:
                        work.append((tgt, And(pc, cond), dict(self.frames[fr]), list(self.trace), dict(visits), dict(self.frames[0])))
                    bb, c0 = taken[0]; pc = And(pc, c0); continue
                m = re.match(r'assert\((!?)(.+?), "(.*?)"(?:, .*)?\) -> \[success: (bb\d+).*\]$', t)
                if m:
                    v = self.operand(m.group(2), fr); good = Not(v) if m.group(1) else v
                    self.obligations.append((And(pc, Not(good)), m.group(3))); pc = And(pc, good); bb = m.group(4); continue
                m = re.match(r'(.+?) = (.+?)\((.*)\) -> (?:\[return: (bb\d+).*\]|.*)$', t)
                if m:
                    dest, callee, argstr, nxt = m.groups()
                    argv = [self.operand(a, fr) for a in M.split_top(argstr)] if argstr.strip() else []
                    r = self.call(callee, argv, fr, pc)
                    self.store(fr, self.parse_place(dest), r); bb = nxt; continue
                raise Exception('terminator? ' + t)
        self._nested = False
        return outs

def show(ev):
    k = ev[0]
    if k == 'LOAD': return 'Ld_%s(%s) -> %s' % (ev[2].lower()[:3], ev[1], ev[3])
    if k == 'STORE': return 'St_%s(%s, %s)' % (ev[2].lower()[:3], ev[1], ev[3])
    if k == 'READ_REC': return 'R_vol(%s)[7 words]' % ev[1]
    if k == 'WRITE_REC': return 'W_na(%s)[7 words]' % ev[1]
    return str(ev)

fns = {}
M.parse_file('/tmp/probe/mir/shm.mir', fns)
# ---------------- writer
ex = EvExec(fns, 1)
wr = [f for f in fns.values() if f.name.endswith('>::write') and 'ShmWriter' in f.ltypes.get('_1', '')][0]
ex.frames[0] = {'w': M.Struct([Int('segsize'), 'LOC:addr', 'LOC:version', 'LOC:generation', 'LOC:ceb']), 'ceb': M.Struct([Int('pub_w%d' % i) for i in range(7)])}
outs = ex.run(wr, [M.Ref(0, 'w', []), M.Ref(0, 'ceb', [])], BoolVal(True))
print('== ShmWrite::write: %d paths' % len(outs))
for pc, rv, tr, heap in outs:
    print('  path cond:', simplify(pc)); [print('     ', show(e)) for e in tr]
# ---------------- reader
R = int(sys.argv[1]) if len(sys.argv) > 1 else 2
ex = EvExec(fns, R)
sn = [f for f in fns.values() if f.name.endswith('::snapshot')][0]
cache = M.Struct([Int('cache_w%d' % i) for i in range(7)])
ex.frames[0] = {'r': M.Struct(['marker', 'guard', 'LOC:version', 'LOC:generation', 'LOC:ceb', cache, Int('snapshot_gen')])}
outs = ex.run(sn, [M.Ref(0, 'r', [])], BoolVal(True))
print('== ShmReader::snapshot unrolled R=%d: %d paths, %d overflow obligations' % (R, len(outs), len(ex.obligations)))
for pc, rv, tr, heap in outs:
    kind = rv if isinstance(rv, str) else ('Ok' if 'Ok' in rv.p else 'Err')
    st = heap['r']
    print('  -> %-7s events=%-3d  new snapshot_gen=%s' % (kind, len(tr), simplify(st.f[6]) if is_expr(st.f[6]) else st.f[6]))
    print('     trace:', '; '.join(show(e) for e in tr))
    print('     cond :', str(simplify(pc)).replace('\n', ' ')[:300])
