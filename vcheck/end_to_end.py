"""C01: end-to-end containment, as one composition query over code-derived relations.

The daemon step relation (real extract_bound_from_tracking + ShmUpdater + status FSM, from the daemon's MIR) and the
client relation (real compute_bound_at, from the shm crate's MIR) are conjoined with ghost physical variables:
E(t) = error of the realtime clock at monotonic instant t.  Assumptions (the property's own):
  A1  a report that is synchronised and fresh by the documented rules, answered at t_q:  |E(t_q)| <= |offset|+dispersion+delay/2 (+PHC bound)
  A2  |E(t') - E(t)| <= max_drift * (t' - t)
  A3  clock readings are exact instants on one time axis; one writer.
Interface facts used (each decided on the real code by its own check in this framework): the as-of reading precedes the query
(C12), a client call uses a complete record published before its clock reads, never a mixture (C02-C04), realtime is read
before monotonic (C12)."""
import time

import z3

from mirsym.exec import Exec, State, Event, MUL
from mirsym.values import Struct, Enum, Ref, Opaque, UNIT, EngineError, FLin, ite
from . import common
from .common import Check, mval
from .daemon_extract import load_dlib_program, time_env, time_consts, TrackingModel, NS, f64_hex
from .client_now import load_shm_program, ts_ns

KINDS = ('report', 'silent_grace', 'silent', 'restart')


class Pipeline:
    def __init__(self, prog_d, prog_s):
        self.prog_d, self.prog_s = prog_d, prog_s

    def daemon_history(self, shape, drift):
        """execute the real updater over a history of the given shape; returns (steps, exec) where each step has the
        published record (z3 terms), its symbolic inputs and the path condition so far"""
        prog = self.prog_d
        names = prog.struct_fields.get('ShmUpdater') or []
        f_new = prog.find1('new', self_ty='ShmUpdater')
        f_update = prog.find1('process_clock_update', self_ty='ShmUpdater')
        f_missing = prog.find1('process_missing_clock_update', self_ty='ShmUpdater')
        nowvar = [None]

        def h_publish(ex, st, callee, args, fn):
            rec = ex.deref(st, args[1])
            st.trace = st.trace + (Event('publish', (), rec),)
            return UNIT

        def elapsed(ex, st, callee, args, fn):
            t = ex.deref(st, args[0]) if isinstance(args[0], Ref) else args[0]
            ref = t.f[0]
            now = nowvar[0]
            return Enum(z3.If(now >= ref, z3.IntVal(0), z3.IntVal(1)), {'Ok': Struct([Struct([now - ref])]), 'Err': Struct([Struct([Struct([ref - now])])])})
        env = [e for e in time_env(z3.IntVal(0)) if 'elapsed' not in e[0]] + [(r'(^|::)SystemTime::elapsed$', elapsed), (r'^<W as ShmWrite>::write$', h_publish)]
        ex = Exec(prog, env=env)
        ex.const_hooks = time_consts()
        outs = ex.run(f_new, [Opaque('writer'), drift], State())
        st = State(); st.mem[(0, 'u')] = outs[0].value
        steps = []
        states = [(st, [])]
        for i, kind in enumerate(shape):
            nxt = []
            for st, hist in states:
                if kind == 'restart':
                    o = ex.run(f_new, [Opaque('writer'), drift], State())
                    s2 = st.fork(); s2.mem[(0, 'u')] = o[0].value
                    nxt.append((s2, hist + [dict(kind=kind, rec=None)]))
                    continue
                s2 = st.fork()
                if kind == 'report':
                    tm = TrackingModel(prog, tag='_%d' % i)
                    nowvar[0] = tm.now_ns
                    phc = z3.Int('phc_%d' % i); ta = z3.Int('t_asof_%d' % i)
                    as_s, as_n = z3.Int('asof_s_%d' % i), z3.Int('asof_n_%d' % i)
                    outs = ex.run(f_update, [Ref(0, 'u'), tm.value, phc, Struct([as_s, as_n])], s2)
                    info = dict(kind=kind, tm=tm, phc=phc, ta=ta, as_s=as_s, as_n=as_n)
                else:
                    outs = ex.run(f_missing, [Ref(0, 'u'), z3.BoolVal(kind == 'silent_grace')], s2)
                    info = dict(kind=kind)
                for o in outs:
                    if o.kind != 'return':
                        continue
                    pubs = [e for e in o.state.trace if e.kind == 'publish']
                    d = dict(info); d['rec'] = pubs[-1].ret if pubs else None
                    nxt.append((o.state, hist + [d]))
            states = nxt
        return states, ex

    def client(self, rec, real, mono):
        """real compute_bound_at on a symbolic record; returns outcomes and the executor"""
        prog = self.prog_s
        ex = Exec(prog)
        st = State(); st.mem[(0, 'ceb')] = rec
        fn = prog.find1('compute_bound_at', self_ty='ClockErrorBound')
        outs = ex.run(fn, [Ref(0, 'ceb'), real, mono], st)
        return outs, ex


def split_ts(e, t, name):
    s, n = z3.Int(name + '_s'), z3.Int(name + '_n')
    e.append(z3.And(s * NS + n == t, n >= 0, n < NS))
    return s, n


def build_query(P, shape, seed, drift_const=1000):
    """returns (solver constraints, violation condition, decode info) for one history shape; the client uses the record of the
    LAST publication of the shape (every shorter prefix is its own shape)"""
    # the drift rate is a concrete constant per query: every product with it is then exact linear arithmetic (no uninterpreted
    # multiplication on either side of the composition)
    drift = z3.IntVal(drift_const)
    states, exd = P.daemon_history(shape, drift)
    queries = []
    for st, hist in states:
        cons = list(exd.side) + list(st.pc)
        cons += [drift >= 0, drift < NS]
        # ---- time line: t_a_i <= t_q_i <= t_pub_i <= t_a_{i+1} ; all instants within ~68 years
        prev = z3.IntVal(0)
        phys = []          # (t_q, Bexact (Real, ns), valid condition, E_q)
        last_rec = None; t_pub_last = None
        for i, d in enumerate(hist):
            if d['kind'] == 'restart':
                continue
            tpub = z3.Int('t_pub_%d' % i)
            if d['kind'] == 'report':
                tm = d['tm']
                ta, tq = d['ta'], z3.Int('t_q_%d' % i)
                cons += tm.domain(neg_iv=True)
                cons += [ta >= prev, tq >= ta, tpub >= tq, ta >= 5 * NS, d['as_s'] * NS + d['as_n'] == ta, d['as_n'] >= 0, d['as_n'] < NS, d['phc'] >= 0, d['phc'] < 2 ** 40]
                # documented class of the report (C10 oracle): only such reports carry assumption A1
                age = tm.now_ns - tm.ref_ns
                # fresh to the 1 ns resolution (cf. C10); with a negative update interval the threshold is 0
                truly_sync = z3.And(tm.leap <= 2, tm.now_ns >= tm.ref_ns, z3.ToReal(age) <= z3.If(tm.iv < 0, z3.RealVal(0), 8 * tm.iv) * NS + 1)
                B = (z3.If(tm.c >= 0, tm.c, -tm.c) + tm.r + tm.d / 2) * NS + z3.ToReal(d['phc'])
                Eq = z3.Real('E_q_%d' % i)
                cons.append(z3.Implies(truly_sync, z3.And(Eq <= B, Eq >= -B)))
                phys.append((tq, Eq, i))
            else:
                cons += [tpub >= prev]
            prev = tpub
            if d['rec'] is not None:
                last_rec, t_pub_last = d['rec'], tpub
        if last_rec is None:
            continue
        cons.append(prev < 2 ** 60)
        # ---- the client call: reads record `last_rec` (published before its clock reads), realtime first, monotonic second
        t_r, t_m = z3.Int('t_r'), z3.Int('t_m')
        cons += [t_r >= t_pub_last, t_m >= t_r, t_m < 2 ** 60]
        E_r = z3.Real('E_r')
        C = z3.Int('true_time_offset')
        real_ns = z3.Int('real_ns')
        cons += [C >= 0, C < 2 ** 60]
        # the realtime reading is true time + error, truncated to the clock's 1 ns resolution
        cons += [z3.ToReal(real_ns) <= z3.ToReal(t_r + C) + E_r, z3.ToReal(real_ns) > z3.ToReal(t_r + C) + E_r - 1]
        re_s, re_n = split_ts(cons, real_ns, 'real'); mo_s, mo_n = split_ts(cons, t_m, 'mono')
        # A2: bounded drift between every answered report and the client's read (both directions of time)
        for tq, Eq, i in phys:
            el = z3.If(t_r >= tq, t_r - tq, tq - t_r)
            Pq = el * drift
            cons.append(z3.And(E_r - Eq <= z3.ToReal(Pq) / NS, Eq - E_r <= z3.ToReal(Pq) / NS))
        outs, exc = P.client(last_rec, Struct([re_s, re_n]), Struct([mo_s, mo_n]))
        cons += list(exc.side)
        viols = []
        for o in outs:
            if o.kind != 'return' or 'Ok' not in o.value.p:
                continue
            tup = o.value.p['Ok'].f[0]
            e_ns, e = ts_ns(tup.f[0]); l_ns, l = ts_ns(tup.f[1]); stt = tup.f[2].disc()
            hw = l_ns - real_ns
            true_t = z3.ToReal(t_r + C)
            tol = 3 + z3.ToReal(hw) / 2 ** 47
            outside = z3.Or(true_t < z3.ToReal(e_ns) - tol, true_t > z3.ToReal(l_ns) + tol)
            viols.append(z3.And(o.state.pcond(), z3.Or(stt == 1, stt == 2), outside))
        if viols:
            queries.append(dict(cons=cons, bad=z3.Or(viols), hist=hist, vars=dict(drift=drift, t_r=t_r, t_m=t_m, E_r=E_r, C=C, real_ns=real_ns, t_pub=t_pub_last), exc=exc))
    return queries


def solve(q, seed, timeout_ms=240000):
    s = z3.Solver(); s.set('timeout', timeout_ms); s.set('random_seed', seed & 0x7fffffff)
    s.add(q['cons']); s.add(q['bad'])
    t0 = time.time()
    r = s.check()
    return r, (s.model() if r == z3.sat else None), time.time() - t0, (s.reason_unknown() if r == z3.unknown else '')


_Q = []


def _work(i):
    q, seed = _Q[i]
    r, m, dt, why = solve(q, seed)
    return (str(r), dt, why)


def run_check(tier, seed):
    ck = Check('C01', tier, seed)
    prog_d, w1 = load_dlib_program()
    prog_s, w2 = load_shm_program()
    P = Pipeline(prog_d, prog_s)
    # interface fact the composition relies on (t_asof <= t_query): decided here on the same tree, from the poller's MIR, with its
    # own native replay; if it fails the composition's time line would be wrong, so C01 reports it rather than assuming it
    from .daemon_poller import poller_order_half, client_order_half
    sub = Check('C01', tier, seed)
    try:
        poller_order_half(sub, prog_d, seed)
    except EngineError as e:
        ck.inconclusive.append('interface fact (as-of before query) not decidable: %s' % e)
    # second interface fact (A3: the client's interval is centred on a reading of the fine realtime clock taken before its monotonic reading)
    try:
        client_order_half(sub, seed)
    except EngineError as e:
        ck.inconclusive.append('interface fact (client reads CLOCK_REALTIME first) not decidable: %s' % e)
    # third interface fact (the segment layer across a daemon crash and restart): a client call obtains one complete published record
    try:
        from .seqlock_checks import segment_layer_part
        segment_layer_part(sub, seed)
    except EngineError as e:
        ck.inconclusive.append('interface fact (segment layer delivers complete records across a crash and restart) not decidable: %s' % e)
    # the first layer: what the poller sends for a poll is this poll's report with the PHC error bound read at this poll (added exactly when the
    # PHC is the reference; an unreadable bound means no measurement) - the message table of one poller iteration, all environment answers
    try:
        from .daemon_poller import poller_table
        poller_table(sub, prog_d, w1, tier, seed)
    except EngineError as e:
        ck.inconclusive.append('interface fact (poller message table) not decidable: %s' % e)
    # fourth interface fact (the last layer): the interval a client gets from the Rust or the C library is exactly the one
    # ClockErrorBound::now() computed for the snapshot and clock readings of THAT call (no state of the client object enters)
    try:
        from .abi_layout import wrappers_for_c14
        wrappers_for_c14(sub, prog_s, seed, key='client-library-alters-the-interval')
    except EngineError as e:
        ck.inconclusive.append('interface fact (client libraries hand on the interval of now()) not decidable: %s' % e)
    for key, desc, path in sub.violations:
        ck.violations.append(('interface:' + key, 'interface fact of the composition violated - ' + desc, path))
    ck.inconclusive += ['interface fact: ' + i for i in sub.inconclusive]
    ck.cov['interface_obligations'] = sub.cov['obligations']
    K = 2 if tier == 'quick' else 3
    import itertools
    shapes = []
    for k in range(1, K + 1):
        for sh in itertools.product(KINDS, repeat=k):
            if sh[-1] == 'restart':
                continue          # nothing is published by a restart itself
            if 'report' not in sh and k > 1 and tier == 'quick':
                pass
            shapes.append(sh)
    queries = []
    drifts = [1000, 999999999] if tier == 'quick' else [1, 1000, 50000, 12345678, 999999999]
    for dc in drifts:
        for sh in shapes:
            for q in build_query(P, sh, seed, dc):
                q['shape'] = sh; q['drift'] = dc
                queries.append(q)
    global _Q
    _Q = [(q, seed) for q in queries]
    import multiprocessing as mp
    import os
    t0 = time.time()
    n = min(len(queries), max(1, (os.cpu_count() or 4) - 2))
    with mp.get_context('fork').Pool(n) as pool:
        res = pool.map(_work, range(len(queries)), chunksize=1)
    ck.cov['parallel_wall_s'] = round(time.time() - t0, 1)
    rp = None
    for q, (r, dt, why) in zip(queries, res):
        name = 'drift %d ppb, history [%s] then a client call on the last publication: a trusted interval excludes true time' % (q['drift'], ' '.join(q['shape']))
        ck.cov['queries'] += 1; ck.cov['evaluations'] += 1; ck.cov['obligations'] += 1
        ck.cov['solver_time_s'] = round(ck.cov['solver_time_s'] + dt, 2)
        if len(ck.cov['samples']) < 30:
            ck.cov['samples'].append({'obligation': name, 'verdict': 'proved (unsat)' if r == 'unsat' else r + ' ' + why, 'solver_s': round(dt, 2)})
        if r == 'unsat':
            ck.cov['discharged'] += 1; ck.cov['distinct_nontrivial'] += 1
        elif r == 'sat':
            r2, m, dt2, why2 = solve(q, seed)
            if m is None:
                ck.inconclusive.append('model of %s not recomputed' % name); continue
            if not confirm(ck, P, q, m):
                ck.inconclusive.append('counterexample of the composition did not reproduce end to end: ' + name[:100])
        else:
            ck.inconclusive.append('solver %s on %s' % (why or r, name[:100]))
    # vacuity: the pipeline does deliver trusted intervals in these scenarios
    wq = [q for q in queries if q['shape'] == ('report',)]
    if wq:
        q = wq[0]
        s = z3.Solver(); s.set('timeout', 60000); s.add(q['cons'])
        outs_ok = s.check()
        ck.cov['samples'].append({'witness': 'the assumptions of the one-report scenario are satisfiable', 'verdict': str(outs_ok)})
        if outs_ok != z3.sat:
            ck.inconclusive.append('the physical assumptions are not satisfiable together (vacuous composition)')
    ck.cov['functions_encoded'] = ['extract_bound_from_tracking', 'ShmUpdater::{new, process_clock_update, process_missing_clock_update, write_clock_error_bound}', 'FSM transition (3 impls, through the vtable)',
                                   'ClockErrorBound::compute_bound_at + nix TimeSpec arithmetic']
    ck.cov['interface_facts'] = {'C12': 'as-of reading precedes the query; realtime read before monotonic', 'C02/C03/C04': 'a call uses one complete record published before its clock reads (decided here for one update cut at any event + restart + concurrent calls; the deeper bounds are the checks C02-C04)',
                                 'decided_by': 'the interface obligations are discharged inside this check on the same tree (poller order, client order, segment layer under crash/restart)'}
    ck.cov['bounds'] = {'daemon_steps': '1..%d, every sequence over {report (arbitrary wire values, PHC term, timing), silence within grace, silence beyond grace, daemon restart}' % K,
                        'client': 'one call on the last publication of the sequence, at any later instant (every prefix is its own sequence, so every publication is covered)',
                        'max_drift_ppb': 'the constants %s (products with the drift are then exact linear arithmetic on both sides)' % drifts,
                        'tolerance': '3 ns + 2^-47 relative on the half-width (float enclosures of both sides, 1 ns clock resolution)',
                        'outside': 'more than %d daemon steps between the measurement and the client (covered inductively by C08\'s step invariant, not by this query); CLOCK_MONOTONIC_COARSE tick lag' % K}
    ck.cov['rule'] = 'one query per history shape and per path of the daemon steps'
    ck.assumptions += ['A1 validity of chrony\'s offset/delay/dispersion for reports that are synchronised and fresh by the documented rules', 'A2 oscillator drift bounded by the configured rate',
                       'A3 clock readings are exact instants of one time axis; monotonic clock >= 5 s at the first poll']
    return ck.finish()


def confirm(ck, P, q, m):
    """replay the scenario end to end: real ShmUpdater -> real ShmWriter on a /dev/shm file -> real client under the virtual clock"""
    v = q['vars']
    toks = [str(mval(m, v['drift']))]
    desc = []
    for i, d in enumerate(q['hist']):
        if d['kind'] == 'report':
            tm = d['tm']
            c, dd, r, iv = [float(mval(m, x)) for x in (tm.c, tm.d, tm.r, tm.iv)]
            age = mval(m, tm.now_ns) - mval(m, tm.ref_ns)
            toks.append('R,%s,%s,%s,%s,%d,%d,%d,%d,%d' % (f64_hex(c), f64_hex(dd), f64_hex(r), f64_hex(iv), mval(m, tm.leap), max(min(age, 2 ** 40), -10 ** 9), mval(m, d['phc']), mval(m, d['as_s']), mval(m, d['as_n'])))
            desc.append('report(offset=%g, delay=%g, dispersion=%g, leap=%d, age=%.3fs, as_of=%d.%09d)' % (c, dd, r, mval(m, tm.leap), age / 1e9, mval(m, d['as_s']), mval(m, d['as_n'])))
        elif d['kind'] == 'restart':
            toks.append('X'); desc.append('restart')
        else:
            toks.append('G' if d['kind'] == 'silent_grace' else 'N'); desc.append(d['kind'])
    t_r, t_m, C, real_ns = [mval(m, v[k]) for k in ('t_r', 't_m', 'C', 'real_ns')]
    rp = common.Replay('debug')
    out = rp.ask('e2e %s ; %d %d %d %d' % (' '.join(toks), real_ns // NS, real_ns % NS, t_m // NS, t_m % NS))
    rp.close()
    if not out.startswith('ok'):
        return False
    f = dict(x.split('=', 1) for x in out.split()[1:] if '=' in x)
    if 'interval' not in f:
        return False
    e_s, e_n, l_s, l_n, st = [int(x) for x in f['interval'].split(':')]
    true_t = t_r + C
    e, l = e_s * NS + e_n, l_s * NS + l_n
    if st in (1, 2) and not (e - 3 <= true_t <= l + 3):
        ck.violation('containment:' + '-'.join(k[0] for k in q['shape']), 'history %s; client reads realtime %d ns (true time %d ns, clock error %d ns) and monotonic %d ns: real pipeline returns [%d, %d] status %d, which excludes true time by %d ns'
                     % ('; '.join(desc), real_ns, true_t, real_ns - true_t, t_m, e, l, st, max(e - true_t, true_t - l)), {'cmd': 'e2e', 'native': out, 'history': desc})
        return True
    return False
