"""Composition of the seqlock's writer and reader programs (extracted from MIR) into bounded RC11 scenarios.
Used by C02, C03, C04, C11, C18."""
import time

import z3

from mirsym.exec import Exec, State
from mirsym.program import Program
from mirsym.seqlock import SharedEnv, summarise
from mirsym.values import Struct, Rec, Enum, Ref, Ptr, Opaque, UNIT, EngineError, subst, ite
from mirsym.wmm import Enc
from . import common
from .client_now import load_shm_program

NW = 7
T_DEFAULT = -1      # the reader's empty initial record / a freshly wiped (all-zero) segment
T_PARTIAL = -2      # a word written by an update that a crashed writer never completed
T_OLDER = -3        # a complete publication older than the window of the scenario


def field_index(prog, struct, name):
    names = prog.struct_fields.get(struct)
    if not names or name not in names:
        raise EngineError('field %s.%s not found in the sources' % (struct, name))
    return names.index(name)


class Programs:
    """event programs of the real functions, extracted once per check run"""

    def __init__(self, prog=None, writer_new_only=False, tolerate_reader_loops=False):
        self.writer_new_only = writer_new_only
        self.tolerate_reader_loops = tolerate_reader_loops
        t0 = time.time()
        if prog is None:
            prog, self.mir_wall = load_shm_program()
        else:
            self.mir_wall = 0
        self.prog = prog
        lay = prog.layouts
        if 'ShmHeader' not in lay or 'ClockErrorBound' not in lay:
            raise EngineError('layout of ShmHeader / ClockErrorBound missing from -Zprint-type-sizes output')
        self.hdr = lay['ShmHeader']; self.rec = lay['ClockErrorBound']
        self.rec_size = self.rec['size']
        self.hdr_size = self.hdr['size']
        self.env = SharedEnv(prog, rec_size=self.rec_size)
        if not writer_new_only:
            self.setup_reader()
        self.setup_writer()
        self.extract_wall = time.time() - t0 - self.mir_wall

    def new_exec(self, extra_env=(), drops=True):
        ex = Exec(self.prog, env=list(extra_env) + self.env.handlers())
        ex.deref_hook = self.env.deref_hook; ex.store_hook = self.env.store_hook
        ex.rec_layout = self.rec
        ex.inline_drops = drops     # scope guards: a user Drop impl with shared-memory events is part of the program
        self.execs = getattr(self, 'execs', []) + [ex]
        return ex

    def content_dependent(self):
        """True when some extracted program looked inside the record (its decisions depend on what a publication contains)"""
        return any(e.rec_data_used for e in getattr(self, 'execs', []))

    # ------------------------------------------------------------------ reader
    def setup_reader(self):
        prog = self.prog
        segsize = z3.Int('map_segsize')

        def fd_new(ex, st, callee, args, fn):
            return Enum(0, {'Ok': Struct([Struct([z3.IntVal(3)])])})

        def mmap_new(ex, st, callee, args, fn):
            return Enum(0, {'Ok': Struct([Struct([Ptr('seg', 0), segsize])])})

        ex = self.new_exec([(r'(^|::)FdGuard::new$', fd_new), (r'(^|::)MmapGuard::new$', mmap_new)], drops=False)
        ex.side.append(z3.And(segsize >= 0, segsize < 2 ** 32))
        new = prog.find1('new', self_ty='ShmReader')
        outs = ex.run(new, [Opaque('path')], State())
        oks = [o for o in outs if o.kind == 'return' and 'Ok' in o.value.p]
        if len(oks) != 1:
            raise EngineError('ShmReader::new: %d successful paths' % len(oks))
        self.reader_obj = oks[0].value.p['Ok'].f[0]
        self.reader_new_cond = oks[0].state.pcond()
        self.reader_new_segsize = segsize
        self.reader_new_side = list(ex.side)
        fi = lambda n: field_index(prog, 'ShmReader', n)
        self.i_ver, self.i_gen, self.i_ceb, self.i_cache, self.i_sgen = fi('version'), fi('generation'), fi('ceb_shm'), fi('snapshot_ceb'), fi('snapshot_gen')
        ro = self.reader_obj
        self.ptr_version, self.ptr_generation, self.ptr_ceb = ro.f[self.i_ver], ro.f[self.i_gen], ro.f[self.i_ceb]
        for p in (self.ptr_version, self.ptr_generation, self.ptr_ceb):
            if not isinstance(p, Ptr):
                raise EngineError('reader pointer is not a segment pointer: %r' % (p,))
        self.env.rec_off = self.ptr_ceb.off
        # snapshot() over a symbolic reader state
        self.sgen = z3.Int('sgen'); self.cache = [z3.Int('c%d' % i) for i in range(NW)]
        f = list(ro.f)
        f[self.i_cache] = Rec(self.cache); f[self.i_sgen] = self.sgen
        st = State(); st.mem[(0, 'r')] = Struct(f)
        ex2 = self.new_exec()
        sn = prog.find1('snapshot', self_ty='ShmReader')
        self.snap_ex = ex2
        self.snap_fn = sn
        self.snap_state0 = st
        try:
            self.snap = summarise(ex2, sn, [Ref(0, 'r')], st.fork(), watch_mem=[(0, 'r')])
        except EngineError as e:
            if self.tolerate_reader_loops and 'loops' in str(e):
                # C18 analyses the loops of snapshot() one by one; the scenario checks need the single retry loop
                self.snap = None; self.snap_error = str(e); self.rank = None; self.exit_alts = []
                return
            raise
        self.rank = self.find_rank()
        self.exit_alts = [a for g in self.snap.iteration if not g.events for a in g.alts if a.kind == 'return'] if self.snap.iteration else []

    def find_rank(self):
        """a loop-carried integer that every retry path of the loop strictly decreases while it is positive"""
        S = self.snap
        if S.head is None or not S.iteration:
            return None
        stops = [(g, a) for g in S.iteration for a in g.alts if a.kind == 'stop']
        if not stops:
            return None
        for l, (var, ty) in S.carried.items():
            if ty == 'bool':
                continue
            ok = True
            for g, a in stops:
                sv = z3.Solver(); sv.set('timeout', 20000); sv.add(self.snap_ex.side)
                sv.add(a.guard, z3.Not(z3.And(a.locals[l] <= var - 1, var >= 1)))
                if sv.check() != z3.unsat:
                    ok = False; break
            if ok:
                return (l, var)
        return None

    # ------------------------------------------------------------------ writer
    def setup_writer(self):
        prog = self.prog
        usable = z3.Bool('segment_usable')
        wipe_ok = z3.Bool('wipe_ok')
        events = []

        def is_usable(ex, st, callee, args, fn):
            from mirsym.exec import Event
            st.trace = st.trace + (Event('is_usable_segment', (), None),)
            return Enum(z3.If(usable, z3.IntVal(0), z3.IntVal(1)), {'Ok': Struct([UNIT]), 'Err': Struct([Opaque('ShmError')])})

        def wipe(ex, st, callee, args, fn):
            from mirsym.exec import Event
            st.trace = st.trace + (Event('wipe', (args[1],), None),)
            return Enum(z3.If(wipe_ok, z3.IntVal(0), z3.IntVal(1)), {'Ok': Struct([UNIT]), 'Err': Struct([Opaque('io::Error')])})

        def mmap_at(ex, st, callee, args, fn):
            from mirsym.exec import Event
            st.trace = st.trace + (Event('mmap_segment_at', (args[1],), None),)
            return Enum(0, {'Ok': Struct([Ptr('seg', 0)])})

        ex = self.new_exec([(r'(^|::)ShmWriter::is_usable_segment$', is_usable), (r'(^|::)ShmWriter::wipe$', wipe),
                            (r'(^|::)ShmWriter::mmap_segment_at$', mmap_at)])
        new = prog.find1('new', self_ty='ShmWriter')
        outs = ex.run(new, [Opaque('path')], State())
        oks = [o for o in outs if o.kind == 'return' and 'Ok' in o.value.p]
        if not oks:
            raise EngineError('ShmWriter::new has no successful path')
        self.writer_new_paths = [(o.state.pcond(), list(o.state.trace), o.value) for o in outs if o.kind == 'return']
        self.writer_new_outs = outs
        self.writer_new_vars = (usable, wipe_ok)
        objs = [o.value.p['Ok'].f[0] for o in oks]
        self.writer_obj = objs[0]
        fi = lambda n: field_index(prog, 'ShmWriter', n)
        for o in objs[1:]:
            for n in ('version', 'generation', 'ceb'):
                a, b = o.f[fi(n)], self.writer_obj.f[fi(n)]
                if not (isinstance(a, Ptr) and isinstance(b, Ptr) and a.off == b.off):
                    raise EngineError('ShmWriter::new paths disagree on pointer ' + n)
        self.wptr_version, self.wptr_generation, self.wptr_ceb = [self.writer_obj.f[fi(n)] for n in ('version', 'generation', 'ceb')]
        for p in (self.wptr_version, self.wptr_generation, self.wptr_ceb):
            if not isinstance(p, Ptr):
                raise EngineError('writer pointer is not a segment pointer: %r' % (p,))
        self.writer_segsize = self.writer_obj.f[fi('segsize')]
        self.writer_new_ex = ex
        if self.writer_new_only:
            return
        # write() over a symbolic record tag
        self.ktag = z3.Int('ktag')
        st = State(); st.mem[(0, 'w')] = self.writer_obj; st.mem[(0, 'rec')] = Rec([self.ktag] * NW)
        ex2 = self.new_exec()
        wr = prog.find1('write', self_ty='ShmWriter')
        self.write = summarise(ex2, wr, [Ref(0, 'w'), Ref(0, 'rec')], st, watch_mem=[(0, 'w')])
        self.write_ex = ex2
        self.write_fn = wr
        self.writer_private_state = self._writer_private_state()
        if self.write.head is not None:
            raise EngineError('ShmWrite::write contains a loop')
        for g in self.write.prefix:
            for a in g.alts:
                if a.kind != 'return':
                    raise EngineError('ShmWrite::write has a non-returning path')

    def _writer_private_state(self):
        """None when ShmWrite::write is a function of the segment and of the record only; otherwise a description.
        The bounded scenarios replay the per-call program of write() for every publication, which is only faithful when the
        writer object carries nothing from one call (or from ShmWriter::new) to the next."""
        from mirsym.values import same

        def struct_same(a, b):
            if same(a, b):
                return True
            if isinstance(a, Struct) and isinstance(b, Struct) and len(a.f) == len(b.f):
                return all(struct_same(x, y) for x, y in zip(a.f, b.f))
            return False
        for g in self.write.prefix:
            for a in g.alts:
                if not struct_same(a.mem.get((0, 'w')), self.writer_obj):
                    return 'write() modifies the ShmWriter object'
        # observation variables created while ShmWriter::new ran (loads from the segment) that ended up in the writer object
        names = set()

        def walk(v):
            if isinstance(v, Struct):
                for x in v.f:
                    walk(x)
            elif isinstance(v, z3.ExprRef):
                stack = [v]
                while stack:
                    t = stack.pop()
                    if z3.is_const(t) and t.decl().kind() == z3.Z3_OP_UNINTERPRETED:
                        names.add(t.decl().name())
                    stack.extend(t.children())
        walk(self.writer_obj)
        bad = [n for n in names if n.startswith('ld_') or n.startswith('rd_') or n.startswith('rw_')]
        if bad:
            return 'ShmWriter::new stores a value loaded from the segment (%s) in the writer object' % ', '.join(sorted(bad)[:3])
        return None

    def side(self):
        return list(self.snap_ex.side) + list(self.write_ex.side) + list(self.writer_new_ex.side)

    def locs(self):
        return {'version': (self.ptr_version.off, 2), 'generation': (self.ptr_generation.off, 2),
                'words': [(self.ptr_ceb.off + 8 * i, 8) for i in range(NW)]}


class Scenario:
    """one bounded program: an initial segment state, a writer history, M reader calls"""

    def __init__(self, P, name='s'):
        # a writer that keeps private state across calls (e.g. a cached generation): its object is carried from ShmWriter::new
        # through every write() of the scenario, and write() is re-extracted for the object each call starts from
        self.stateful = bool(P.writer_private_state)
        self.wobj = None
        self.P = P
        self.enc = Enc(name)
        self.enc.add(*P.side())
        L = P.locs()
        self.gen_loc, self.ver_loc, self.word_locs = L['generation'], L['version'], L['words']
        wl = {'generation': (P.wptr_generation.off, 2), 'version': (P.wptr_version.off, 2)}
        self.wgen_loc, self.wver_loc = wl['generation'], wl['version']
        self.wword_locs = [(P.wptr_ceb.off + 8 * i, 8) for i in range(NW)]
        e = self.enc
        self.g0 = e.init_val(self.wgen_loc); self.v0 = e.init_val(self.wver_loc)
        self.w0 = [e.init_val(l) for l in self.wword_locs]
        e.add(self.g0 >= 0, self.g0 < 65536, self.v0 >= 0, self.v0 < 65536)
        self.pub_final = {}      # publication k -> enabled-condition of its last generation store
        self.calls = []
        self.npub = 0

    def init_classes(self, allow=('A', 'B', 'C'), wiped_version=(1,)):
        """A: a completed publication 0 (even non-zero generation, version != 0)
           B: an update left unfinished by a crashed writer (odd generation; each word old-complete or partial)
           C: freshly wiped: generation 0, zeros"""
        g0, v0, w0 = self.g0, self.v0, self.w0
        cl = []
        if 'A' in allow:
            cl.append(z3.And(g0 % 2 == 0, g0 != 0, v0 != 0, *[w == 0 for w in w0]))
        if 'B' in allow:
            cl.append(z3.And(g0 % 2 == 1, v0 != 0, *[z3.Or(w == T_OLDER, w == T_PARTIAL) for w in w0]))
        if 'C' in allow:
            cl.append(z3.And(g0 == 0, z3.Or([v0 == x for x in wiped_version]), *[w == T_DEFAULT for w in w0]))
        self.enc.add(z3.Or(cl))

    def publish(self, crash=None):
        """one ShmWrite::write call publishing the next tag"""
        self.npub += 1
        k = self.npub
        first = len(self.enc.wev)
        if not self.stateful:
            self.enc.writer_segment(self.P.write.prefix, [(self.P.ktag, z3.IntVal(k))], pub=k)
        else:
            self._publish_stateful(k)
        last = len(self.enc.wev) - 1
        if crash is not None:
            self.enc.apply_crash(first, last, crash)
        gens = [w for w in self.enc.wev[first:last + 1] if w.kind == 'st' and w.loc == self.wgen_loc]
        self.pub_events = getattr(self, 'pub_events', {}); self.pub_events[k] = (first, last)
        # "publication k completed": all its events were performed
        self.pub_final[k] = z3.BoolVal(True) if crash is None else (crash > last - first)
        return k

    # ------------------------------------------------------------------ writers with private state
    def _virtual_startup(self):
        """the writer object of a writer that was created by ShmWriter::new on the scenario's initial segment and has not
        written since (scenarios that begin with a running writer)"""
        P = self.P; e = self.enc
        objs = {}
        for o in P.writer_new_outs:
            if o.kind != 'return' or 'Ok' not in o.value.p or 'Err' in o.value.p:
                continue
            wiped = 'wipe' in [ev.kind for ev in o.state.trace]
            if wiped in objs:
                continue
            pairs = []
            for ev in o.state.trace:
                if ev.kind == 'load':
                    loc = (ev.args[1], ev.args[2])
                    pairs.append((ev.ret, z3.IntVal(0) if wiped and loc != self.wver_loc else e.init_val(loc)))
            obj = o.value.p['Ok'].f[0]
            objs[wiped] = subst(obj, pairs) if pairs else obj
        if False not in objs:
            raise EngineError('ShmWriter::new has no path that reuses a segment')
        return ite(self.g0 == 0, objs[True], objs[False]) if True in objs else objs[False]

    def _merge_obj(self, groups, sels, gps, pick):
        new_obj = None
        for g, sel, gp in zip(groups, sels, gps):
            for a in g.alts:
                m = pick(a)
                if m is None:
                    continue
                m = subst(m, gp) if gp else m
                cond = z3.And(sel, subst(a.guard, gp) if gp else a.guard)
                new_obj = m if new_obj is None else ite(cond, m, new_obj)
        return new_obj

    def _publish_stateful(self, k):
        from mirsym.seqlock import summarise
        from mirsym.exec import State as St
        P = self.P
        if self.wobj is None:
            self.wobj = self._virtual_startup()
        st = St(); st.mem[(0, 'w')] = self.wobj; st.mem[(0, 'rec')] = Rec([P.ktag] * NW)
        ex = P.new_exec()
        S = summarise(ex, P.write_fn, [Ref(0, 'w'), Ref(0, 'rec')], st, watch_mem=[(0, 'w')])
        if S.head is not None:
            raise EngineError('ShmWrite::write contains a loop')
        self.enc.add(*ex.side)
        sels = self.enc.writer_segment(S.prefix, [(P.ktag, z3.IntVal(k))], pub=k)
        self.wobj = self._merge_obj(S.prefix, sels, self.enc.last_gps, lambda a: a.mem.get((0, 'w')))
        if self.wobj is None:
            raise EngineError('writer object lost after write()')

    def startup(self, usable=True):
        """the shared-memory events of ShmWriter::new: all successful paths for a usable (no wipe) or unusable
        (wipe first) segment, as alternative groups"""
        P = self.P
        from mirsym.seqlock import group_outcomes
        outs = [o for o in P.writer_new_outs if o.kind == 'return' and 'Ok' in o.value.p and 'Err' not in o.value.p
                and (('wipe' in [e.kind for e in o.state.trace]) == (not usable))]
        if not outs:
            raise EngineError('no matching path of ShmWriter::new')
        import copy
        from mirsym.exec import Outcome, State as St
        shm = ('load', 'store', 'fence', 'read', 'write', 'cfence')
        outs2 = []
        for o in outs:
            s2 = St(dict(o.state.mem), list(o.state.pc), tuple(e for e in o.state.trace if e.kind in shm), {})
            outs2.append(Outcome(s2, o.value, 'return'))
        groups = group_outcomes(outs2, -1)
        usable_v, wipe_ok = P.writer_new_vars
        sels = self.enc.writer_segment(groups, [(usable_v, z3.BoolVal(usable)), (wipe_ok, z3.BoolVal(True))], pub=None)
        if self.stateful:
            # the object the constructor returns (its loads read what the segment held at that moment)
            self.wobj = self._merge_obj(groups, sels, self.enc.last_gps, lambda a: a.value.p['Ok'].f[0] if a.value is not None and 'Ok' in a.value.p else None)
            if self.wobj is None:
                raise EngineError('writer object of ShmWriter::new not found')

    # ------------------------------------------------------------------ reader calls
    def reader_call(self, sgen_in, cache_in, R, floor=None):
        """one snapshot() call.  returns a dict of z3 terms describing its outcome"""
        P = self.P; e = self.enc; S = P.snap
        call = len(self.calls)
        if floor is not None:
            e.floors[call] = floor
        def mem_pairs(sg, ca):
            return [(P.sgen, sg)] + list(zip(P.cache, ca))

        def mem_after(conts, sg, ca):
            """reader object fields after a segment that re-enters the loop (ite over its continuing alternatives)"""
            nsg, nca = sg, list(ca)
            for c, a, gp in conts:
                robj = subst(a.mem[(0, 'r')], gp)
                co = robj.f[P.i_cache]
                if not isinstance(co, Rec):
                    raise EngineError('reader cache is not an opaque record')
                nsg = z3.If(c, robj.f[P.i_sgen], nsg)
                nca = [z3.If(c, co.f[i], nca[i]) for i in range(NW)]
            return nsg, nca
        cur_sg, cur_ca = sgen_in, list(cache_in)
        base = mem_pairs(cur_sg, cur_ca)
        rets = []      # (cond, alt, pairs)
        conts = []
        insts = e.reader_segment(S.prefix, base, z3.BoolVal(True), call)
        for g, sel, gp in insts:
            for a in g.alts:
                c = z3.And(sel, subst(a.guard, gp))
                (rets if a.kind == 'return' else conts).append((c, a, gp))
        active = z3.Or([c for c, a, gp in conts]) if conts else z3.BoolVal(False)
        carried = {}
        for l, (var, ty) in S.carried.items():
            v = None
            for c, a, gp in reversed(conts):
                nv = subst(a.locals[l], gp)
                v = nv if v is None else z3.If(c, nv, v)
            carried[l] = v
        cur_sg, cur_ca = mem_after(conts, cur_sg, cur_ca)
        iters_used = z3.IntVal(0)
        exhausted = z3.BoolVal(False)
        for it in range(R):
            if not conts or not S.iteration:
                break
            pairs = mem_pairs(cur_sg, cur_ca) + [(var, carried[l]) for l, (var, ty) in S.carried.items()]
            insts = e.reader_segment(S.iteration, pairs, active, call)
            conts = []
            for g, sel, gp in insts:
                for a in g.alts:
                    c = z3.And(sel, subst(a.guard, gp))
                    if a.kind == 'return':
                        rets.append((c, a, gp))
                    elif a.kind == 'stop':
                        conts.append((c, a, gp))
                    else:
                        raise EngineError('iteration alternative of kind ' + a.kind)
            iters_used = z3.If(active, z3.IntVal(it + 1), iters_used)
            new_active = z3.Or([c for c, a, gp in conts]) if conts else z3.BoolVal(False)
            newc = {}
            for l, (var, ty) in S.carried.items():
                v = carried[l]
                for c, a, gp in conts:
                    v = z3.If(c, subst(a.locals[l], gp), v)
                newc[l] = v
            cur_sg, cur_ca = mem_after(conts, cur_sg, cur_ca)
            # retry-budget exhaustion without unrolling the budget: if repeating this iteration with the SAME observations
            # (always RC11-consistent: re-reading the same stores) leaves the state unchanged except for the counter, the
            # reader can stutter until the counter reaches 0 and then leaves through the loop's exit path.
            if P.rank is not None and P.exit_alts and conts:
                rl, rvar = P.rank
                post = mem_pairs(cur_sg, cur_ca) + [(var, newc[l]) for l, (var, ty) in S.carried.items()]
                stut = []
                for g, sel, gp in insts:
                    if not g.events:
                        continue
                    gp2 = post + gp[len(pairs):]
                    for a2 in g.alts:
                        if a2.kind != 'stop':
                            continue
                        same_state = [subst(a2.locals[l], gp2) == newc[l] for l in S.carried if l != rl]
                        robj2 = subst(a2.mem[(0, 'r')], gp2)
                        same_state.append(robj2.f[P.i_sgen] == cur_sg)
                        same_state += [robj2.f[P.i_cache].f[i] == cur_ca[i] for i in range(NW)]
                        stut.append(z3.And(sel, subst(a2.guard, gp2), *same_state))
                if stut:
                    ex_it = e.fresh('exh', z3.BoolSort())
                    e.add(z3.Implies(ex_it, z3.And(new_active, z3.Or(stut))))
                    pairs_exit = mem_pairs(cur_sg, cur_ca) + [(var, (z3.IntVal(0) if l == rl else newc[l])) for l, (var, ty) in S.carried.items()]
                    for ax in P.exit_alts:
                        rets.append((z3.And(ex_it, subst(ax.guard, pairs_exit)), ax, pairs_exit))
                    exhausted = z3.Or(exhausted, ex_it)
                    new_active = z3.And(new_active, z3.Not(ex_it))
            carried, active = newc, new_active
        unfinished = active
        # outcome
        returned = z3.Or([c for c, a, gp in rets])
        is_ok = z3.BoolVal(False); rec = [z3.IntVal(-99)] * NW
        sgen_out = cur_sg; cache_out = list(cur_ca)
        for c, a, gp in rets:
            robj = subst(a.mem[(0, 'r')], gp)
            val = subst(a.value, gp)
            ok = isinstance(val, Enum) and 'Ok' in val.p and 'Err' not in val.p
            if isinstance(val, Enum) and 'Ok' in val.p and 'Err' in val.p:
                raise EngineError('merged Ok/Err return of snapshot()')
            if ok:
                r = val.p['Ok'].f[0]
                if not (isinstance(r, Ref) and r.frame == 0 and r.local == 'r'):
                    raise EngineError('snapshot() returns a reference to %r' % (r,))
                tgt = robj
                for stp in r.path:
                    tgt = tgt.f[stp]
                if not isinstance(tgt, Rec):
                    raise EngineError('snapshot() returns a non-record')
                is_ok = z3.Or(is_ok, c)
                rec = [z3.If(c, tgt.f[i], rec[i]) for i in range(NW)]
            co = robj.f[P.i_cache]
            sgen_out = z3.If(c, robj.f[P.i_sgen], sgen_out)
            cache_out = [z3.If(c, co.f[i], cache_out[i]) for i in range(NW)]
        out = dict(returned=returned, ok=is_ok, rec=rec, sgen_out=sgen_out, cache_out=cache_out, unfinished=unfinished,
                   iters=iters_used, call=call, exhausted=exhausted)
        self.calls.append(out)
        return out

    def complete_tag(self, t):
        """t is the tag of a record that was published in full (or the empty initial record)"""
        opts = [t == T_DEFAULT, t == T_OLDER, z3.And(t == 0, self.g0 % 2 == 0, self.g0 != 0)]
        for k in range(1, self.npub + 1):
            opts.append(z3.And(t == k, self.pub_final[k]))
        return z3.Or(opts)

    def reader_invariant(self, sgen, cache, extra_tags=()):
        """the reader's private state is one of: nothing yet (generation 0, default record) or a complete earlier
        publication together with the (even, non-zero) generation it was accepted under"""
        alleq = z3.And([cache[i] == cache[0] for i in range(1, NW)])
        return z3.And(alleq, z3.Or(z3.And(sgen == 0, cache[0] == T_DEFAULT),
                                   z3.And(sgen % 2 == 0, sgen != 0, sgen < 65536, sgen > 0, self.complete_tag(cache[0]), cache[0] != T_DEFAULT)))

    def last_writer_idx(self):
        return len(self.enc.wev) - 1

    def solve(self, extra, seed=0, timeout_ms=120000):
        s = z3.Solver(); s.set('timeout', timeout_ms); s.set('random_seed', seed & 0x7fffffff)
        s.add(self.enc.cons)
        s.add(extra)
        t0 = time.time()
        r = s.check()
        return r, (s.model() if r == z3.sat else None), time.time() - t0, (s.reason_unknown() if r == z3.unknown else '')


# ------------------------------------------------------------------------------------------- parallel solving
_TASKS = []


def _work(i):
    sc, extra, seed, timeout_ms = _TASKS[i]
    r, m, dt, why = sc.solve(extra, seed, timeout_ms)
    return (str(r), dt, why)


def parallel_solve(tasks, seed=0, timeout_ms=240000, procs=None):
    """tasks: list of (scenario, extra constraints).  Each query is decided by its own forked z3 process
    (verdict only); models of satisfiable queries are recomputed by the caller in-process."""
    import multiprocessing as mp
    import os
    global _TASKS
    _TASKS = [(sc, extra, seed, timeout_ms) for sc, extra in tasks]
    n = min(len(tasks), procs or max(1, (os.cpu_count() or 4) - 2))
    if n <= 1:
        return [_work(i) for i in range(len(tasks))]
    ctx = mp.get_context('fork')
    with ctx.Pool(n) as pool:
        res = pool.map(_work, range(len(tasks)), chunksize=1)
    return res
