"""./check <id> --replay <file>: re-run the native part of a recorded violation against the current /repo and print both
the recorded and the fresh result.  Exit 1 if the fresh native result is the same as the recorded one (the violation still
reproduces), 0 if it differs (no longer reproduces), 2 if the record has no native command."""
import json
import subprocess

from . import common


def replay(prop, path):
    d = json.load(open(path))
    case = d.get('case', {})
    print('property   :', d.get('property'))
    print('violation  :', d.get('key'))
    print('description:', d.get('description'))
    cmd = case.get('cmd') if isinstance(case, dict) else None
    nat = case.get('native_scripted_replay', {}) if isinstance(case, dict) else {}
    if nat.get('cmd'):
        cmd = nat['cmd']; recorded = nat.get('out')
    else:
        recorded = case.get('native')
    if not cmd or cmd.startswith('clockbound ') or cmd.startswith('valgrind'):
        if cmd and cmd.startswith('clockbound '):
            from .drift_cli import native_drift
            common.dump_mir('dbin')
            r = cmd.split()[-1]
            fresh = native_drift(None if r == 'None' else int(r))
            print('recorded   :', recorded)
            print('fresh      :', fresh)
            return 1 if fresh == recorded else 0
        print('no native command recorded in this file (weak-memory executions carry the full event list instead)')
        return 2
    if cmd in ('now', 'history', 'poller', 'e2e', 'open', 'grace'):
        print('the record names the command family only; inputs:', case.get('inputs') or case.get('steps') or '')
        if cmd == 'now' and case.get('inputs'):
            rp = common.Replay('debug')
            fresh = [rp.ask('now ' + ' '.join(map(str, c))) for c in case['inputs']]
            rp.close()
            print('recorded   :', recorded)
            print('fresh (dev):', fresh)
            return 1 if recorded and fresh == recorded[0] else 0
        return 2
    rp = common.Replay('debug')
    fresh = rp.ask(cmd)
    rp.close()
    if cmd.startswith('threads '):
        # timings differ from run to run: what is compared is whether thread_manager::run returned before the watchdog
        print('command    :', cmd)
        print('recorded   :', str(recorded)[:300])
        print('fresh      :', fresh[:300])
        return 1 if fresh.startswith('ok hung') == str(recorded).startswith('ok hung') else 0
    print('command    :', cmd[:300])
    print('recorded   :', str(recorded)[:600])
    print('fresh      :', fresh[:600])
    return 1 if fresh == recorded else 0
