"""C02, C03, C04, C11, C18: the seqlock under the RC11 release/acquire model (engines M + W)."""
import json
import os
import time

import re
import z3

from mirsym.exec import Exec, State, Event
from mirsym.values import Struct, Rec, Enum, Ref, Ptr, Opaque, UNIT, EngineError, subst
from mirsym.wmm import REL, ACQ
from . import common
from .common import Check, Prover, mval, log
from .seqlock_model import Programs, Scenario, NW, T_DEFAULT, T_PARTIAL, T_OLDER


def key(t):
    """publication order of a record tag (default record is older than everything)"""
    return z3.If(t == T_DEFAULT, z3.IntVal(-4), t)


def all_eq(rec):
    return z3.And([rec[i] == rec[0] for i in range(1, NW)])


# ----------------------------------------------------------------------------------- reader state with history ghost
def reader_state(sc, name, npub_visible=None):
    """a symbolic reader state (cached generation, cached record, happens-before floor) satisfying the invariant
    'the cache is the default record, or a complete publication j together with the generation value it was
    published under, and everything up to j's final generation store happens-before the reader's next access'"""
    sgen = z3.Int(name + '_sgen'); ctag = z3.Int(name + '_ctag'); floor = z3.Int(name + '_floor')
    cache = [ctag] * NW
    e = sc.enc
    opts = [z3.And(ctag == T_DEFAULT, sgen == 0, floor == -1),
            z3.And(ctag == T_OLDER, sgen % 2 == 0, sgen > 0, sgen < 65536, floor == -1),
            z3.And(ctag == 0, sc.g0 % 2 == 0, sc.g0 != 0, sgen == sc.g0, floor == -1)]
    n = sc.npub if npub_visible is None else npub_visible
    for k in range(1, n + 1):
        first, last = sc.pub_events[k]
        gst = [w for w in e.wev[first:last + 1] if w.kind == 'st' and w.loc == sc.wgen_loc]
        if not gst:
            continue
        fin = gst[-1]
        opts.append(z3.And(ctag == k, sc.pub_final[k], fin.en, sgen == fin.val, floor >= fin.idx, floor <= len(e.wev) - 1))
    e.add(z3.Or(opts))
    return sgen, cache, floor, ctag


def describe_model(sc, m, calls):
    e = sc.enc
    out = {'init': {'generation': mval(m, sc.g0), 'version': mval(m, sc.v0), 'words': [mval(m, w) for w in sc.w0]},
           'writer': [], 'reader': [], 'calls': []}
    for w in e.wev:
        en = z3.is_true(m.eval(w.en, model_completion=True))
        out['writer'].append({'idx': w.idx, 'kind': w.kind, 'loc': list(w.loc) if w.loc else None, 'order': w.order, 'enabled': en,
                              'val': mval(m, w.val) if w.val is not None else None, 'pub': w.pub})
    for r in e.rev:
        if z3.is_true(m.eval(r.en, model_completion=True)):
            out['reader'].append({'pos': r.pos, 'call': r.call, 'kind': r.kind, 'loc': list(r.loc) if r.loc else None, 'order': r.order,
                                  'rf': mval(m, r.rf) if r.rf is not None else None, 'val': mval(m, r.var) if r.var is not None else None})
    for c in calls:
        out['calls'].append({'returned_ok': mval(m, c['ok']), 'record_tags': [mval(m, x) for x in c['rec']], 'iterations': mval(m, c['iters']),
                             'exhausted': bool(mval(m, c['exhausted'])) if 'exhausted' in c else False,
                             'sgen_out': mval(m, c['sgen_out']), 'floor': mval(m, sc.enc.floors[c['call']]) if c['call'] in sc.enc.floors else None})
    return out


# ----------------------------------------------------------------------------------- independent consistency check
def rc11_consistent(desc):
    """pure-Python re-check (no solver) that the reader's observations are allowed by RC11 for the writer's store
    sequence: rf targets exist and are enabled, values match, CoWR against the happens-before floor derived from
    release/acquire synchronisation (stores, fences), CoRR per location.  returns list of problems."""
    W = [w for w in desc['writer']]
    stores = {}
    for w in W:
        if w['kind'] == 'st':
            stores.setdefault(tuple(w['loc']), []).append(w)
    rel_f = [w for w in W if w['kind'] == 'fence' and w['order'] in REL and w['enabled']]
    R = desc['reader']
    acq_f = [r for r in R if r['kind'] == 'fence' and r['order'] in ACQ]
    init = {}
    lay = desc.get('locs', {})
    probs = []

    def relidx(w):
        if w['order'] in REL:
            return w['idx']
        c = [f['idx'] for f in rel_f if f['idx'] < w['idx']]
        return max(c) if c else -1
    last_rf = {}
    for r in R:
        if r['kind'] != 'ld':
            continue
        loc = tuple(r['loc']); mo = stores.get(loc, [])
        rf = r['rf']
        if rf < 0 or rf > len(mo):
            probs.append('rf out of range at reader pos %d' % r['pos']); continue
        if rf > 0:
            w = mo[rf - 1]
            if not w['enabled']:
                probs.append('reads from a store that was never performed (pos %d)' % r['pos'])
            if w['val'] != r['val']:
                probs.append('value mismatch at pos %d' % r['pos'])
        # hb floor
        h = -1
        fl = desc['floors'].get(str(r['call'])) if 'floors' in desc else None
        if fl is not None:
            h = fl
        for q in R:
            if q['kind'] != 'ld' or q['pos'] >= r['pos'] or q['rf'] == 0:
                continue
            sync = q['order'] in ACQ or any(q['pos'] < f['pos'] < r['pos'] for f in acq_f)
            if sync:
                wq = stores[tuple(q['loc'])][q['rf'] - 1]
                h = max(h, relidx(wq))
        lastpos = 0
        for p, w in enumerate(mo, 1):
            if w['enabled'] and w['idx'] <= h:
                lastpos = p
        if rf < lastpos:
            probs.append('CoWR violated at reader pos %d: reads mo-position %d but position %d happens-before it' % (r['pos'], rf, lastpos))
        if loc in last_rf and rf < last_rf[loc]:
            probs.append('CoRR violated at reader pos %d' % r['pos'])
        last_rf[loc] = rf
    return probs


def replay_reader(P, desc, sgen_in, cache_tag):
    """re-execute the MIR of snapshot() concretely on the scripted observations of `desc` (interpreter-level
    replay: there is no hardware in the sandbox that exhibits non-SC executions). returns list of per-call results"""
    prog = P.prog
    res = []
    calls = sorted({r['call'] for r in desc['reader']})
    sgen, cache = sgen_in, [cache_tag] * NW
    exh = {i for i, cc in enumerate(desc['calls']) if cc.get('exhausted')}
    if exh:
        return None       # a call that runs its whole retry budget is replayed natively only (10^6 iterations)
    for c in calls:
        script = [r for r in desc['reader'] if r['call'] == c and r['kind'] == 'ld']
        pos = [0]

        def nxt(loc):
            if pos[0] >= len(script):
                raise EngineError('replay script exhausted')
            r = script[pos[0]]; pos[0] += 1
            if tuple(r['loc']) != tuple(loc):
                raise EngineError('replay script out of step: expected %r got %r' % (loc, r['loc']))
            return z3.IntVal(r['val'])

        def h_load(ex, st, callee, args, fn):
            return nxt((args[0].off, 2))

        def h_read(ex, st, callee, args, fn):
            return Rec([nxt((args[0].off + 8 * i, 8)) for i in range(NW)])

        def h_fence(ex, st, callee, args, fn):
            from mirsym.values import UNIT
            return UNIT
        ex = Exec(prog, env=[(r'(^|::)Atomic(::<\w+>|[UI]\d+)?::load$', h_load), (r'read_volatile$|ptr::read$', h_read),
                             (r'(^|::)(fence|compiler_fence)$', h_fence)], loop_bound=64)
        ex.deref_hook = lambda ex_, st, p: Rec([nxt((p.off + 8 * i, 8)) for i in range(NW)])
        f = list(P.reader_obj.f)
        f[P.i_cache] = Rec([z3.IntVal(x) for x in cache]); f[P.i_sgen] = z3.IntVal(sgen)
        st = State(); st.mem[(0, 'r')] = Struct(f)
        outs = ex.run(P.snap_fn, [Ref(0, 'r')], st)
        outs = [o for o in outs if o.kind == 'return']
        if len(outs) != 1:
            raise EngineError('concrete replay of snapshot() produced %d paths' % len(outs))
        o = outs[0]
        robj = o.state.mem[(0, 'r')]
        ok = 'Ok' in o.value.p
        rec = None
        if ok:
            r = o.value.p['Ok'].f[0]
            t = robj
            for s_ in r.path:
                t = t.f[s_]
            rec = [z3.simplify(x).as_long() for x in t.f]
        sgen = z3.simplify(robj.f[P.i_sgen]).as_long()
        cache = [z3.simplify(x).as_long() for x in robj.f[P.i_cache].f]
        res.append({'ok': ok, 'rec': rec, 'sgen_out': sgen})
    return res


def native_script(desc, sgen_in, ctag_in):
    """drive the natively compiled ShmReader::snapshot() with the observation sequence of a model"""
    calls = sorted({r['call'] for r in desc['reader']})
    parts = ['pre=%d:%d' % (sgen_in, ctag_in) if sgen_in != 0 else 'pre=-']
    for c in calls:
        lds = [r for r in desc['reader'] if r['call'] == c and r['kind'] == 'ld']
        obs = []
        i = 0
        while i < len(lds):
            r = lds[i]
            if r['loc'][1] == 8:
                raise EngineError('record words observed before any atomic load')
            words = []
            j = i + 1
            while j < len(lds) and lds[j]['loc'][1] == 8:
                words.append(lds[j]['val']); j += 1
            o = '%d=%d' % (r['loc'][0], r['val'])
            if words:
                if len(words) != NW:
                    raise EngineError('partial record read in the script')
                o += ':' + '/'.join(str(w) for w in words)
            obs.append(o); i = j
        if desc['calls'][calls.index(c)].get('exhausted'):
            obs.append('REPEAT')
        parts.append('call=' + ';'.join(obs))
    rp = common.Replay('debug')
    out = rp.ask('snapshot_script ' + ' '.join(parts))
    rp.close()
    res = {'cmd': 'snapshot_script ' + ' '.join(parts), 'out': out, 'calls': []}
    if not out.startswith('ok'):
        raise EngineError('native replay: ' + out)
    for tok in out.split():
        if tok.startswith('call='):
            body = tok[5:]
            if body.startswith('ok:'):
                t = body[3:].replace(':', '/').replace('m', '').split('/')
                # layout of the printed tags: w0/w1/w2/w3/w4/drift:reserved/m<status mod 3>
                w = [int(x) for x in t]
                if w[5] != w[6]:
                    rec = w[:5] + [None, w[7]]
                else:
                    rec = w[:6] + [w[7]]
                if w[:5] == [0] * 5 and w[5] == -16 and w[6] == -16 and w[7] == 0:
                    # the all-zero record: what a reader that has never taken a snapshot holds (the model's T_DEFAULT tags)
                    rec = [T_DEFAULT] * 6 + [(T_DEFAULT + 3) % 3]
                res['calls'].append({'ok': True, 'rec': rec})
            else:
                res['calls'].append({'ok': False, 'rec': None})
        if tok.startswith('script_misuse=') and tok != 'script_misuse=0':
            raise EngineError('native replay consumed the script differently: ' + out)
    return res


def content_sequence_replay(ck, P, sc, m, key_, what, ctag_in):
    """for programs that look inside the record: the publications' contents chosen by the solver are published one after the
    other by the real writer; the real reader snapshots after the publication the model's reader had cached and after the last
    one (writer idle).  C02/C03: it must then hold exactly the last publication."""
    D = z3.Function('rec_data', z3.IntSort(), z3.IntSort(), z3.IntSort())
    H = z3.Function('rec_data_half', z3.IntSort(), z3.IntSort(), z3.IntSort(), z3.IntSort())
    ev = lambda x: m.eval(x, model_completion=True).as_long()
    N = sc.npub
    ct = mval(m, ctag_in) if ctag_in is not None else T_DEFAULT
    tags = ([ct] if ct not in (T_DEFAULT, None) and ct < 0 else []) + list(range(0 if (ct is not None and ct >= 0) or ct in (T_DEFAULT, None) else 0, N + 1))
    tags = [t for i, t in enumerate(tags) if t not in tags[:i]]

    def content(t):
        w = [ev(D(z3.IntVal(i), z3.IntVal(t))) for i in range(5)]
        w[1] = w[1] % (10 ** 9); w[3] = w[3] % (10 ** 9)
        w = [max(-2 ** 62, min(2 ** 62, x)) for x in w]
        return w + [abs(ev(H(z3.IntVal(5), z3.IntVal(0), z3.IntVal(t)))) % 2 ** 32, abs(ev(H(z3.IntVal(6), z3.IntVal(0), z3.IntVal(t)))) % 3]
    recs = [content(t) for t in tags]
    rp = common.Replay('debug')
    res = None
    for variant in ('cached-then-last', 'after-every-publication'):
        toks = []
        for i, (t, c) in enumerate(zip(tags, recs)):
            snap = 1 if (variant == 'after-every-publication' or i == len(tags) - 1 or t == ct or (ct in (T_DEFAULT, None) and False)) else 0
            toks.append(','.join(map(str, c + [snap])))
        out = rp.ask('seq_publish ' + ' '.join(toks))
        if not out.startswith('ok'):
            continue
        snaps = [x for x in out.split()[1:] if x.startswith('snap')]
        if not snaps:
            continue
        last = snaps[-1].split('=', 1)[1]
        want = ','.join(map(str, recs[-1]))
        if last != want:
            res = {'cmd': 'seq_publish ' + ' '.join(toks), 'out': out, 'variant': variant, 'tags': tags}
            ck.violation(key_, '%s; natively: the real writer published %d records one after the other (contents chosen by the solver, as_of of the last one = %s, of the one before = %s) and the real reader, asked after the last publication with the writer idle, returned %s instead of %s'
                         % (what, len(recs), recs[-1][:2], recs[-2][:2] if len(recs) > 1 else None, last, want), {'cmd': res['cmd'], 'native_scripted_replay': res, 'native': out})
            break
    rp.close()
    return res is not None


def confirm_w_model(ck, P, sc, m, calls, key_, what, sgen_in=None, ctag_in=None, judge=None):
    """a W model is reported only if (1) an independent checker accepts the execution as RC11-consistent for the
    extracted event lists and (2) the concrete re-execution of snapshot()'s MIR on the scripted observations
    produces the bad result."""
    if P.content_dependent():
        # the reader/writer code inspects the record: the tag scripts cannot carry the contents the solver chose
        if content_sequence_replay(ck, P, sc, m, key_, what, ctag_in):
            return True
        ck.inconclusive.append('the code inspects the record content; the model (%s) did not reproduce in the native sequential scenario' % what[:120])
        return False
    desc = describe_model(sc, m, calls)
    desc['floors'] = {str(k): mval(m, v) for k, v in sc.enc.floors.items()}
    probs = rc11_consistent(desc)
    if probs:
        ck.inconclusive.append('model rejected by the independent RC11 checker: ' + '; '.join(probs[:3]))
        return False
    try:
        rr = replay_reader(P, desc, mval(m, sgen_in) if sgen_in is not None else 0, mval(m, ctag_in) if ctag_in is not None else T_DEFAULT)
    except EngineError as e:
        ck.inconclusive.append('concrete replay of the reader failed: %s' % e)
        return False
    desc['replayed_calls'] = rr
    if rr is not None:
        for c, r in zip(desc['calls'], rr):
            if bool(c['returned_ok']) != r['ok'] or (r['ok'] and c['record_tags'] != r['rec']):
                ck.inconclusive.append('concrete replay disagrees with the model: %r vs %r' % (c, r))
                return False
        if judge is not None and not judge(desc, rr):
            ck.inconclusive.append('replayed execution does not violate the property (%s)' % what)
            return False
    # native step: the REAL snapshot() (hooked build) is fed the same observation sequence through the atomic shim's observer
    try:
        nat = native_script(desc, mval(m, sgen_in) if sgen_in is not None else 0, mval(m, ctag_in) if ctag_in is not None else T_DEFAULT)
    except Exception as e:       # noqa
        nat = None
        ck.inconclusive.append('native scripted replay failed: %s' % e)
        return False
    desc['native_scripted_replay'] = nat
    if rr is None:
        # judge on the native results (word 6 is only known modulo 3 natively: take it from the model when consistent)
        rr = []
        for cm, nr in zip(desc['calls'], nat['calls']):
            rec = None
            if nr['ok']:
                rec = list(nr['rec'][:6]) + [cm['record_tags'][6] if (cm['record_tags'][6] + 3) % 3 == nr['rec'][6] else nr['rec'][6]]
            rr.append({'ok': nr['ok'], 'rec': rec})
        for cm, r in zip(desc['calls'], rr):
            if bool(cm['returned_ok']) != r['ok'] or (r['ok'] and cm['record_tags'] != r['rec']):
                ck.inconclusive.append('the real snapshot() fed the scripted observations returned %r, the model says %r' % (r, cm))
                return False
        if judge is not None and not judge(desc, rr):
            ck.inconclusive.append('natively replayed execution does not violate the property (%s)' % what)
            return False
    for r, nr in zip(rr, nat['calls']):
        if r['ok'] != nr['ok'] or (r['ok'] and (r['rec'][:6] != nr['rec'][:6] or (r['rec'][6] + 3) % 3 != nr['rec'][6])):
            ck.inconclusive.append('the real snapshot() fed the scripted observations returned %r, the model says %r' % (nr, r))
            return False
    desc['note'] = ('weak-memory execution: the x86 sandbox hardware cannot exhibit it; confirmed by (1) an independent RC11 consistency '
                    'check of the observation sequence against the writer\'s store sequence, (2) re-executing snapshot()\'s MIR on it, '
                    '(3) feeding the same observations to the real, natively compiled snapshot() through the cfg-gated atomic shim')
    ck.violation(key_, what, desc)
    return True


class Task:
    def __init__(self, name, sc, cons, kind='claim', on_sat=None, sample=None):
        self.name, self.sc, self.cons, self.kind, self.on_sat, self.sample = name, sc, cons, kind, on_sat, sample


def run_tasks(ck, tasks, seed, timeout_ms=None):
    if timeout_ms is None:
        timeout_ms = 300000 if ck.tier == 'quick' else 1500000
    """decide all queries in parallel (one z3 process each); for a satisfiable claim recompute the model in-process and
    hand it to the confirmation procedure.  returns number of confirmed violations"""
    from .seqlock_model import parallel_solve
    t0 = time.time()
    res = parallel_solve([(t.sc, t.cons) for t in tasks], seed, timeout_ms)
    ck.cov['parallel_wall_s'] = round(ck.cov.get('parallel_wall_s', 0) + time.time() - t0, 1)
    nviol = 0
    for t, (r, dt, why) in zip(tasks, res):
        ck.cov['queries'] += 1; ck.cov['evaluations'] += 1
        ck.cov['solver_time_s'] = round(ck.cov['solver_time_s'] + dt, 2)
        if t.kind == 'claim':
            rr = z3.unsat if r == 'unsat' else z3.sat if r == 'sat' else z3.unknown
            record(ck, t.name, rr, dt, why, sizes(t.sc))
            if r == 'sat':
                r2, m, dt2, why2 = t.sc.solve(t.cons, seed, timeout_ms)
                if m is None:
                    ck.inconclusive.append('could not recompute the model of ' + t.name)
                elif t.on_sat and t.on_sat(m):
                    nviol += 1
        else:
            if r != 'sat':
                ck.inconclusive.append('vacuity witness "%s" not satisfiable (%s %s)' % (t.name, r, why))
            else:
                ck.cov['distinct_nontrivial'] += 1
                if len(ck.cov['samples']) < 40:
                    ck.cov['samples'].append({'witness': t.name, 'verdict': 'satisfiable', 'solver_s': round(dt, 3)})
    return nviol


def stop_start_native(ck, prop):
    """standing native scenario (C02 and C11): the daemon publishes A and B under an attached client, stops CLEANLY (its ShmWriter is
    dropped - no update is in flight), clients read, the daemon starts again on the same file and publishes C.
    C02: what clients obtain after the stop is record B, whole - a stop is not a publication, nothing may be written into the record
    outside the generation protocol.  C11: the generation is unchanged by the stop and by the restart, moves on with the next update and
    never returns to 0."""
    rp = common.Replay('debug')
    out = rp.ask('stopstart')
    rp.close()
    ck.cov['evaluations'] += 1
    ck.cov['native_clean_stop_then_start'] = out[:400]
    f = dict(x.split('=', 1) for x in out.split()[1:] if '=' in x) if out.startswith('ok') else {}
    if not f:
        if out.startswith('panic'):
            ck.violation('clean-stop-restart', 'publish, stop the daemon cleanly, start it again on the same file: %s' % out[:200], {'cmd': 'stopstart', 'native': out})
        return
    B = '200:1:1200:0:200:1'
    if prop == 'C02':
        for who in ('attached_client_after_stop', 'new_client_after_stop'):
            got = f.get(who, '')
            if got != B and not got.startswith('err_') and not got.startswith('open_'):
                ck.violation('record-changed-outside-an-update', 'the daemon published record B (as_of 200 s, void_after 1200 s, Synchronized) and stopped cleanly; %s then obtains (as_of, void_after, bound, status) = %s under generation %s - a record the daemon never published in full (the stop rewrote part of the record without going through the generation protocol: record changed by the stop = %s)'
                             % ('the attached client' if who.startswith('attached') else 'a new client', got, f.get('gen_after_stop'), f.get('record_changed_by_stop')), {'cmd': 'stopstart', 'native': out})
                return
    if prop == 'C03':
        C = '300:1:1300:0:300:1'
        if f.get('attached_client_after_restart') not in (C,) and not f.get('attached_client_after_restart', '').startswith('err_'):
            ck.violation('reader-misses-publication', 'a client attached since before a clean daemon stop; the restarted daemon published record C (as_of 300 s) and is idle: the client obtains %s, not C (generation after the restart %s, after the publication %s)'
                         % (f.get('attached_client_after_restart'), f.get('gen_after_restart'), f.get('gen_after_first_write')), {'cmd': 'stopstart', 'native': out})
            return
        if f.get('attached_client_third_life') and f.get('attached_client_third_life') != f.get('last_published') and not f.get('attached_client_third_life', '').startswith('err_'):
            ck.violation('reader-misses-publication', 'a client stays attached across two daemon restarts; it last saw generation %s; the third daemon published %s record(s) while the client was not looking and is idle (generation %s): the client obtains %s, an older record than the last published %s - the restarted daemon re-used generation values the client had already seen'
                         % (f.get('gen_after_first_write'), f.get('third_life_publications'), f.get('gen_third_life'), f.get('attached_client_third_life'), f.get('last_published')), {'cmd': 'stopstart', 'native': out})
            return
    if prop == 'C11':
        g0, g1, g2, g3 = [int(f.get(k, '-1')) for k in ('gen_before_stop', 'gen_after_stop', 'gen_after_restart', 'gen_after_first_write')]
        if g1 != g0 or g2 == 0 or g3 == 0 or g3 % 2 == 1 or g2 % 2 == 1 or g3 == g0 or (g2 != g0):
            ck.violation('clean-stop-restart', 'generation %d after two publications; after a clean stop of the daemon: %d (layout version %s); after the next daemon start on the same file: %d; after its first publication: %d - a published segment keeps its generation through a stop and a start and moves on from there, it never returns to 0'
                         % (g0, g1, f.get('version_after_stop'), g2, g3), {'cmd': 'stopstart', 'native': out})


# ----------------------------------------------------------------------------------- C02
def check_c02(tier, seed):
    ck = Check('C02', tier, seed)
    stop_start_native(ck, 'C02')
    if not ck.violations:
        # a reader attaching while an update is in flight (the constructor is outside engine W when it touches the shared words)
        open_race_native(ck, 'C02')
    try:
        return _check_c02_symbolic(ck, tier, seed)
    except EngineError as e:
        # outside the encodable fragment: a violation the standing native scenarios demonstrated stands; otherwise undecided
        ck.inconclusive.append('EngineError: %s' % e)
        return ck.finish()


def _check_c02_symbolic(ck, tier, seed):
    P = Programs()
    base_cov(ck, P)
    Ns = [1, 2] if tier == 'quick' else [1, 2, 3, 4]
    tasks = []
    for N in Ns:
        R = 2 * N + 1
        sc = Scenario(P, 'c02n%d' % N); sc.init_classes()
        for _ in range(N):
            sc.publish()
        sgen, cache, floor, ctag = reader_state(sc, 'r0')
        o = sc.reader_call(sgen, cache, R, floor=floor)
        o2 = sc.reader_call(o['sgen_out'], o['cache_out'], R, floor=floor)
        sc.enc.finish()
        calls = [o, o2]
        fin = [z3.Not(o['unfinished']), z3.Not(o2['unfinished'])]

        def mk(sc=sc, calls=calls, N=N, sgen=sgen, ctag=ctag):
            def on_sat(m):
                def judge(desc, rr):
                    for x in rr:
                        t = x['rec']
                        if x['ok'] and (len(set(t)) > 1 or t[0] == T_PARTIAL or not z3.is_true(m.eval(sc.complete_tag(z3.IntVal(t[0])), model_completion=True))):
                            return True
                    return False
                return confirm_w_model(ck, P, sc, m, calls, 'torn-snapshot', 'snapshot() calls returned record words %s (publication tags) with N=%d concurrent publications'
                                       % ([[mval(m, x) for x in c_['rec']] if mval(m, c_['ok']) else 'Err' for c_ in calls], N), sgen, ctag, judge)
            return on_sat
        for ci, c_ in enumerate(calls):
            rec = c_['rec']
            tasks.append(Task('N=%d,R=%d: call %d accepts/serves a snapshot mixing words of different publications' % (N, R, ci + 1), sc, fin + [c_['ok'], z3.Not(all_eq(rec))], on_sat=mk()))
            tasks.append(Task('N=%d,R=%d: call %d returns a record that was never published in full' % (N, R, ci + 1), sc, fin + [c_['ok'], all_eq(rec), z3.Not(sc.complete_tag(rec[0]))], on_sat=mk()))
        # inductive step over reader histories: whatever the call returned (record or error), the reader's private state is again
        # "default, or one complete publication": so the claim extends to any number of earlier calls
        inv_bad = z3.And(o['returned'], z3.Not(z3.And(all_eq(o['cache_out']), sc.complete_tag(o['cache_out'][0]))))
        tasks.append(Task('N=%d: after a call (whatever it returned) the reader\'s cache is not a complete record [inductive step]' % N, sc, [z3.Not(o['unfinished']), inv_bad],
                          on_sat=lambda m: ck.inconclusive.append('the reader-cache invariant is not inductive (no two-call witness was found for it)') or False))
        rec = o['rec']
        tasks.append(Task('N=%d: accepts publication %d' % (N, N), sc, fin + [o['ok'], all_eq(rec), rec[0] == N], 'witness'))
        tasks.append(Task('N=%d: serves its cached record' % N, sc, fin + [o['ok'], all_eq(rec), rec[0] == ctag, o['iters'] == 0], 'witness'))
        tasks.append(Task('N=%d: retries at least once, then accepts' % N, sc, fin + [o['ok'], o['iters'] >= 2], 'witness'))
        tasks.append(Task('N=%d: exhausts its retry budget against a stalled update and returns the error' % N, sc, fin + [o['exhausted']], 'witness'))
    run_tasks(ck, tasks, seed)
    # a reader's "generation unchanged" test is only as good as the rule that a generation value is never used twice while a client holds
    # the segment: a restarting daemon takes every segment a crash can leave (odd generation included) over in place instead of wiping it
    # and counting from 0 again (clauses of C04 / C11, discharged here on the same tree)
    if not ck.violations:
        try:
            pru = Prover(seed)
            usable_clause(ck, P, pru, seed)
            ck.absorb(pru, 'restart: ')
        except EngineError as e:
            ck.inconclusive.append('restart: %s' % e)
    if not ck.violations:
        restart_chain_native(ck)
    ck.cov['bounds'] = {'publications_overlapping_one_call': Ns, 'retry_loop_unrolling': 'R = 2N+1 (complete up to stuttering iterations, DESIGN.md 3.3)',
                        'record_words': NW, 'start_generation': 'any u16 (even, odd left by a crash, 0 freshly wiped)', 'reader': 'any state satisfying the history invariant',
                        'outside': 'more than N publications overlapping one call (in particular the 32767*k ABA case); calls needing more than R iterations'}
    return ck.finish()


def sizes(sc):
    return {'writer_events': len(sc.enc.wev), 'reader_events': len(sc.enc.rev), 'constraints': len(sc.enc.cons)}


def record(ck, name, r, dt, why, extra=None):
    c = ck.cov
    c['obligations'] += 1
    s = {'obligation': name, 'verdict': 'proved (unsat)' if r == z3.unsat else 'counterexample' if r == z3.sat else 'unknown: ' + why, 'solver_s': round(dt, 3)}
    if extra:
        s.update(extra)
    c['samples'].append(s)
    if r == z3.unsat:
        c['discharged'] += 1; c['distinct_nontrivial'] += 1
    elif r != z3.sat:
        ck.inconclusive.append('solver %s on %s' % (why or r, name))


def base_cov(ck, P):
    ck.cov['functions_encoded'] = ['ShmWrite::write (ShmWriter)', 'ShmReader::snapshot', 'ShmReader::new (pointer set-up)', 'ShmWriter::new (pointer set-up, version store)']
    ck.cov['locations'] = {k: v for k, v in P.locs().items()}
    ck.cov['writer_program'] = [[(e.kind,) + tuple(e.args) for e in g.events] for g in P.write.prefix]
    ck.cov['reader_program'] = {'prefix': [[(e.kind,) + tuple(e.args) for e in g.events] for g in P.snap.prefix],
                                'iteration': [[(e.kind,) + tuple(e.args) for e in g.events] for g in P.snap.iteration]}
    ck.cov['mir_dump_s'] = round(P.mir_wall, 1); ck.cov['extraction_s'] = round(P.extract_wall, 1)
    ck.cov['stubs'] = ['Atomic::load/store, atomic::fence, ptr::read_volatile, ptr::write: shared-memory events',
                       'FdGuard::new, MmapGuard::new, ShmWriter::{is_usable_segment, wipe, mmap_segment_at}: environment (mapping at offset 0 of one region)']
    ck.cov['rule'] = 'one solver query per (scenario bound, property clause); every unsat verdict is accompanied by satisfiable vacuity witnesses of the same scenario'
    ck.assumptions += ['RC11 release/acquire + relaxed + fences; plain and volatile record accesses treated as per-word (8-byte) relaxed atomics (under the letter of the language model a racy plain access is undefined behaviour)',
                       'single writer at a time (a restarted writer starts after its predecessor stopped); readers never store',
                       'SeqCst treated as AcqRel (may only add behaviours)',
                       'data independence: the code copies the record opaquely (enforced: any field access into the record is an engine error)']


# ----------------------------------------------------------------------------------- C03
def open_race_native(ck, prop='C03'):
    """standing native scenario for the reader's constructor: a publication lands at each shared-memory access ShmReader::new makes
    (on the unchanged tree it makes none: the header is read through the file descriptor); the idle-writer snapshot afterwards must be
    that publication.  returns the list of runs; records a violation when a stale record is served"""
    rp = common.Replay('debug')
    runs = []
    k = 1
    while k <= 8 and prop == 'C03':
        out = rp.ask('open_race %d' % k)
        f = dict(x.split('=', 1) for x in out.split()[1:] if '=' in x) if out.startswith('ok') else {}
        runs.append({'publication_at_access': k, 'out': out[:120]})
        ck.cov['evaluations'] += 1
        if f.get('snapshot_bound') not in (None, '222'):
            ck.violation('stale-when-idle', 'a client opens the segment (record A published) while the daemon publishes record B at shared-memory access #%s of ShmReader::new (of %s); the daemon is idle afterwards, yet the first snapshot() returns %s, not B: the reader starts with a record cached under a generation it was not read under'
                         % (f.get('wrote_at'), f.get('accesses_in_new'), 'record A' if f.get('snapshot_bound') == '111' else f.get('snapshot_bound')), {'cmd': 'open_race %d' % k, 'native': out})
            break
        if not f or int(f.get('accesses_in_new', '0')) < k:
            break
        k += 1
    # the client opens the segment while an update is in flight (odd generation, half of the record words new); the update completes
    # at access #k of the constructor: the first snapshot must be the completed record as a whole (or an error), never a mixture
    k = 1
    while k <= 8 and not ck.violations:
        out = rp.ask('open_race %d mid' % k)
        f = dict(x.split('=', 1) for x in out.split()[1:] if '=' in x) if out.startswith('ok') else {}
        runs.append({'update_in_flight_completed_at_access': k, 'out': out[:120]})
        ck.cov['evaluations'] += 1
        ws = f.get('snapshot_words')
        if prop == 'C02':
            # C02: whatever the reader returns is ONE publication, whole (A or B): a mixture is a torn snapshot
            if ws is not None and not ws.startswith('err_') and len(set(ws)) > 1:
                ck.violation('torn-snapshot', 'a client opens the segment while an update is in flight (generation odd, words 0-3 of record B written over record A); the update completes at shared-memory access #%s of ShmReader::new (of %s); the first snapshot() of that reader returns the words %s (A = previous record, B = the completed one): a record that was never published'
                             % (f.get('completed_at'), f.get('accesses_in_new'), ws), {'cmd': 'open_race %d mid' % k, 'native': out})
                break
        elif ws is not None and ws != 'BBBBBBB' and not ws.startswith('err_'):
            ck.violation('stale-when-idle', 'a client opens the segment while an update is in flight (generation odd, words 0-3 of record B written over record A); the update completes at shared-memory access #%s of ShmReader::new (of %s); the writer is idle afterwards and the first snapshot() returns the words %s (A = previous record, B = the completed one): not the last completed publication'
                         % (f.get('completed_at'), f.get('accesses_in_new'), ws), {'cmd': 'open_race %d mid' % k, 'native': out})
            break
        if not f or int(f.get('accesses_in_new', '0')) < k:
            break
        k += 1
    rp.close()
    ck.cov['native_open_race'] = runs
    return runs


def one_field_sequences_native(ck):
    """standing native scenario: the real writer publishes records one after the other, each differing from its predecessor in exactly
    ONE field (each field in turn, the status included; then a record identical to its predecessor); after every publication the writer
    is idle and the real reader (attached since the first publication) must return exactly the record just published"""
    base = [100, 5, 1100, 0, 7000, 1000, 1]
    seqs = [base]
    for i, nv in ((6, 2), (6, 0), (6, 1), (4, 7001), (0, 101), (1, 6), (2, 1101), (3, 1), (5, 1001), (5, 1001), (6, 0), (4, 7001)):
        r = list(seqs[-1]); r[i] = nv
        seqs.append(r)
    rp = common.Replay('debug')
    toks = [','.join(map(str, r + [1])) for r in seqs]
    out = rp.ask('seq_publish ' + ' '.join(toks))
    rp.close()
    ck.cov['evaluations'] += len(seqs)
    ck.cov['native_one_field_sequences'] = out[:300]
    if not out.startswith('ok'):
        return
    snaps = [x.split('=', 1)[1] for x in out.split()[1:] if x.startswith('snap')]
    for k, (got, want) in enumerate(zip(snaps, [','.join(map(str, r)) for r in seqs])):
        if got != want:
            prev = ','.join(map(str, seqs[k - 1])) if k else '-'
            ck.violation('stale-when-idle', 'the real writer publishes %s right after %s (as_of s,ns; void_after s,ns; bound; drift; status): with the writer idle the attached reader returns %s - not the last completed publication (an update that changes only some fields is not taken over in full)'
                         % (want, prev, got), {'cmd': 'seq_publish ' + ' '.join(toks), 'native': out})
            return


def check_c03(tier, seed):
    ck = Check('C03', tier, seed)
    # standing native scenarios first: they run whether or not the programs are inside the encodable fragment (a constructor that reads
    # the segment, a writer that looks into the record it overwrites): without a violation such a tree stays inconclusive
    open_race_native(ck)
    if not ck.violations:
        one_field_sequences_native(ck)
    if not ck.violations:
        # publication order continues across daemon restarts for a client that stays attached
        stop_start_native(ck, 'C03')
    try:
        return _check_c03_symbolic(ck, tier, seed)
    except EngineError as e:
        ck.inconclusive.append('EngineError: %s' % e)
        return ck.finish()


def _check_c03_symbolic(ck, tier, seed):
    P = Programs()
    base_cov(ck, P)
    cfgs = [(2, 2)] if tier == 'quick' else [(2, 2), (3, 2), (2, 3), (4, 2), (3, 3)]
    tasks = []
    for N, M in cfgs:
        R = 2 * N + 1
        sc = Scenario(P, 'c03n%dm%d' % (N, M)); sc.init_classes()
        for _ in range(N):
            sc.publish()
        sgen, cache, floor, ctag = reader_state(sc, 'r0')
        outs = []
        sg, ca = sgen, cache
        for i in range(M):
            o = sc.reader_call(sg, ca, R, floor=floor)
            outs.append(o); sg, ca = o['sgen_out'], o['cache_out']
        # a final call that starts after the writer went idle (everything the writer did happens-before it)
        q = sc.reader_call(sg, ca, R, floor=z3.IntVal(sc.last_writer_idx()))
        sc.enc.finish()
        allc = outs + [q]
        fin = [z3.Not(o['unfinished']) for o in allc]
        prev = key(ctag)
        for i, o in enumerate(allc):
            def mk(sc=sc, allc=allc, ctag=ctag, sgen=sgen):
                def on_sat(m):
                    def judge(desc, rr):
                        ks = [-4 if mval(m, ctag) == T_DEFAULT else mval(m, ctag)] + [(-4 if x['rec'][0] == T_DEFAULT else x['rec'][0]) for x in rr if x['ok']]
                        return any(b_ < a_ for a_, b_ in zip(ks, ks[1:]))
                    return confirm_w_model(ck, P, sc, m, allc, 'goes-back', 'successive snapshot() calls returned publication tags %s after cache tag %s' % ([mval(m, o_['rec'][0]) if mval(m, o_['ok']) else None for o_ in allc], mval(m, ctag)), sgen, ctag, judge)
                return on_sat
            tasks.append(Task('N=%d,M=%d: call %d returns an older record than the previous result (or than the cache)' % (N, M, i + 1), sc, fin + [o['ok'], key(o['rec'][0]) < prev], on_sat=mk()))
            prev = z3.If(o['ok'], key(o['rec'][0]), prev)
        gfin = sc.enc.wvalue(sc.wgen_loc)
        # documented exception: a cached publication OLDER than the window whose generation coincides with the live one (the reader slept
        # through a multiple of 32767 publications). A record cached inside the window cannot coincide (N << 32767): if it does, it was mislabelled.
        exc = z3.And(outs[-1]['sgen_out'] == gfin, outs[-1]['cache_out'][0] == T_OLDER)

        def mkb(sc=sc, allc=allc, q=q, N=N, ctag=ctag, sgen=sgen):
            def on_sat(m):
                return confirm_w_model(ck, P, sc, m, allc, 'stale-when-idle', 'a snapshot() call ordered after all %d publications returned tags %s' % (N, [mval(m, x) for x in q['rec']]), sgen, ctag,
                                       lambda desc, rr: not (rr[-1]['ok'] and rr[-1]['rec'] == [N] * NW))
            return on_sat
        tasks.append(Task('N=%d: a call that starts after the writer went idle does not return the latest publication (cached generation != live generation)' % N, sc,
                          fin + [q['returned'], z3.Not(exc), z3.Not(z3.And(q['ok'], all_eq(q['rec']), q['rec'][0] == N))], on_sat=mkb()))
        if M > 1:
            tasks.append(Task('N=%d,M=%d: two calls return different publications' % (N, M), sc, fin + [outs[0]['ok'], outs[-1]['ok'], outs[0]['rec'][0] != outs[-1]['rec'][0]], 'witness'))
        tasks.append(Task('N=%d: the quiescent call returns publication N' % N, sc, fin + [q['ok'], q['rec'][0] == N], 'witness'))
        tasks.append(Task('N=%d: the generation wraps inside the window' % N, sc, fin + [sc.g0 > 65530, outs[0]['ok'], outs[0]['rec'][0] == N], 'witness'))
    run_tasks(ck, tasks, seed)
    ck.cov['bounds'] = {'(publications N, successive concurrent calls M)': cfgs, 'plus': 'one call ordered after the whole writer history', 'retry_loop_unrolling': 'R = 2N+1',
                        'start_generation': 'any u16 (wrap covered)', 'reader': 'any state satisfying the history invariant (cache tag, cached generation, happens-before floor)',
                        'outside': 'more than N publications inside the window; the 32767*k coincidence appears only as the stated exception'}
    return ck.finish()


def q_sgen_in(outs, sgen):
    return outs[-1]['sgen_out'] if outs else sgen


# ----------------------------------------------------------------------------------- C11
def _struct_same(a, b):
    from mirsym.values import same
    if same(a, b):
        return True
    if isinstance(a, Struct) and isinstance(b, Struct) and len(a.f) == len(b.f):
        return all(_struct_same(x, y) for x, y in zip(a.f, b.f))
    if isinstance(a, Enum) and isinstance(b, Enum):
        return _struct_same(a.d, b.d) and set(a.p) == set(b.p) and all(_struct_same(a.p[k], b.p[k]) for k in a.p)
    return False


def gen_protocol_ok(start, stores, final_mem):
    """the documented protocol on one natively observed write: stores = [(value, generation in memory right before)]"""
    if len(stores) < 1:
        return False
    vals = [v for v, mm in stores]
    b = vals[-1]
    mids = vals[:-1]
    a = mids[-1] if mids else start          # what the segment shows right before the final store
    return (a % 2 == 1 and b % 2 == 0 and b != 0 and b != start and (a == start + 1 if start % 2 == 0 else a == start)
            and (b == 2 if a == 65535 else b == a + 1) and stores[0][1] == start and all(v % 2 == 1 for v in mids) and final_mem == b)


def native_writegen(rp, g0, n):
    out = rp.ask('writegen %d %d' % (g0, n))
    if not out.startswith('ok'):
        return None, out
    ws = []
    for tok in out.split():
        if tok[0] == 'w' and '=' in tok and tok[1:tok.index('=')].isdigit():
            start, stores, fin = tok.split('=', 1)[1].split(':')
            ws.append((int(start), [tuple(int(x) for x in sv.split('@')) for sv in stores.split(',') if sv], int(fin)))
    return ws, out


def value_protocol(ck, P, pr, tier):
    """C11 (1).  Returns False when the check cannot continue."""
    from mirsym.seqlock import summarise
    from mirsym.values import ite as vite
    T = z3.BoolVal(True)
    g = z3.Int('g_start')
    pr.add(g >= 0, g < 65536)
    gen_loc = (P.wptr_generation.off, 2)
    fi_names = P.prog.struct_fields.get('ShmWriter') or []
    usable_v, wipe_ok = P.writer_new_vars
    # writer objects of the successful paths of ShmWriter::new: (object, "the segment was wiped", generation loads done by new)
    objs = []
    for o in P.writer_new_outs:
        if o.kind != 'return' or 'Ok' not in o.value.p or 'Err' in o.value.p:
            continue
        wiped = 'wipe' in [e.kind for e in o.state.trace]
        lds = [e.ret for e in o.state.trace if e.kind == 'load' and (e.args[1], e.args[2]) == gen_loc]
        obj = o.value.p['Ok'].f[0]
        if not any(_struct_same(obj, x[0]) and wiped == x[1] for x in objs):
            objs.append((obj, wiped, lds))
    K = 1
    native_n = 1
    fails = []
    shape_unknown = []
    rounds = 3 if tier == 'quick' else 6
    # the constructor itself, taking over a published segment (any generation a crash can leave): whatever it stores into the generation
    # obeys the same protocol - never 0, within u16, and an even value only over a record it has just written in full
    new_fails = []
    for o in P.writer_new_outs:
        if o.kind != 'return' or 'Ok' not in o.value.p or 'Err' in o.value.p or 'wipe' in [e.kind for e in o.state.trace]:
            continue
        evs = list(o.state.trace)
        pairs = []; cur_v = g; wrote = False
        for e in evs:
            if e.kind == 'load' and (e.args[1], e.args[2]) == gen_loc:
                pairs.append((e.ret, cur_v))
            elif e.kind == 'write':
                wrote = True
            elif e.kind == 'store' and (e.args[1], e.args[2]) == gen_loc:
                v = subst(e.info['val'], pairs) if pairs else e.info['val']
                pc_ = subst(o.state.pcond(), pairs) if pairs else o.state.pcond()
                cl = {'is never 0': v != 0, 'is within u16': z3.And(v >= 0, v < 65536),
                      'is even only after the record has been rewritten in full (an interrupted update is not declared complete)': z3.Implies(z3.And(v % 2 == 0, cur_v % 2 == 1), z3.BoolVal(wrote))}
                for nm_, c_ in cl.items():
                    res = pr.prove('ShmWriter::new over a published segment (generation g, g != 0): a value it stores into the generation ' + nm_, z3.And(pc_, g != 0), c_, need_reach=False)
                    if isinstance(res, tuple):
                        new_fails.append((nm_, mval(res[1], g)))
                cur_v = v
    if new_fails:
        import struct
        from .segment_files import MAGIC0, MAGIC1
        rpn = common.Replay('debug')
        seen_g = set()
        for nm_, g0 in new_fails:
            for gg in (g0, 65535, 65534, 3):
                if gg in seen_g or gg is None:
                    continue
                seen_g.add(gg)
                hdr = struct.pack('<IIIHH', MAGIC0, MAGIC1, 72, 1, gg)
                rec = struct.pack('<qqqqqIIiI', 11, 22, 33, 44, 55, 66, 0, 1, 0)
                out = rpn.ask('recreate ' + (hdr + rec).hex())
                f = dict(x.split('=', 1) for x in out.split()[1:] if '=' in x) if out.startswith('ok') else {}
                if not f.get('bytes'):
                    continue
                nb = bytes.fromhex(f['bytes'])
                after = struct.unpack('<H', nb[14:16])[0]
                if after == 0 or (after % 2 == 0 and gg % 2 == 1 and nb[16:] == rec):
                    ck.violation('value-protocol:constructor', 'real ShmWriter::new on a published segment left at generation %d (%s): the generation afterwards is %d%s'
                                 % (gg, 'odd: the previous writer died mid-update' if gg % 2 else 'even', after,
                                    ' - it returned to 0, the segment reads as never initialised' if after == 0 else ' - even again although the interrupted record was not rewritten'),
                                 {'cmd': 'recreate ' + (hdr + rec).hex(), 'native': out})
                    break
            if ck.violations:
                break
        rpn.close()
        if not ck.violations:
            ck.inconclusive.append('ShmWriter::new stores into the generation in a way the protocol clauses reject (%s) but the native runs keep the protocol' % new_fails[0][0])
        pr.handled = getattr(pr, 'handled', set()) | {n for n, m in pr.failed if n.startswith('ShmWriter::new over a published segment')}
    wr = P.prog.find1('write', self_ty='ShmWriter')
    for oi, (obj0, wiped, new_lds) in enumerate(objs):
        tag = 'new(%s)' % ('wiped segment' if wiped else 'segment reused')
        cur = z3.IntVal(0) if wiped else g
        # a generation the constructor loaded is the generation the segment was left at (after a wipe: 0)
        obj = subst(obj0, [(v, cur) for v in new_lds]) if new_lds else obj0
        stateless = None
        for k in range(1, rounds + 1):
            st = State(); st.mem[(0, 'w')] = obj; st.mem[(0, 'rec')] = Rec([P.ktag] * NW)
            ex2 = P.new_exec()
            S = summarise(ex2, wr, [Ref(0, 'w'), Ref(0, 'rec')], st, watch_mem=[(0, 'w')])
            pr.add(ex2.side)
            if S.head is not None:
                ck.inconclusive.append('%s: write #%d contains a loop: the value protocol is stated for loop-free updates' % (tag, k))
                return False
            # one or several event skeletons (e.g. an extra store on the wrap path): the protocol is stated on the SEQUENCE of values the
            # update stores into the generation: v_1 .. v_n (n >= 2), the record written after v_1 and before v_n
            nm = lambda x: '%s, write #%d: %s' % (tag, k, x)
            guards = []
            after = None
            finals = []
            bad_shape = None
            for gi, grp in enumerate(S.prefix):
                evs = grp.events
                sts = [e for e in evs if e.kind == 'store' and (e.args[1], e.args[2]) == gen_loc]
                wrs = [e for e in evs if e.kind == 'write']
                order = [e.kind for e in evs]
                if not (len(sts) >= 1 and len(wrs) == 1 and evs.index(wrs[0]) < evs.index(sts[-1])):
                    bad_shape = (tag, k, order); break
                # what the writer's own generation loads return: single writer => the last value it stored (or the start value)
                pairs = []
                vals = []
                for e in evs:
                    if e.kind == 'load' and (e.args[1], e.args[2]) == gen_loc:
                        pairs.append((e.ret, vals[-1] if vals else cur))
                    elif e in sts:
                        vals.append(subst(e.info['val'], pairs) if pairs else e.info['val'])
                guard = subst(grp.guard(), pairs) if pairs else grp.guard()
                guards.append(guard)
                wpos = len([e for e in sts if evs.index(e) < evs.index(wrs[0])])       # stores before the record write
                # the generation the segment shows while the record is being written (after `wpos` stores; the start value if none)
                v1 = vals[wpos - 1] if wpos else cur
                vn = vals[-1]
                mid = vals[:-1]
                clauses = {
                    'in-flight value is odd': v1 % 2 == 1,
                    'values within u16': z3.And(*[z3.And(v >= 0, v < 65536) for v in vals]),
                    'final value is even': vn % 2 == 0,
                    'final value is never 0': vn != 0,
                    'final value differs from the value the segment held before the update': vn != cur,
                    'from an even start the in-flight value is start+1': z3.Implies(cur % 2 == 0, v1 == cur + 1),
                    'from an odd start (crashed writer) the update continues under that value': z3.Implies(cur % 2 == 1, v1 == cur),
                    'final = in-flight + 1, except at the wrap where it continues at 2': z3.If(v1 == 65535, vn == 2, vn == v1 + 1),
                    'from 0 (fresh wipe): 1 then 2': z3.Implies(cur == 0, z3.And(v1 == 1, vn == 2)),
                    'wrap: 0xFFFE and 0xFFFF both end at 2': z3.Implies(cur >= 65534, vn == 2),
                    'inductive: post-state is a valid idle state (even, non-zero)': z3.And(vn % 2 == 0, vn != 0),
                }
                if mid:
                    clauses['every value stored before the final one is odd and non-zero (the generation never shows an even value, nor 0, during the update)'] = z3.And(*[z3.And(v % 2 == 1) for v in mid])
                for name, cl in clauses.items():
                    res = pr.prove(nm(name) + (' [path %d]' % gi if len(S.prefix) > 1 else ''), guard, cl, need_reach=False)
                    if isinstance(res, tuple):
                        fails.append((nm(name), 0 if wiped else mval(res[1], g), k))
                # the writer object after the call (its private state, if it has any)
                for a_ in grp.alts:
                    m_ = a_.mem.get((0, 'w'))
                    m_ = subst(m_, pairs) if pairs else m_
                    c_ = z3.And(guard, a_.guard if not pairs else subst(a_.guard, pairs))
                    after = m_ if after is None else vite(c_, m_, after)
                finals.append((guard, vn))
            if bad_shape:
                shape_unknown.append(bad_shape); break
            res = pr.prove(nm('every start value is handled (no path is missing)'), T, z3.Or(guards), need_reach=False)
            if isinstance(res, tuple):
                fails.append((nm('every start value is handled'), 0 if wiped else mval(res[1], g), k))
            stateless = _struct_same(after, obj)
            K = max(K, k)
            if stateless:
                break
            v2 = finals[-1][1]
            for gd, vv in reversed(finals[:-1]):
                v2 = z3.If(gd, vv, v2)
            obj = after; cur = v2
        ck.cov.setdefault('writer_objects', []).append({'constructor_path': tag, 'writer_has_private_generation_state': (None if stateless is None else not stateless),
                                                        'writes_chained': k})
    native_n = K
    ck.cov['bounds_value_protocol'] = ('write() keeps no private state: one write from every start generation is an inductive step' if K == 1 else
                                        'write() updates private writer state: %d successive writes after ShmWriter::new from every start generation (longer histories outside)' % K)
    rp = None
    if fails or shape_unknown:
        rp = common.Replay('debug')
    seen = set()
    # replay value-protocol counterexamples on the real writer (native, through a real mmapped file)
    for name, g0, k in fails[:8]:
        if (g0, k) in seen:
            continue
        seen.add((g0, k))
        ws, out = native_writegen(rp, g0, max(k, 1))
        if ws is None:
            ck.inconclusive.append('native writegen replay failed: ' + out); continue
        bad = [(i + 1, w) for i, w in enumerate(ws) if not gen_protocol_ok(*w)]
        if bad:
            i, (start, stores, fin) = bad[0]
            ck.violation('value-protocol:' + name.split(': ', 1)[-1][:40], 'real ShmWriter::new on a segment left at generation %d, then write() #%d: generation before %d, stored %s (value@memory-before), memory afterwards %d (%s)'
                         % (g0, i, start, ['%d@%d' % x for x in stores], fin, name), {'cmd': 'writegen %d %d' % (g0, max(k, 1)), 'native': out})
        else:
            ck.inconclusive.append('value-protocol counterexample (start %d) did not reproduce natively: %s' % (g0, out))
    if shape_unknown:
        # an event shape the symbolic value protocol is not stated for: decide on native runs only; green is not claimed
        tag, k, order = shape_unknown[0]
        found = False
        for g0 in (0, 2, 3, 4, 65534, 65535, 1000, 1001):
            ws, out = native_writegen(rp, g0, 3)
            if ws is None:
                continue
            bad = [(i + 1, w) for i, w in enumerate(ws) if not gen_protocol_ok(*w)]
            if bad:
                i, (start, stores, fin) = bad[0]
                ck.violation('value-protocol:native', 'real ShmWriter::new on a segment left at generation %d, then write() #%d: generation before %d, stored %s (value@memory-before), memory afterwards %d'
                             % (g0, i, start, ['%d@%d' % x for x in stores], fin), {'cmd': 'writegen %d 3' % g0, 'native': out, 'events': order})
                found = True; break
        if not found:
            ck.inconclusive.append('%s, write #%d: event list %s is not of the shape [loads]; generation store; record write; generation store - the value protocol is not decided for it' % (tag, k, order))
    if rp:
        rp.close()
    return not shape_unknown



def check_c11(tier, seed):
    ck = Check('C11', tier, seed)
    stop_start_native(ck, 'C11')
    P = Programs()
    base_cov(ck, P)
    pr = Prover(seed)
    pr.add(P.side())
    # (1) value protocol for every start value, from the event list of write(), for a writer created by the real
    #     ShmWriter::new on a segment left at an arbitrary generation (writer-private state, if any, is chained)
    if not value_protocol(ck, P, pr, tier):
        return ck.finish()
    ck.absorb(pr)
    # the generation never returns to 0 once the segment has been published to: a restarting writer takes over every segment a
    # crash can leave (any non-zero generation, odd included) instead of wiping it
    pru = Prover(seed)
    usable_clause(ck, P, pru, seed)
    ck.absorb(pru, 'restart: ')
    if ck.violations:
        return ck.finish()
    if P.writer_private_state:
        ck.cov['writer_private_state'] = P.writer_private_state
    # (2) as seen by a conforming third-party reader (acquire loads / acquire fence), under RC11:
    #     whoever observes any word of publication k and then (after an acquire fence) the generation, sees the odd
    #     in-flight value or a later one; whoever acquire-reads the final value sees the complete record.
    nq = 0; ts = 0.0
    for N in ([1, 2] if tier == 'quick' else [1, 2, 3]):
        sc = Scenario(P, 'c11n%d' % N); sc.init_classes(('A', 'B', 'C'))
        for _ in range(N):
            sc.publish()
        e = sc.enc
        from mirsym.wmm import REv
        probes = []
        for i in range(NW):
            w = e.r_add(REv('ld', sc.wword_locs[i], 'na', en=z3.BoolVal(True), var=e.fresh('pw'), call=0))
            e.r_add(REv('fence', None, 'acq', en=z3.BoolVal(True), call=0))
            gq = e.r_add(REv('ld', sc.wgen_loc, 'rlx', en=z3.BoolVal(True), var=e.fresh('pg'), call=0))
            probes.append((w, gq))
        # second probe thread (separate call id => no program order link is assumed by floors; CoRR still applies per location,
        # so it is kept in its own scenario below)
        e.finish()
        bad = []
        for w, gq in probes:
            for k in range(1, N + 1):
                first, last = sc.pub_events[k]
                gst = [x for x in e.wev[first:last + 1] if x.kind == 'st' and x.loc == sc.wgen_loc]
                mo = [x for x in e.wev if x.kind == 'st' and x.loc == sc.wgen_loc]
                pos_odd = mo.index(gst[0]) + 1
                bad.append(z3.And(w.var == k, gq.rf < pos_odd))
        r, m, dt, why = sc.solve([z3.Or(bad)], seed); nq += 1; ts += dt
        record(ck, 'N=%d: a reader that saw a word of update k then (acquire fence) loads a generation older than k\'s odd value' % N, r, dt, why, sizes(sc))
        if r == z3.sat:
            desc = describe_model(sc, m, [])
            desc['floors'] = {}
            probs = rc11_consistent(desc)
            if probs:
                ck.inconclusive.append('C11 in-flight model rejected by the independent checker: ' + probs[0])
            else:
                ck.violation('inflight-not-odd', 'a third-party reader can observe data of an update in flight while still loading the previous even generation (no release ordering after the first generation store)', desc)
            break
        sc2 = Scenario(P, 'c11bn%d' % N); sc2.init_classes(('A', 'B', 'C'))
        for _ in range(N):
            sc2.publish()
        e2 = sc2.enc
        gq = e2.r_add(REv('ld', sc2.wgen_loc, 'acq', en=z3.BoolVal(True), var=e2.fresh('pg'), call=0))
        ws = [e2.r_add(REv('ld', sc2.wword_locs[i], 'na', en=z3.BoolVal(True), var=e2.fresh('pw'), call=0)) for i in range(NW)]
        e2.finish()
        bad = []
        mo = [x for x in e2.wev if x.kind == 'st' and x.loc == sc2.wgen_loc]
        for k in range(1, N + 1):
            first, last = sc2.pub_events[k]
            gst = [x for x in e2.wev[first:last + 1] if x.kind == 'st' and x.loc == sc2.wgen_loc]
            pos_even = mo.index(gst[-1]) + 1
            bad.append(z3.And(gq.rf == pos_even, z3.Or([z3.And(w.var < k) for w in ws])))
        r, m, dt, why = sc2.solve([z3.Or(bad)], seed); nq += 1; ts += dt
        record(ck, 'N=%d: a reader that acquire-loads the final generation of update k then reads a word older than k' % N, r, dt, why, sizes(sc2))
        if r == z3.sat:
            desc = describe_model(sc2, m, []); desc['floors'] = {}
            probs = rc11_consistent(desc)
            if probs:
                ck.inconclusive.append('C11 completion model rejected by the independent checker: ' + probs[0])
            else:
                ck.violation('final-before-data', 'the final (even) generation of an update can be observed before its record stores', desc)
            break
    ck.cov['queries'] += nq; ck.cov['evaluations'] += nq; ck.cov['solver_time_s'] = round(ck.cov['solver_time_s'] + ts, 2)
    ck.cov['bounds'] = {'start_generation': 'all 65536 values (symbolic)', 'induction': 'post-state satisfies the idle-state invariant, so histories of any length of completed updates are covered',
                        'third_party_reader_probes': 'N <= %d updates in flight' % (2 if tier == 'quick' else 3)}
    return ck.finish()


# ----------------------------------------------------------------------------------- C18
def c18_loop_by_loop(ck, P, tier, seed):
    """snapshot() with more than one loop: every loop needs its own termination argument (a loop-carried integer that each way
    round strictly decreases and that is bounded below).  A loop without one is run natively against a writer that stopped for
    ever (odd generation from the start / from the second load on) and against a writer that never stops."""
    from mirsym.seqlock import loops_of
    ex = P.snap_ex
    loops = loops_of(ex, P.snap_fn, [Ref(0, 'r')], P.snap_state0.fork())
    pr = Prover(seed); pr.add(ex.side)
    T = z3.BoolVal(True)
    unranked = []
    for lp in loops:
        back = [o for o in lp['outs'] if o.kind == 'stop' and o.at == lp['head']]
        rank = None
        for l, (var, ty) in lp['carried'].items():
            if ty == 'bool':
                continue
            ok = bool(back)
            is_range = isinstance(var, Struct) and len(var.f) == 2 and 'Range<' in ty
            if isinstance(var, Struct) and not is_range:
                continue
            for o in back:
                sv = z3.Solver(); sv.set('timeout', 20000); sv.add(ex.side)
                nv = o.state.mem.get((lp['frame'], l))
                if is_range:
                    # an integer range being consumed: its remaining length is the measure
                    if not (isinstance(nv, Struct) and len(nv.f) == 2):
                        ok = False; break
                    old_m = var.f[1] - var.f[0]; new_m = nv.f[1] - nv.f[0]
                    sv.add(o.state.pcond(), z3.Not(z3.And(new_m <= old_m - 1, old_m >= 1)))
                    if sv.check() != z3.unsat:
                        ok = False; break
                    continue
                if nv is None or not isinstance(nv, z3.ExprRef):
                    ok = False; break
                sv.add(o.state.pcond(), z3.Not(z3.And(nv <= var - 1, var >= 1)))
                if sv.check() != z3.unsat:
                    ok = False; break
            if ok:
                rank = l; break
        kinds = sorted({e.kind for o in lp['outs'] for e in o.state.trace})
        if not back:
            pr.prove('loop at %s: no path returns to its head (not a loop for the extracted paths)' % lp['head'], T, T, need_reach=False)
        elif rank is not None:
            pr.prove('loop at %s: %s is decreased by every way round and positive at the head (events per round: %s)' % (lp['head'], rank, kinds), T, T, need_reach=False)
        else:
            pr.prove('loop at %s: a loop-carried integer is strictly decreased by every way round and bounded below (events per round: %s)' % (lp['head'], kinds), T, z3.BoolVal(False), need_reach=False)
            unranked.append(lp['head'])
    ck.cov['loops_of_snapshot'] = [{'head': lp['head'], 'carried': sorted(lp['carried']), 'ways_round': len([o for o in lp['outs'] if o.kind == 'stop' and o.at == lp['head']])} for lp in loops]
    if unranked:
        rp = common.Replay('release')
        outs = {}
        for cmd in ('snapshot_stall_odd 3000', 'snapshot_stall 3000'):
            outs[cmd] = rp.ask(cmd)
            rp.close(); rp = common.Replay('release')
            if outs[cmd].startswith('timeout'):
                ck.violation('no-ranking-function', 'snapshot() has a loop (at %s) without a bound on its rounds, and the real function did not return against a writer stalled mid-update: %s' % (unranked[0], outs[cmd]),
                             {'cmd': cmd.split()[0], 'native': outs[cmd]})
                break
        else:
            out2 = rp.ask('snapshot_busy 2500000')
            f = dict(x.split('=', 1) for x in out2.split()[1:] if '=' in x) if out2.startswith('ok') else {}
            if f and int(f.get('writer_updates', 0)) >= 2500000:
                ck.violation('no-ranking-function', 'against a continuously updating writer one snapshot() call performed %s generation loads and returned only because the writer stopped after %s updates: its work is not bounded'
                             % (f.get('generation_loads'), f.get('writer_updates')), {'cmd': 'snapshot_busy 2500000', 'native': out2})
            else:
                ck.inconclusive.append('no ranking function for the loop at %s of snapshot(), and the native scenarios returned (%s; busy writer: %s)' % (unranked[0], outs, out2))
        rp.close()
        pr.handled = {n for n, m in pr.failed} if ck.violations else set()
    ck.absorb(pr)
    if not unranked:
        ck.inconclusive.append('snapshot() has %d loops, each with its own bound; the stalled-writer scenarios of this check are built for a single retry loop and were not run' % len(loops))
    ck.cov['bounds'] = {'loops': 'each loop of snapshot() on its own (one round from its head over symbolic loop-carried locals)'}
    return ck.finish()


# system calls of the client's open path: each returns after work bounded by the file itself (no dependence on another process)
OPEN_PATH_ALLOWED = {'open', 'open64', 'openat', 'read', 'pread', 'pread64', 'mmap', 'mmap64', 'munmap', 'close', 'fstat', 'fstat64', 'lseek', 'lseek64', '__errno_location', 'madvise'}
# calls that wait for another process (a lock holder, a peer, a timer): a stopped or dead daemon can hold them for ever
WAITS_FOR_ANOTHER_PROCESS = re.compile(r'^(flock|lockf|fcntl|fcntl64|poll|ppoll|select|pselect|epoll_wait|epoll_pwait|nanosleep|clock_nanosleep|sleep|usleep|wait|waitpid|wait4|sem_wait|sem_timedwait|'
                                       r'pthread_mutex_lock|pthread_cond_wait|pthread_rwlock_rdlock|pthread_rwlock_wrlock|mq_receive|recv|recvfrom|recvmsg|accept|accept4|connect|futex|sigwait|pause|msgrcv|semop)$')


def open_path_blocking(ck, seed):
    """C18 on the path every client call starts with (ShmReader::new, also behind clockbound_open / ClockBoundClient::new): the system
    calls it can reach are read from its MIR; none may be one that waits for another process.  Whatever the symbolic part finds, the
    real ShmReader::new + snapshot() is run in a child process against a segment file on which ANOTHER process holds an exclusive
    lock (flock / POSIX record lock / OFD lock), as a daemon stopped inside a locked region would: it must return."""
    from .segment_files import OpenModel
    from .client_now import load_shm_program
    from mirsym.exec import Event
    seen = {}
    outs = None
    try:
        prog, _w = load_shm_program()
        om = OpenModel(prog)

        def h_other(ex, st, callee, args, fn):
            # a foreign (libc) function the open-path model has no semantics for: recorded, arbitrary result
            name = callee.strip().rsplit('::', 1)[-1]
            seen[name] = seen.get(name, 0) + 1
            st.trace = st.trace + (Event('syscall:' + name, tuple(a for a in args if isinstance(a, z3.ExprRef)), None),)
            return ex.fresh('ret_' + name)
        outs = om.run(extra_env=[(r'^libc::(?!open$|read$|mmap$|close$|munmap$)[a-z_0-9]+$', h_other)])
    except EngineError as e:
        ck.inconclusive.append('open path (ShmReader::new) not executable: %s' % e)
    calls = set(seen)
    if outs is not None:
        for o in outs:
            for e in o.state.trace:
                if e.kind.startswith('syscall:'):
                    calls.add(e.kind[8:])
                elif e.kind in ('open', 'read', 'mmap', 'close', 'munmap'):
                    calls.add(e.kind)
    waits = sorted(c for c in calls if WAITS_FOR_ANOTHER_PROCESS.match(c))
    unknown = sorted(c for c in calls if c not in OPEN_PATH_ALLOWED and not WAITS_FOR_ANOTHER_PROCESS.match(c))
    pr = Prover(seed)
    T = z3.BoolVal(True)
    if outs is not None:
        pr.prove('open path (ShmReader::new, %d paths): the system calls reached are %s: none waits for another process' % (len(outs), sorted(calls)), T, z3.BoolVal(not waits), need_reach=False)
        if unknown:
            ck.inconclusive.append('open path reaches system calls this check has no classification for: %s' % unknown)
    ck.cov['open_path_system_calls'] = sorted(calls)
    # native, standing
    rp = common.Replay('debug')
    runs = []
    hung = None
    for kind in ('flock', 'posix', 'ofd', 'none'):
        out = rp.ask('openlocked %s 3000' % kind)
        runs.append({'lock_held_by_another_process': kind, 'out': out[:160]})
        ck.cov['evaluations'] += 1
        if out.startswith('ok hung') and hung is None:
            hung = (kind, out)
    # a file that ends anywhere inside the header or the record (the daemon died or is stopped part-way through writing it): the open
    # returns (with an error), it never waits for bytes that may not come
    for n_ in list(range(0, 18)) + [40, 71]:
        out = rp.ask('openlocked none 3000 %d' % n_)
        ck.cov['evaluations'] += 1
        if out.startswith('ok hung') and hung is None:
            hung = ('trunc%d' % n_, out)
            runs.append({'file_cut_after_bytes': n_, 'out': out[:160]})
    runs.append({'files_cut_after_n_bytes': 'n = 0..17, 40, 71', 'all_returned': hung is None or not hung[0].startswith('trunc')})
    # the states a daemon that died (or is stopped) during start-up or inside an update leaves the header in
    for stt in ('nogen', 'wiped', 'oddgen'):
        out = rp.ask('openlocked none 3000 72 %s' % stt)
        ck.cov['evaluations'] += 1
        runs.append({'header_state': stt, 'out': out[:120]})
        if out.startswith('ok hung') and hung is None:
            hung = ('state:' + stt, out)
    rp.close()
    ck.cov['native_open_under_lock'] = runs
    if hung:
        kind, out = hung
        if kind.startswith('state:'):
            what = {'nogen': 'has its layout version stamped but no publication yet (generation 0): the daemon died, or is stopped, between the end of ShmWriter::new and its first write', 'wiped': 'is freshly wiped (version 0, generation 0)', 'oddgen': 'has an odd generation (the daemon died inside an update)'}[kind[6:]]
            ck.violation('open-waits-for-the-daemon', 'the segment file %s: a client\'s ShmReader::new() had not returned 3000 ms later - it waits for a daemon that may never come back' % what, {'cmd': 'openlocked none 3000 72 %s' % kind[6:], 'native': out})
            pr.handled = {n for n, m in pr.failed}
            ck.absorb(pr)
            return
        if kind.startswith('trunc'):
            ck.violation('open-spins-on-short-file', 'the segment file ends after %s bytes (the daemon died, or is stopped, part-way through writing it): a client\'s ShmReader::new() had not returned 3000 ms later - it keeps reading for bytes that are not there'
                         % kind[5:], {'cmd': 'openlocked none 3000 %s' % kind[5:], 'native': out})
            pr.handled = {n for n, m in pr.failed}
            ck.absorb(pr)
            return
        ck.violation('open-blocks-on-lock', 'another process (a daemon stopped - not dead - at that point) holds an exclusive %s lock on the segment file: a client\'s ShmReader::new() had not returned 3000 ms later (it waits for that process for as long as it stays stopped)%s'
                     % ({'flock': 'flock()', 'posix': 'POSIX record', 'ofd': 'open-file-description'}[kind], ('; blocking calls on the open path: %s' % waits) if waits else ''), {'cmd': 'openlocked %s 3000' % kind, 'native': out})
        pr.handled = {n for n, m in pr.failed}
    ck.absorb(pr)
    if waits and not hung:
        ck.inconclusive.append('the open path can reach %s (waits for another process) but the native runs under a held lock returned' % waits)


def client_wrappers_bounded(ck, seed):
    """C18 for the calls clients actually make (ClockBoundClient::now, clockbound_now): apart from the one snapshot() call they are
    straight-line code - no loop of their own (a retry around snapshot()/now() would multiply, or remove, the bound on the work of a
    call).  Native, standing: a complete record stamped one hour ahead of the caller's monotonic clock and no daemon: each library's call
    must return (CausalityBreach), in a child process under a watchdog."""
    from .client_now import load_shm_program
    pr = Prover(seed)
    T = z3.BoolVal(True)
    cyc = {}
    try:
        prog, _w = load_shm_program()
        for label, fn in (('ClockBoundClient::now', prog.find1('now', self_ty='ClockBoundClient', crate='clock_bound_client')), ('clockbound_now', prog.find1('clockbound_now', crate='clockbound'))):
            # successor relation of the function's MIR (unwind edges left out), cycle search
            succ = {}
            for bb, stmts in fn.blocks.items():
                if bb in fn.cleanup:
                    continue
                t = stmts[-1]
                tg = set(re.findall(r'\bbb\d+\b', t.split(' -> ', 1)[1] if ' -> ' in t else '')) if not t.startswith('goto') else set(re.findall(r'\bbb\d+\b', t))
                tg -= {x for x in re.findall(r'unwind: (bb\d+)', t)}
                succ[bb] = {x for x in tg if x in fn.blocks and x not in fn.cleanup}
            color = {}
            back = []

            def dfs(u):
                color[u] = 1
                for v in succ.get(u, ()):
                    if color.get(v) == 1:
                        back.append((u, v))
                    elif v not in color:
                        dfs(v)
                color[u] = 2
            dfs('bb0')
            cyc[label] = back
            pr.prove('%s has no loop of its own (its work is one snapshot() call plus straight-line code)' % label, T, z3.BoolVal(not back), need_reach=False)
    except EngineError as e:
        ck.inconclusive.append('client wrappers not found: %s' % e)
    ck.cov['client_wrapper_loops'] = {k: [list(x) for x in v] for k, v in cyc.items()}
    rp = common.Replay('debug')
    runs = {}
    hung = None
    for which in ('rust', 'c'):
        out = rp.ask('nowahead %s 3000' % which)
        runs[which] = out[:140]
        ck.cov['evaluations'] += 1
        if out.startswith('ok hung') and hung is None:
            hung = (which, out)
    # a call that ran out of retries (the daemon died inside an update while the call was copying the record) returns an error after
    # bounded work - and so does the NEXT call on the same client object
    runs2 = {}
    for which, extra in (('rust', ''), ('c', ''), ('rust', ' vclock'), ('c', ' vclock')):
        # vclock: the same under a virtual clock - the calls start 970 ms into a second, every clock read takes 1 ms
        out = rp.ask('nowahead %s 20000 stalled%s' % (which, extra))
        runs2[which + extra] = out[:200]
        ck.cov['evaluations'] += 1
        if out.startswith('ok hung') and hung is None:
            ck.violation('client-call-spins', 'the daemon published a record and died inside its next update while a call of %s was copying the record; the calls on that client object: %s - a call had not returned 20 s later'
                         % (('ClockBoundClient::now()' if which == 'rust' else 'clockbound_now()') + (' (calls starting 970 ms into a second of the clocks, 1 ms per clock read)' if extra else ''), out[out.find(')') + 1:].strip() or 'the first one never returned'), {'cmd': 'nowahead %s 20000 stalled%s' % (which, extra), 'native': out})
            pr.handled = {n for n, m in pr.failed}
            break
        if not out.startswith('ok returned') or 'call2=' not in out:
            ck.inconclusive.append('stalled-writer run of the %s client: %s' % (which, out[:160]))
    ck.cov['native_daemon_died_while_the_call_was_copying'] = runs2
    rp.close()
    ck.cov['native_record_ahead_of_the_clock'] = runs
    if hung:
        which, out = hung
        ck.violation('client-call-spins', 'the segment holds a complete record whose as_of is one hour ahead of the caller\'s monotonic clock and there is no daemon: %s had not returned 3000 ms later (it keeps asking instead of returning the causality error)%s'
                     % ('ClockBoundClient::now()' if which == 'rust' else 'clockbound_now()', ('; loop in the wrapper: %s' % cyc) if any(cyc.values()) else ''), {'cmd': 'nowahead %s 3000' % which, 'native': out})
        pr.handled = {n for n, m in pr.failed}
    ck.absorb(pr)


def check_c18(tier, seed):
    ck = Check('C18', tier, seed)
    pending = None
    try:
        open_path_blocking(ck, seed)
    except EngineError as e:
        pending = e
    if not ck.violations:
        client_wrappers_bounded(ck, seed)
    try:
        if pending is not None:
            raise pending
        return _check_c18_symbolic(ck, tier, seed)
    except EngineError as e:
        if not ck.violations:
            raise
        # outside the encodable fragment; the standing native scenarios above demonstrated a violation
        ck.inconclusive.append('EngineError: %s' % e)
        return ck.finish()


def _check_c18_symbolic(ck, tier, seed):
    P = Programs(tolerate_reader_loops=True)
    if P.snap is None:
        ck.cov['functions_encoded'] = ['ShmReader::snapshot (loop by loop)', 'ShmReader::new']
        return c18_loop_by_loop(ck, P, tier, seed)
    base_cov(ck, P)
    S = P.snap
    pr = Prover(seed); pr.add(P.side())
    T = z3.BoolVal(True)
    for l, (var, ty) in S.carried.items():
        pass
    # (ii) early-return paths and the path to the loop head perform a bounded number of shared accesses
    maxpre = max(len(g.events) for g in S.prefix)
    ck.cov['prefix_max_events'] = maxpre
    if S.head is None:
        pr.prove('snapshot() is loop-free: at most %d shared accesses' % maxpre, T, T, need_reach=False)
        ck.absorb(pr)
        ck.cov['bounds'] = {'loop': 'none'}
        return ck.finish()
    # (i) ranking function: a loop-carried integer that the loop head tests against a lower bound and every
    # back edge strictly decreases
    stops = [(g, a) for g in S.iteration for a in g.alts if a.kind == 'stop']
    rets = [(g, a) for g in S.iteration for a in g.alts if a.kind == 'return']
    maxit = max(len(g.events) for g in S.iteration)
    inner_words = sum(e.args[2] // 8 if e.kind == 'read' else 1 for g in S.iteration for e in g.events) if S.iteration else 0
    rank = None
    for l, (var, ty) in S.carried.items():
        if ty == 'bool':
            continue
        ok = True
        for g, a in stops:
            s = z3.Solver(); s.set('timeout', 20000); s.add(P.side())
            s.add(a.guard, z3.Not(z3.And(a.locals[l] <= var - 1, var >= 1)))
            if s.check() != z3.unsat:
                ok = False; break
        if ok:
            rank = (l, var); break
    if rank is None:
        # the loop may still terminate, but not by the argument this check can make
        r = pr.prove('a loop-carried integer is strictly decreased by every retry and bounded below at the loop head', T, z3.BoolVal(False), need_reach=False)
        # try to exhibit non-termination concretely: a stalled writer (odd generation forever) with the real function natively
        rp = common.Replay('release')
        out = rp.ask('snapshot_stall 3000')
        rp.close()
        if out.startswith('timeout') or out.startswith('hang'):
            ck.violation('no-ranking-function', 'snapshot() did not return within the time limit against a writer stalled mid-update: ' + out, {'cmd': 'snapshot_stall', 'native': out})
        else:
            # second native scenario of the quantifier: a writer that completes an update before every re-check of the reader
            rp = common.Replay('release')
            out2 = rp.ask('snapshot_busy 2500000')
            rp.close()
            f = dict(x.split('=', 1) for x in out2.split()[1:] if '=' in x) if out2.startswith('ok') else {}
            if f and int(f.get('writer_updates', 0)) >= 2500000:
                ck.violation('no-ranking-function', 'against a continuously updating writer one snapshot() call performed %s generation loads and returned only because the writer stopped after %s updates: its work is not bounded'
                             % (f.get('generation_loads'), f.get('writer_updates')), {'cmd': 'snapshot_busy 2500000', 'native': out2})
            else:
                ck.inconclusive.append('no ranking function found for the retry loop, and both native scenarios returned (stalled writer: %s; busy writer: %s)' % (out, out2))
        ck.absorb(pr)
        return ck.finish()
    l, var = rank
    for i, (g, a) in enumerate(stops):
        pr.prove('retry path %d: %s decreases by at least 1 and was positive' % (i, l), a.guard, z3.And(a.locals[l] <= var - 1, var >= 1))
    # when the counter is exhausted the only way on is to return
    for i, (g, a) in enumerate(stops):
        pr.prove('retry path %d is impossible once %s <= 0' % (i, l), z3.And(a.guard, var <= 0), z3.BoolVal(False), need_reach=False)
    # initial value of the ranking variable is a constant read from the MIR
    inits = []
    for g in S.prefix:
        for a in g.alts:
            if a.kind == 'stop':
                v0 = z3.simplify(a.locals[l])
                inits.append(v0.as_long() if z3.is_int_value(v0) else None)
    if not inits or any(x is None for x in inits):
        ck.inconclusive.append('initial value of the retry counter is not a constant')
    else:
        budget = max(inits)
        ck.cov['retry_budget'] = budget
        ck.cov['access_bound_per_call'] = maxpre + budget * inner_words
        pr.prove('retry counter starts at the constant %d: at most %d shared word accesses per call' % (budget, maxpre + budget * inner_words), T, z3.BoolVal(budget < 2 ** 31), need_reach=False)
    # no panic/overflow inside the loop body (e.g. the counter decrement)
    k = 0
    for ob in P.snap_ex.obligations:
        k += 1
        pr.prove('no panic[%d] in snapshot(): %s' % (k, ob.desc), ob.pc, z3.BoolVal(False), need_reach=False)
    # every event kind of the reader is non-blocking
    kinds = sorted({e.kind for g in S.prefix + S.iteration for e in g.events})
    blocking = [x for x in kinds if x not in ('load', 'read', 'fence', 'cfence')]
    pr.prove('reader events are loads and fences only (no blocking primitive, no store): %s' % kinds, T, z3.BoolVal(not blocking), need_reach=False)
    ck.absorb(pr)
    # (iii) stalled writer: W scenarios with a writer that stops for ever inside an update
    nq = 0; ts = 0.0
    N = 1 if tier == 'quick' else 2
    sc = Scenario(P, 'c18'); sc.init_classes(('A', 'B', 'C'))
    crash = z3.Int('crash_point')
    for _ in range(N):
        sc.publish()
    sc.publish(crash=crash)
    sc.enc.add(crash >= 0)
    sgen, cache, floor, ctag = reader_state(sc, 'r0', npub_visible=N)
    R = 2 * (N + 1) + 1
    o = sc.reader_call(sgen, cache, R, floor=floor)
    sc.enc.finish()
    # within the unrolled window the call either returned, or is still retrying with its counter decreased once per iteration:
    # "blocked" = neither returned nor active is impossible
    r, m, dt, why = sc.solve([z3.Not(o['returned']), z3.Not(o['unfinished'])], seed); nq += 1; ts += dt
    record(ck, 'stalled writer (any crash point of update %d): a call is neither returned nor retrying (stuck)' % (N + 1), r, dt, why, sizes(sc))
    if r == z3.sat:
        ck.inconclusive.append('a stuck reader state is satisfiable in the encoding (encoder fault: every path either returns or re-enters the loop)')
    for wname, cond in (('call returns the cached record while the writer is stalled on an odd generation', z3.And(o['ok'], o['iters'] == 0, o['rec'][0] == ctag)),
                        ('call is still retrying after %d iterations (copy started, writer died)' % R, o['unfinished'])):
        r2, m2, dt2, why2 = sc.solve([cond], seed); nq += 1; ts += dt2
        if r2 == z3.sat:
            ck.cov['samples'].append({'witness': wname, 'crash_point': mval(m2, crash), 'solver_s': round(dt2, 3)}); ck.cov['distinct_nontrivial'] += 1
        elif wname.startswith('call returns'):
            ck.inconclusive.append('vacuity witness "%s" unsatisfiable' % wname)
    ck.cov['queries'] += nq; ck.cov['evaluations'] += nq; ck.cov['solver_time_s'] = round(ck.cov['solver_time_s'] + ts, 2)
    ck.cov['bounds'] = {'loop': 'induction over the retry counter (no unrolling bound)', 'stalled_writer_scenarios': 'N=%d completed updates then one update cut at any event (any subset of record words)' % N}
    return ck.finish()


# ----------------------------------------------------------------------------------- C04
def header_validity(P, seed):
    """M's summary of the header checks a (re)starting daemon applies through ShmReader::new:
    ShmHeader::is_valid on the 16 header bytes + the segsize test of ShmReader::new."""
    prog = P.prog
    ex = P.new_exec()
    m0, m1, seg, ver, gen = [z3.Int(n) for n in ('h_magic0', 'h_magic1', 'h_segsize', 'h_version', 'h_generation')]
    hdr = Struct([Struct([m0, m1]), seg, ver, gen])
    st = State(); st.mem[(0, 'h')] = hdr
    fn = prog.find1('is_valid', self_ty='ShmHeader')
    outs = ex.run(fn, [Ref(0, 'h')], st)
    pc, val = Exec.merge_returns(outs)
    dom = [m0 >= 0, m0 < 2 ** 32, m1 >= 0, m1 < 2 ** 32, seg >= 0, seg < 2 ** 32, ver >= 0, ver < 65536, gen >= 0, gen < 65536]
    return dict(vars=(m0, m1, seg, ver, gen), pc=pc, val=val, dom=dom, side=list(ex.side), ex=ex)


def restart_chain_native(ck):
    """standing native scenario: a valid published segment (even or odd generation) goes through three daemon starts with no
    publication in between (each daemon dies before its first write).  Clause (c): taken over in place every time, so the
    generation and the record must be the ones of the last publication; the version must be one attached readers accept."""
    import struct
    from .segment_files import MAGIC0, MAGIC1
    bad = []
    outs = []
    for gen in (2, 7, 65534):
        hdr = struct.pack('<IIIHH', MAGIC0, MAGIC1, 72, 1, gen)
        rec = struct.pack('<qqqqqIIiI', 11, 22, 33, 44, 55, 66, 0, 1, 0)
        cur = (hdr + rec).hex()
        rp = common.Replay('debug')
        chain = []
        for k in range(3):
            out = rp.ask('recreate ' + cur)
            chain.append(out)
            f = dict(x.split('=', 1) for x in out.split()[1:] if '=' in x) if out.startswith('ok') else {}
            if not f.get('bytes'):
                bad.append('start %d over a valid segment (generation %d) failed: %s' % (k + 1, gen, out[:80])); break
            nb = bytes.fromhex(f['bytes'])
            gen_after = struct.unpack('<H', nb[14:16])[0] if len(nb) >= 16 else 0
            # taken over in place: not re-created or emptied (magic and size intact, the generation does not return to 0) and the record
            # is the published one unless the new daemon has itself published over it (generation moved on)
            if len(nb) != 72 or nb[:12] != hdr[:12] or gen_after == 0 or (nb[16:] != rec and gen_after == gen):
                bad.append('daemon start %d in a row without a publication (generation %d): segment not taken over in place, generation/record now %s... (was %s...)' % (
                    k + 1, gen, nb[14:40].hex(), (hdr + rec)[14:40].hex())); break
            cur = f['bytes']
        rp.close()
        outs.append({'generation': gen, 'chain': [c[:60] for c in chain]})
    # the path clients and the daemon use is a symbolic link to the segment file: a restart takes the segment over through the link (same
    # file, same content): it does not replace the link by a new file that attached clients never see
    if not bad:
        hdr = struct.pack('<IIIHH', MAGIC0, MAGIC1, 72, 1, 6)
        rec = struct.pack('<qqqqqIIiI', 11, 22, 33, 44, 55, 66, 0, 1, 0)
        rp = common.Replay('debug')
        out = rp.ask('recreate_link ' + (hdr + rec).hex())
        rp.close()
        f = dict(x.split('=', 1) for x in out.split()[1:] if '=' in x) if out.startswith('ok') else {}
        outs.append({'through_a_symbolic_link': out[:200]})
        if out.startswith('ok') and (f.get('via_link') != (hdr + rec).hex() or f.get('bytes') != (hdr + rec).hex()):
            bad.append('the path is a symbolic link to a valid published segment (generation 6): after the daemon start the file clients have mapped holds %s... and the path leads to %s... (still a link: %s): the valid segment was not taken over in place through the link'
                       % ((f.get('bytes') or '')[24:48], (f.get('via_link') or '')[24:48], f.get('still_link')))
    # a valid published segment whose FILE is longer than header + record (a build that pads the segment, a larger declared size): the
    # readers accept it, so it is live under clients: a restart takes it over in place
    if not bad:
        rec = struct.pack('<qqqqqIIiI', 11, 22, 33, 44, 55, 66, 0, 1, 0)
        rp = common.Replay('debug')
        for declared in (72, 128):
            img = struct.pack('<IIIHH', MAGIC0, MAGIC1, declared, 1, 6) + rec + b'\0' * 56
            out = rp.ask('recreate ' + img.hex())
            f = dict(x.split('=', 1) for x in out.split()[1:] if '=' in x) if out.startswith('ok') else {}
            outs.append({'valid_segment_in_a_128_byte_file_declaring_%d' % declared: out[:120]})
            if out.startswith('ok') and (f.get('bytes') or '')[:144] != img.hex()[:144]:
                bad.append('a valid published segment (generation 6, declared size %d) in a file of 128 bytes - readers accept it, clients may have it mapped - is not taken over in place by the daemon start: header and record afterwards %s... (was %s...)'
                           % (declared, (f.get('bytes') or '')[16:48], img.hex()[16:48]))
                break
        rp.close()
    ck.cov['native_restart_chain'] = outs
    ck.cov['evaluations'] += 12
    # the other half of clause (c): a daemon KILLED at any write of wipe() (cold start, or repair of an unusable file) leaves something
    # the next start repairs: the restarted daemon starts, publishes, and a new client attaches and reads that publication
    rp = common.Replay('debug')
    reps = []
    for prior in ('MISSING', '', 'ab' * 72):
        for limit in (0, 4, 8, 12, 14, 16, 40):
            out = rp.ask('wiperepair %s %d' % (prior, limit))
            f = dict(x.split('=', 1) for x in out.split()[1:] if '=' in x) if out.startswith('ok') else {}
            reps.append({'prior': prior[:8] or 'empty', 'killed_at_bytes': limit, 'out': out[:200]})
            if not out.startswith('ok'):
                continue
            if f.get('restart') != 'ok' or not f.get('reader', '').startswith('Ok:record_bound=4242'):
                bad.append('a daemon starting over %s is killed inside wipe() at the write crossing %d bytes (left behind: %s); the restarted daemon: %s; a new client after its first publication: %s - the unusable segment is not repaired'
                           % ({'MISSING': 'no file', '': 'an empty file'}.get(prior, 'a 72-byte garbage file'), limit, f.get('left'), f.get('restart'), f.get('reader')))
                break
        if bad:
            break
    rp.close()
    ck.cov['native_kill_inside_wipe_then_restart'] = reps
    ck.cov['evaluations'] += len(reps)
    if bad:
        ck.violation('restart-chain', bad[0], {'cmd': 'recreate (three starts in a row) / wiperepair', 'native': outs, 'repair': reps, 'all': bad})
    return bad


def usable_clause(ck, P, pr, seed):
    from .segment_files import OpenModel, MAGIC0, MAGIC1
    prog = P.prog
    om = OpenModel(prog)
    fn = prog.find1('is_usable_segment', self_ty='ShmWriter')
    env = [(r'(^|::)Path::as_os_str$', lambda ex, st, c, a, f: Opaque('osstr')), (r'OsStrExt>::as_bytes$', lambda ex, st, c, a, f: Opaque('bytes')),
           (r'(^|::)CString::new(::<.*>)?$', lambda ex, st, c, a, f: Enum(0, {'Ok': Struct([Opaque('cstring')])})),
           (r'(^|::)CString::as_c_str$', lambda ex, st, c, a, f: Opaque('cstr'))]
    try:
        outs = om.run(fn=fn, args=[Opaque('path')], extra_env=env)
    except EngineError as e:
        ck.inconclusive.append('ShmWriter::is_usable_segment not executable by engine M: %s' % e)
        return
    ex = om.ex
    pr.add(om.domain()); pr.add(ex.side)
    after_crash = z3.And(om.open_ok, om.nread == 16, om.mmap_ok, om.m0 == MAGIC0, om.m1 == MAGIC1, om.seg == P.hdr_size + P.rec_size, om.ver == 1, om.gen != 0)
    if hasattr(om, 'rec'):
        r = om.rec
        pr.add(r.f[5].disc() >= 0, r.f[5].disc() <= 2, r.f[3] >= 0, r.f[3] < 2 ** 32, r.f[4] >= 0, r.f[4] < 2 ** 32)

    def confirm(m):
        import struct
        gen = mval(m, om.gen)
        hdr = struct.pack('<IIIHH', MAGIC0, MAGIC1, 72, 1, gen)
        rec = struct.pack('<qqqqqIIiI', 11, 22, 33, 44, 55, 66, 0, 1, 0)
        rp = common.Replay('debug')
        out = rp.ask('recreate ' + (hdr + rec).hex())
        rp.close()
        f = dict(x.split('=', 1) for x in out.split()[1:] if '=' in x) if out.startswith('ok') else {}
        if f.get('bytes') and f['bytes'] != (hdr + rec).hex():
            ck.violation('valid-segment-wiped', 'ShmWriter::new over a valid published segment with generation %d (%s) does not take it over in place: the file afterwards is %s...' % (
                gen, 'odd: the previous daemon died mid-update' if gen % 2 else 'even', f['bytes'][:48]), {'cmd': 'recreate ' + (hdr + rec).hex(), 'native': out})
            return 'wiped'
        return None
    for i, o in enumerate(outs):
        if o.kind != 'return':
            continue
        v = o.value
        if 'Ok' in v.p and 'Err' in v.p:
            okc = v.disc() == 0
        else:
            okc = z3.BoolVal('Ok' in v.p)
        pr.prove_cegar('is_usable_segment path %d: a published segment in any state a crash can leave (magic, size, version 1, generation != 0, any record) is usable, hence not wiped' % i,
                       z3.And(o.state.pcond(), after_crash), okc, confirm, lambda m: [], hints=[[om.gen == 3], [om.gen == 2]])


def segment_layer_part(ck, seed):
    """for C01 (the pipeline's middle layer, across a daemon crash and restart): what a client call obtains from the segment is one
    complete record the daemon published, never a mixture and never a record whose update was cut short - also when the writer is
    killed at any point of an update and a new writer starts on the same segment while the client keeps calling"""
    P = Programs()
    tasks = crash_restart_tasks(ck, P, [(1, 1)], ck.tier)
    ck.cov.setdefault('functions_encoded', [])
    ck.cov['functions_encoded'] = list(ck.cov['functions_encoded']) + ['ShmWrite::write, ShmWriter::new (restart), ShmReader::snapshot: crash at any event of an update, restart, concurrent reader (engine W)']
    return run_tasks(ck, tasks, seed)


def check_c04(tier, seed):
    ck = Check('C04', tier, seed)
    P = Programs()
    base_cov(ck, P)
    cfgs = [(1, 1)] if tier == 'quick' else [(1, 1), (2, 1), (1, 2)]
    tasks = crash_restart_tasks(ck, P, cfgs, tier)
    return check_c04_rest(ck, P, tasks, cfgs, tier, seed)


def crash_restart_tasks(ck, P, cfgs, tier):
    tasks = []
    # a constructor that itself writes a record into a segment it takes over (e.g. completes an interrupted update with an "Unknown"
    # record) makes a publication of its own: the scenarios below number publications by write() calls only and would rank that record
    # as older than everything.  Not judged here (C11 decides the generation protocol of such a constructor, the native restart chain
    # and the crash natives still run)
    for o in P.writer_new_outs:
        if o.kind == 'return' and 'Ok' in o.value.p and 'wipe' not in [e.kind for e in o.state.trace] and any(e.kind == 'write' for e in o.state.trace):
            ck.inconclusive.append('ShmWriter::new writes a record of its own into a segment it takes over: the crash/restart scenarios (publications numbered by write() calls) are not applied to it')
            return tasks
    for a_pubs, b_pubs in cfgs:
        sc = Scenario(P, 'c04a%db%d' % (a_pubs, b_pubs)); sc.init_classes(('A', 'C'))
        for _ in range(a_pubs):
            sc.publish()
        crash = z3.Int('crash_%d_%d' % (a_pubs, b_pubs))
        kc = sc.publish(crash=crash)
        first, last = sc.pub_events[kc]
        sc.enc.add(crash >= 0, crash <= last - first + 1)
        sc.startup(usable=True)
        for _ in range(b_pubs):
            sc.publish()
        N = sc.npub
        R = 2 * N + 1
        sgen, cache, floor, ctag = reader_state(sc, 'r0', npub_visible=a_pubs)
        outs = []
        sg, ca = sgen, cache
        for i in range(2 if tier == 'thorough' or True else 1):
            o = sc.reader_call(sg, ca, R, floor=floor)
            outs.append(o); sg, ca = o['sgen_out'], o['cache_out']
        q = sc.reader_call(sg, ca, R, floor=z3.IntVal(sc.last_writer_idx()))
        sc.enc.finish()
        allc = outs + [q]
        fin = [z3.Not(o['unfinished']) for o in allc]

        def mk(sc=sc, allc=allc, ctag=ctag, sgen=sgen, crash=crash, kc=kc, first=first, last=last):
            def on_sat(m):
                def judge(desc, rr):
                    ks = [(-4 if mval(m, ctag) == T_DEFAULT else mval(m, ctag))]
                    for x in rr:
                        if x['ok']:
                            if len(set(x['rec'])) > 1 or x['rec'][0] == T_PARTIAL:
                                return True
                            if x['rec'][0] == kc and mval(m, crash) <= last - first:
                                return True
                            ks.append(-4 if x['rec'][0] == T_DEFAULT else x['rec'][0])
                    return any(b_ < a_ for a_, b_ in zip(ks, ks[1:]))
                return confirm_w_model(ck, P, sc, m, allc, 'crash-restart-consistency', 'after a writer crash (after %s events of update %d) and restart, successive snapshot() calls returned tags %s'
                                       % (mval(m, crash), kc, [[mval(m, x) for x in o_['rec']] if mval(m, o_['ok']) else None for o_ in allc]), sgen, ctag, judge)
            return on_sat
        prev = key(ctag)
        lab = '%d updates, crash at any point of the next, restart, %d updates' % (a_pubs, b_pubs)
        for i, o in enumerate(allc):
            rec = o['rec']
            tasks.append(Task('%s: call %d obtains a torn or never-completed record' % (lab, i + 1), sc, fin + [o['ok'], z3.Not(z3.And(all_eq(rec), sc.complete_tag(rec[0])))], on_sat=mk()))
            tasks.append(Task('%s: call %d goes back in publication order' % (lab, i + 1), sc, fin + [o['ok'], key(rec[0]) < prev], on_sat=mk()))
            prev = z3.If(o['ok'], key(rec[0]), prev)
        gfin = sc.enc.wvalue(sc.wgen_loc)
        exc = z3.And(outs[-1]['sgen_out'] == gfin, outs[-1]['cache_out'][0] == T_OLDER)

        def mkb(sc=sc, allc=allc, q=q, N=N, ctag=ctag, sgen=sgen):
            def on_sat(m):
                return confirm_w_model(ck, P, sc, m, allc, 'restart-not-seen', 'a snapshot() ordered after the restarted writer\'s publications returned tags %s' % [mval(m, x) for x in q['rec']], sgen, ctag,
                                       lambda desc, rr: not (rr[-1]['ok'] and rr[-1]['rec'] == [N] * NW))
            return on_sat
        tasks.append(Task('%s: a call ordered after the restarted writer\'s last update does not return it' % lab, sc,
                          fin + [q['returned'], z3.Not(exc), z3.Not(z3.And(q['ok'], all_eq(q['rec']), q['rec'][0] == N))], on_sat=mkb()))
        tasks.append(Task('crash after the first generation store, before any record word', sc, fin + [crash == 2, outs[0]['ok']], 'witness'))
        tasks.append(Task('crash with a strict subset of the record words written', sc, fin + [crash > 3, crash < last - first, q['ok']], 'witness'))
        tasks.append(Task('reader accepts a publication of the restarted writer', sc, fin + [outs[1]['ok'], outs[1]['rec'][0] == N], 'witness'))
    return tasks


def check_c04_rest(ck, P, tasks, cfgs, tier, seed):
    # a segment left unusable (wiped: version 0, generation 0) by a daemon that died during start-up: the restarted daemon
    # wipes again, maps, stores the version, publishes; a NEW client attaching after that publication reads it back.
    # (No client can have been attached to a segment that was never valid, so the reader here is a fresh one.)
    sc = Scenario(P, 'c04w'); sc.init_classes(('C',), wiped_version=(0,))
    sc.startup(usable=False)
    sc.publish()
    q = sc.reader_call(z3.IntVal(0), [z3.IntVal(T_DEFAULT)] * NW, 3, floor=z3.IntVal(sc.last_writer_idx()))
    sc.enc.finish()
    fin = [z3.Not(q['unfinished'])]

    def on_sat_w(m, sc=sc, q=q):
        return confirm_w_model(ck, P, sc, m, [q], 'wiped-restart-not-seen', 'after a restart over a wiped segment and one publication, a new reader ordered after it returned tags %s' % [mval(m, x) for x in q['rec']],
                               None, None, lambda desc, rr: not (rr[-1]['ok'] and rr[-1]['rec'] == [1] * NW))
    tasks.append(Task('wiped segment, restart, 1 update: a new reader attaching after the update does not read it back', sc,
                      fin + [z3.Not(z3.And(q['ok'], all_eq(q['rec']), q['rec'][0] == 1))], on_sat=on_sat_w))
    tasks.append(Task('wiped segment: the new reader accepts publication 1', sc, fin + [q['ok'], q['rec'][0] == 1], 'witness'))
    run_tasks(ck, tasks, seed)
    # (c) a segment that was valid before the crash is still usable afterwards => ShmWriter::new does not wipe it
    H = header_validity(P, seed)
    pr = Prover(seed); pr.add(H['dom']); pr.add(H['side']); pr.add(P.side())
    m0, m1, seg, ver, gen = H['vars']
    val = H['val']
    magic = P.prog
    reachable_after_crash = z3.And(m0 == 0x414D5A4E, m1 == 0x43420200, seg == P.hdr_size + P.rec_size, ver == 1, gen != 0)
    pr.prove('every header state a crashed writer can leave behind in a previously published segment (magic, size, version 1, any non-zero generation, odd or even) passes ShmHeader::is_valid',
             z3.And(H['pc'], reachable_after_crash), val.disc() == 0)
    # the segsize test of ShmReader::new
    pr.prove('ShmReader::new accepts the declared size header+record', P.reader_new_segsize == P.hdr_size + P.rec_size, P.reader_new_cond, need_reach=True) if False else None
    s = z3.Solver(); s.add(P.reader_new_side); s.add(P.reader_new_segsize == P.hdr_size + P.rec_size, z3.Not(P.reader_new_cond))
    r = s.check()
    record(ck, 'ShmReader::new (used by is_usable_segment) accepts a mapping of exactly header+record bytes', r, 0.0, '')
    # the daemon's own usability test, executed from its MIR (it decides whether the segment is wiped): every segment a crash can
    # leave behind after at least one publication - any non-zero generation, odd or even, ANY record content - must be kept
    usable_clause(ck, P, pr, seed)
    # a start-up cut short inside wipe() must not leave a file clients can open (they would read a record nobody published)
    try:
        from .segment_files import wipe_crash_part
        wipe_crash_part(ck, P.prog, seed)
    except EngineError as e:
        ck.inconclusive.append('crash inside wipe(): %s' % e)
    # control dependence in ShmWriter::new: wipe is called only when is_usable_segment failed; the version store follows on every success path
    usable, wipe_ok = P.writer_new_vars
    for pc, trace, v in P.writer_new_paths:
        names = [e.kind for e in trace]
        has_wipe = 'wipe' in names
        pr.prove('ShmWriter::new path %s: wipe is reached only if the segment was not usable' % names, z3.And(pc, z3.BoolVal(has_wipe)), z3.Not(usable), need_reach=False)
        if 'Ok' in v.p and 'Err' not in v.p:
            vst = [e for e in trace if e.kind == 'store' and (e.args[1], e.args[2]) == (P.wptr_version.off, 2)]
            okv = len(vst) >= 1 and z3.is_int_value(z3.simplify(vst[-1].info['val'])) and z3.simplify(vst[-1].info['val']).as_long() != 0
            pr.prove('ShmWriter::new success path %s leaves a non-zero layout version in the segment' % names, pc, z3.BoolVal(bool(okv)), need_reach=False)
            if has_wipe:
                pr.prove('after a wipe, mapping and version store still follow', pc, z3.BoolVal(names.index('wipe') < names.index('mmap_segment_at')), need_reach=False)
    ck.absorb(pr)
    chain_bad = restart_chain_native(ck)
    if pr.failed:
        for name, mm in pr.failed:
            if chain_bad and 'layout version' in name:
                continue
            ck.inconclusive.append('usability clause failed in the encoding (no native replay wired for it): ' + name[:120])
    ck.cov['bounds'] = {'(updates before the crash, updates after the restart)': cfgs, 'crash': 'after any event of the interrupted update, any subset of its record words',
                        'reader': '2 concurrent calls + 1 call ordered after everything, any reader state satisfying the history invariant', 'retry_loop_unrolling': 'R = 2N+1',
                        'outside': 'file-system clauses (inode identity, truncate/create, directories): DESIGN.md section 7; crash inside ShmWriter::new before the mapping exists has no shared-memory event'}
    return ck.finish()
