"""./check driver"""
import argparse
import os
import sys
import traceback

from mirsym.values import EngineError
from .common import Inconclusive, Check


def dispatch(prop, tier, seed):
    if prop in ('C05', 'C06', 'C14'):
        from . import client_now
        return client_now.run_check(prop, tier, seed)
    if prop in ('C02', 'C03', 'C04', 'C11', 'C18'):
        from . import seqlock_checks
        return getattr(seqlock_checks, 'check_' + prop.lower())(tier, seed)
    if prop in ('C07', 'C10'):
        from . import daemon_extract
        return getattr(daemon_extract, 'check_' + prop.lower())(tier, seed)
    if prop in ('C08', 'C09'):
        from . import daemon_updater
        return daemon_updater.run_check(prop, tier, seed)
    if prop in ('C12', 'C13'):
        from . import daemon_poller
        return getattr(daemon_poller, 'check_' + prop.lower())(tier, seed)
    if prop == 'C19':
        from . import drift_cli
        return drift_cli.run_check(tier, seed)
    if prop == 'C16':
        from . import segment_files
        return segment_files.check_c16(tier, seed)
    if prop == 'C17':
        from . import abi_layout
        return abi_layout.run_check(tier, seed)
    if prop == 'C15':
        from . import thread_exit
        return thread_exit.run_check(tier, seed)
    if prop == 'C01':
        from . import end_to_end
        return end_to_end.run_check(tier, seed)
    raise SystemExit('no check for ' + prop)


def main():
    ap = argparse.ArgumentParser()
    ap.add_argument('prop')
    ap.add_argument('--tier', default=os.environ.get('VERIF_TIER', 'quick'))
    ap.add_argument('--replay')
    a = ap.parse_args()
    seed = int(os.environ.get('VERIF_SEED', '0') or 0)
    tier = a.tier if a.tier in ('quick', 'thorough') else 'quick'
    if tier == 'thorough' and not os.environ.get('VERIF_CROSS_EVERY'):
        os.environ['VERIF_CROSS_EVERY'] = '7'
    if a.replay:
        from . import replay_cmd
        sys.exit(replay_cmd.replay(a.prop, a.replay))
    try:
        rc = dispatch(a.prop, tier, seed)
    except (Inconclusive, EngineError) as e:
        # an encoder limitation or a failed build is never reported as a pass or as a violation
        print('INCONCLUSIVE property=%s %s: %s' % (a.prop, type(e).__name__, str(e)[:1500]))
        ck = Check(a.prop, tier, seed)
        ck.inconclusive.append('%s: %s' % (type(e).__name__, str(e)[:500]))
        ck.cov['evaluations'] = 1; ck.cov['distinct_nontrivial'] = 0
        ck.finish()
        rc = 2
    except Exception:
        traceback.print_exc()
        print('INCONCLUSIVE property=%s internal error' % a.prop)
        rc = 2
    sys.exit(rc)


if __name__ == '__main__':
    main()
