"""Engine K: run a Kani harness of /verif/kani against the current repository; on failure extract the concrete input with
Kani's concrete playback."""
import os
import re
import time

from . import common


def harness_dir():
    src = os.path.join(common.VERIF, 'kani')
    if common.REPO == '/repo':
        return src
    tag = re.sub(r'[^A-Za-z0-9]+', '_', common.REPO).strip('_')
    dst = os.path.join(common.BUILD, 'kani-src-' + tag)
    os.makedirs(os.path.join(dst, 'src'), exist_ok=True)
    for rel in ('Cargo.toml', 'Cargo.lock', 'src/lib.rs', 'env_model.c'):
        txt = open(os.path.join(src, rel)).read().replace('"/repo/', '"%s/' % common.REPO)
        common._write_if_changed(os.path.join(dst, rel), txt)
    return dst


def run_kani(harness, timeout=1500, playback=False, extra=()):
    d = harness_dir()
    tdir = os.path.join(common.BUILD, 'kani-nocfg' + ('' if common.REPO == '/repo' else '-' + re.sub(r'[^A-Za-z0-9]+', '_', common.REPO).strip('_')))
    cmd = ['cargo', 'kani', '--harness', harness, '--target-dir', tdir] + list(extra)
    if playback:
        cmd += ['-Z', 'concrete-playback', '--concrete-playback=print']
    t0 = time.time()
    try:
        # no hook is needed by the harnesses (and Kani 0.68 ICEs on the cfg-gated atomic shim): the production configuration is what is compiled
        p = common.run(cmd, cwd=d, timeout=timeout, check=False)
        out = (p.stdout or '') + (p.stderr or '')
    except Exception as e:        # noqa  (timeout)
        return {'verdict': 'timeout', 'wall_s': round(time.time() - t0, 1), 'out': str(e)[-500:]}
    res = {'wall_s': round(time.time() - t0, 1)}
    if 'VERIFICATION:- SUCCESSFUL' in out:
        res['verdict'] = 'successful'
    elif 'VERIFICATION:- FAILED' in out:
        res['verdict'] = 'failed'
        res['failed_checks'] = re.findall(r'Failed Checks: (.*)', out)[:5]
    else:
        res['verdict'] = 'error'; res['out'] = out[-800:]
    m = re.search(r'\*\* (\d+) of (\d+) failed', out)
    if m:
        res['checks'] = int(m.group(2)); res['failed'] = int(m.group(1))
    m = re.search(r'\*\* (\d+) of (\d+) cover properties satisfied', out)
    if m:
        res['covers'] = (int(m.group(1)), int(m.group(2)))
    m = re.search(r'Verification Time: ([\d.]+)s', out)
    if m:
        res['solver_s'] = float(m.group(1))
    if playback:
        vecs = re.findall(r'vec!\[([\d, ]*)\]', out)
        res['playback_bytes'] = [[int(x) for x in v.split(',') if x.strip()] for v in vecs]
    return res
