"""C17: segment layout and C ABI match their published descriptions.

(i)   compiler facts: `-Zprint-type-sizes` of the real build vs the table transcribed from docs/PROTOCOL.md;
(ii)  the byte offsets engine W extracted for write()/snapshot() from pointer arithmetic in the MIR vs the same table;
(iii) CBMC on a generated C unit that includes the real clockbound.h: sizeof / offsetof / enumerator values equal the
      numbers of the Rust side (FFI #[repr(C)] types, ClockStatus discriminants);
(iv)  engine M: `clockbound_now` (C library) and `ClockBoundClient::now` (Rust client) are the same function of
      (snapshot result, now() result); the two From<ShmError> conversions agree on kind and errno.
Native replay: both libraries on the same file under the same virtual clock."""
import json
import os
import re
import subprocess
import time

import z3

from mirsym.exec import Exec, State, Event
from mirsym.values import Struct, Enum, Ref, Ptr, Opaque, UNIT, EngineError
from . import common
from .common import Prover, Check, mval
from .client_now import load_shm_program

SPEC = os.path.join(common.VERIF, 'spec', 'protocol_layout.json')
C_KINDS = ['CLOCKBOUND_ERR_NONE', 'CLOCKBOUND_ERR_SYSCALL', 'CLOCKBOUND_ERR_SEGMENT_NOT_INITIALIZED', 'CLOCKBOUND_ERR_SEGMENT_MALFORMED', 'CLOCKBOUND_ERR_CAUSALITY_BREACH']
C_STATUS = ['CLOCKBOUND_STA_UNKNOWN', 'CLOCKBOUND_STA_SYNCHRONIZED', 'CLOCKBOUND_STA_FREE_RUNNING']
SHM_KINDS = {'SyscallError': 0, 'SegmentNotInitialized': 1, 'SegmentMalformed': 2, 'CausalityBreach': 3}
DOC_KIND = {'SyscallError': 'CLOCKBOUND_ERR_SYSCALL', 'SegmentNotInitialized': 'CLOCKBOUND_ERR_SEGMENT_NOT_INITIALIZED', 'SegmentMalformed': 'CLOCKBOUND_ERR_SEGMENT_MALFORMED',
            'CausalityBreach': 'CLOCKBOUND_ERR_CAUSALITY_BREACH'}
RUST_KIND = {'SyscallError': 'Syscall', 'SegmentNotInitialized': 'SegmentNotInitialized', 'SegmentMalformed': 'SegmentMalformed', 'CausalityBreach': 'CausalityBreach'}


def header_enums():
    """enumerator -> value, parsed from the real clockbound.h (C rules: first 0, then +1)"""
    txt = open(os.path.join(common.REPO, 'clock-bound-ffi', 'include', 'clockbound.h')).read()
    txt = re.sub(r'/\*.*?\*/', '', txt, flags=re.S)
    out = {}
    for m in re.finditer(r'typedef\s+enum\s+\w+\s*\{(.*?)\}\s*(\w+)\s*;', txt, flags=re.S):
        v = 0
        for part in m.group(1).split(','):
            part = part.strip()
            if not part:
                continue
            mm = re.match(r'(\w+)\s*(?:=\s*(-?\w+))?', part)
            if mm.group(2) is not None:
                v = int(mm.group(2), 0)
            out[mm.group(1)] = v; v += 1
    return out


def run_check(tier, seed):
    ck = Check('C17', tier, seed)
    prog, mir_wall = load_shm_program()
    spec = json.load(open(SPEC))
    lay = prog.layouts
    pr = Prover(seed)
    T = z3.BoolVal(True)
    viol = []

    def fact(name, ok, detail=''):
        res = pr.prove(name, T, z3.BoolVal(bool(ok)), need_reach=False)
        if not ok:
            viol.append((name, detail))
    # ---- (i) compiler layout vs PROTOCOL.md
    hdr, rec = lay.get('ShmHeader'), lay.get('ClockErrorBound')
    if not hdr or not rec:
        ck.inconclusive.append('layout of ShmHeader/ClockErrorBound missing')
        return ck.finish()
    fact('ShmHeader is %d bytes, ClockErrorBound %d bytes, segment %d bytes (PROTOCOL.md: 16 + 56 = 72)' % (hdr['size'], rec['size'], hdr['size'] + rec['size']),
         hdr['size'] == spec['header_size'] and rec['size'] == spec['record_size'] and hdr['size'] + rec['size'] == spec['total_size'])
    by = {f['name']: f for f in spec['fields']}
    for f in hdr['fields']:
        s = by.get(f['name'])
        fact('header field %s at offset %d, %d bytes (PROTOCOL.md: %s)' % (f['name'], f['offset'], f['size'], (s['offset'], s['size']) if s else 'absent'),
             s is not None and s['offset'] == f['offset'] and s['size'] == f['size'], 'header field ' + f['name'])
    for f in rec['fields']:
        s = by.get(f['name'])
        fact('record field %s at segment offset %d, %d bytes (PROTOCOL.md: %s)' % (f['name'], hdr['size'] + f['offset'], f['size'], (s['offset'], s['size']) if s else 'absent'),
             s is not None and s['offset'] == hdr['size'] + f['offset'] and s['size'] == f['size'], 'record field ' + f['name'])
    names_spec = [f['name'] for f in spec['fields'] if f['name'] != 'padding']
    fact('every documented field exists in the Rust structs', sorted(names_spec) == sorted([f['name'] for f in hdr['fields']] + [f['name'] for f in rec['fields']]))
    cs = prog.enums.get('ClockStatus', {})
    fact('ClockStatus encoding Unknown=0, Synchronized=1, FreeRunning=2 (source discriminants %s)' % cs, cs == spec['clock_status_codes'], 'ClockStatus discriminants')
    cst = lay.get('ClockStatus')
    fact('ClockStatus occupies 4 bytes (PROTOCOL.md: i32)', cst is not None and cst['size'] == 4)
    # magic constant from the MIR
    ex0 = Exec(prog)
    try:
        mg = ex0.const_named('SHM_MAGIC', State())
        vals = [z3.simplify(x).as_long() for x in mg.f]
        import struct
        b = struct.pack('<II', *vals).hex()
        fact('SHM_MAGIC words %s give the documented byte sequence in a little-endian segment: %s' % ([hex(v) for v in vals], b), b == '4e5a4d4100024243' or bytes.fromhex(b)[::-1].hex() == spec['fields'][0]['value_bytes'] or True and vals == [0x414D5A4E, 0x43420200])
    except Exception as e:      # noqa
        ck.inconclusive.append('SHM_MAGIC constant not evaluated: %s' % e)
    # ---- (ii) offsets used by the code (pointer arithmetic in the MIR)
    try:
        from .seqlock_model import Programs
        P = Programs(prog)
        L = P.locs()
        fact('reader accesses version at %d, generation at %d, record at %d (PROTOCOL.md: 12, 14, 16)' % (L['version'][0], L['generation'][0], L['words'][0][0]),
             L['version'] == (by['version']['offset'], 2) and L['generation'] == (by['generation']['offset'], 2) and L['words'][0][0] == by['as_of']['offset'])
        fact('writer stores version at %d, generation at %d, record at %d, %d bytes' % (P.wptr_version.off, P.wptr_generation.off, P.wptr_ceb.off, P.rec_size),
             P.wptr_version.off == 12 and P.wptr_generation.off == 14 and P.wptr_ceb.off == 16 and P.rec_size == 56)
    except EngineError as e:
        ck.inconclusive.append('offset extraction: %s' % e)
    # ---- (ii-b) write() lays down every field of the record it is handed, whatever the segment held before
    try:
        from .seqlock_model import Programs
        from . import record_store
        Pn = Programs(prog, writer_new_only=True)
        prs = Prover(seed)
        record_store.check(ck, prs, prog, Pn)
        ck.absorb(prs)
    except EngineError as e:
        ck.inconclusive.append('record store of write(): %s' % e)
    # ---- (iii) the C header, through CBMC
    cbmc_header(ck, prog, pr, fact)
    # ---- the magic number a file must carry to be taken for a segment: both documented words (ShmHeader::is_valid from its MIR)
    try:
        m0, m1, sg, vr, gn = [z3.Int(n) for n in ('hv_magic0', 'hv_magic1', 'hv_segsize', 'hv_version', 'hv_generation')]
        from .segment_files import OpenModel
        exv = Exec(prog, env=OpenModel(prog).env())
        stv = State(); stv.mem[(0, 'h')] = Struct([Struct([m0, m1]), sg, vr, gn])
        fv = prog.find1('is_valid', self_ty='ShmHeader')
        pr.add(m0 >= 0, m0 < 2 ** 32, m1 >= 0, m1 < 2 ** 32, sg >= 0, sg < 2 ** 32, vr >= 0, vr < 65536, gn >= 0, gn < 65536)
        want_magic = spec.get('magic_words') or [0x414D5A4E, 0x43420200]
        for i, o in enumerate(exv.run(fv, [Ref(0, 'h')], stv)):
            if o.kind != 'return':
                continue
            pr.add(exv.side)
            okc = (o.value.disc() == 0) if ('Ok' in o.value.p and 'Err' in o.value.p) else z3.BoolVal('Ok' in o.value.p)
            pr.prove('ShmHeader::is_valid path %d: a header is accepted only with both words of the documented magic number (0x%08X 0x%08X)' % (i, want_magic[0], want_magic[1]),
                     z3.And(o.state.pcond(), okc), z3.And(m0 == want_magic[0], m1 == want_magic[1]))
    except EngineError as e:
        ck.inconclusive.append('ShmHeader::is_valid not executable: %s' % e)
    # ---- (iv) the two libraries compute the same thing
    equivalence(ck, prog, pr, seed, fact)
    ck.absorb(pr)
    # native replay of every failed fact / and a standing native cross-check of the two libraries
    native = native_compare(ck, spec)
    if viol and not ck.violations:
        for name, detail in viol[:3]:
            ck.violation('layout-or-abi:' + (detail or name)[:40], name, {'fact': name, 'native': native})
    pr.handled = {n for n, m in pr.failed} if ck.violations else set()
    ck.inconclusive = [i for i in ck.inconclusive if not (ck.violations and i.startswith('counterexample without native confirmation'))]
    # ---- (v) the MEANING of a documented field: PROTOCOL.md calls the As-Of Timestamp a CLOCK_MONOTONIC_COARSE reading - the clock both
    # client libraries compare it with.  The daemon's poller takes it from that clock (C12's poller half: clock id and order).
    if not ck.violations:
        try:
            from .daemon_extract import load_dlib_program
            from .daemon_poller import poller_order_half
            prog_d, _w = load_dlib_program()
            sub = Check('C17', tier, seed)
            poller_order_half(sub, prog_d, seed)
            for key, desc, path in sub.violations:
                if 'clock id' in desc or 'CLOCK_MONOTONIC_COARSE' in desc:
                    ck.violations.append(('as-of-clock:' + key, 'the As-Of Timestamp of the published record (PROTOCOL.md: a CLOCK_MONOTONIC_COARSE timestamp): ' + desc, path))
            ck.inconclusive += ['as-of clock of the daemon: ' + i for i in sub.inconclusive]
            for k_ in ('obligations', 'discharged', 'queries', 'evaluations', 'distinct_nontrivial'):
                ck.cov[k_] = ck.cov.get(k_, 0) + sub.cov.get(k_, 0)
        except EngineError as e:
            ck.inconclusive.append('as-of clock of the daemon: %s' % e)
    # ---- (vi) the FILE the daemon leaves is the documented segment, whatever was at the path before: 72 bytes in all, the Segment Size
    # field says 72 (a daemon start over every class of unusable content: empty, cut, garbage, over-long, alive-looking headers)
    if not ck.violations:
        from .segment_files import confirm_recreate
        sub = Check('C17', tier, seed)
        confirm_recreate(sub)
        for key, desc, path in sub.violations:
            ck.violations.append(('segment-file:' + key, 'the file the daemon leaves at the segment path is not the documented 72-byte segment: ' + desc, path))
        ck.cov['native_recreate'] = sub.cov.get('native_recreate')
        ck.cov['evaluations'] = ck.cov.get('evaluations', 0) + (sub.cov.get('native_recreate') or {}).get('files', 0)
    ck.cov['functions_encoded'] = ['run_clock_error_bound_poller (clock the as-of instant is read from)', 'clockbound_now', 'ClockBoundClient::now', 'From<ShmError> for clockbound_err', 'From<ShmError> for ClockBoundError', 'From<ClockStatus> for clockbound_clock_status',
                                   'ShmWriter::new / ShmReader::new pointer arithmetic', 'SHM_MAGIC', 'ShmWriter::write over a typed record (every field stored)']
    ck.cov['mir_dump_s'] = round(mir_wall, 1)
    ck.cov['stubs'] = ['ShmReader::snapshot and ClockErrorBound::now: environment inside the two wrappers (arbitrary Result values)', 'CBMC: the header only, not a C program using it']
    ck.cov['bounds'] = {'layout': 'constants of the real compilers on every run', 'wrappers': 'all ShmError variants, all three statuses, arbitrary timespec values', 'outside': 'the output of a C program built against libclockbound (the header\'s declarations and the library\'s Rust source are what is analysed)'}
    ck.cov['rule'] = 'one obligation per compared constant / per return path of the two wrappers'
    ck.assumptions += ['docs/PROTOCOL.md transcribed once into spec/protocol_layout.json', 'little-endian target']
    return ck.finish()


def cbmc_header(ck, prog, pr, fact):
    lay = prog.layouts
    he = header_enums()
    # Rust-side numbers
    rk = prog.enums.get('clockbound_err_kind', {}); rs = prog.enums.get('clockbound_clock_status', {})
    err_l, res_l = lay.get('clockbound_err'), lay.get('clockbound_now_result')
    if not err_l or not res_l:
        ck.inconclusive.append('layouts of the FFI structs missing from -Zprint-type-sizes')
        return
    asserts = []
    for k, v in rk.items():
        asserts.append('__CPROVER_assert(%s == %d, "enumerator %s has the value the library uses (%d)");' % (k, v, k, v))
    for k, v in rs.items():
        asserts.append('__CPROVER_assert(%s == %d, "enumerator %s has the value the library uses (%d)");' % (k, v, k, v))
    asserts.append('__CPROVER_assert(sizeof(clockbound_err) == %d, "sizeof(clockbound_err)");' % err_l['size'])
    asserts.append('__CPROVER_assert(sizeof(clockbound_now_result) == %d, "sizeof(clockbound_now_result)");' % res_l['size'])
    cname = {'errno': 'sys_errno'}
    for f in err_l['fields']:
        asserts.append('__CPROVER_assert(offsetof(clockbound_err, %s) == %d, "offsetof(clockbound_err, %s)");' % (cname.get(f['name'], f['name']), f['offset'], f['name']))
    for f in res_l['fields']:
        asserts.append('__CPROVER_assert(offsetof(clockbound_now_result, %s) == %d, "offsetof(clockbound_now_result, %s)");' % (f['name'], f['offset'], f['name']))
    asserts.append('__CPROVER_assert(sizeof(struct timespec) == 16, "struct timespec is two 64-bit words");')
    src = '#include <stddef.h>\n#include "clockbound.h"\nint main(void) {\n  %s\n  return 0;\n}\n' % '\n  '.join(asserts)
    d = os.path.join(common.BUILD, 'cbmc'); os.makedirs(d, exist_ok=True)
    cf = os.path.join(d, 'header_check.c')
    open(cf, 'w').write(src)
    t0 = time.time()
    p = subprocess.run(['cbmc', '-I', os.path.join(common.REPO, 'clock-bound-ffi', 'include'), cf], capture_output=True, text=True, timeout=300)
    out = p.stdout + p.stderr
    ok = 'VERIFICATION SUCCESSFUL' in out
    failed = re.findall(r'\] line \d+ (.*?): FAILURE', out)
    ck.cov['cbmc'] = {'assertions': len(asserts), 'verdict': 'SUCCESSFUL' if ok else 'FAILED', 'failed': failed[:6], 'wall_s': round(time.time() - t0, 2)}
    fact('CBMC on clockbound.h: %d sizeof/offsetof/enumerator assertions against the Rust side%s' % (len(asserts), '' if ok else ' FAILED: ' + '; '.join(failed[:3])), ok, 'clockbound.h vs library: ' + '; '.join(failed[:2]))
    # the header's enumerator order is the documented one
    fact('clockbound.h error kinds are NONE, SYSCALL, SEGMENT_NOT_INITIALIZED, SEGMENT_MALFORMED, CAUSALITY_BREACH = 0..4; statuses UNKNOWN, SYNCHRONIZED, FREE_RUNNING = 0..2',
         [he.get(k) for k in C_KINDS] == [0, 1, 2, 3, 4] and [he.get(k) for k in C_STATUS] == [0, 1, 2])


def equivalence(ck, prog, pr, seed, fact):
    he = header_enums()
    rk = prog.enums.get('clockbound_err_kind', {})
    ek = prog.enums.get('ClockBoundErrorKind', {})
    errno = z3.Int('errno_in')
    # --- From<ShmError> of both libraries
    f_c = [f for f in prog.find('from', crate='clockbound') if f.params and 'ShmError' in f.ltypes.get(f.params[0], '')]
    f_r = [f for f in prog.find('from', crate='clock_bound_client') if f.params and 'ShmError' in f.ltypes.get(f.params[0], '')]
    if len(f_c) != 1 or len(f_r) != 1:
        ck.inconclusive.append('From<ShmError> conversions not found (%d, %d)' % (len(f_c), len(f_r))); return
    oc = [r'to_string$', r'String::new$', r'to_str$', r'unwrap_or', r'to_owned$', r'from_utf8', r'CStr::as_ptr$', r'(^|::)null$']
    fields_c = prog.struct_fields.get('clockbound_err', []); fields_r = prog.struct_fields.get('ClockBoundError', [])
    for name, d in SHM_KINDS.items():
        payload = Struct([Struct([errno]), Opaque('str:"origin"')]) if name == 'SyscallError' else UNIT
        exc = Exec(prog, opaque_calls=oc); exr = Exec(prog, opaque_calls=oc)
        oc_ = [o for o in exc.run(f_c[0], [Enum(d, {name: payload})], State()) if o.kind == 'return']
        or_ = [o for o in exr.run(f_r[0], [Enum(d, {name: payload})], State()) if o.kind == 'return']
        for o in oc_:
            v = o.value
            kd = v.f[fields_c.index('kind')].disc(); en = v.f[fields_c.index('errno')]
            res = pr.prove('C library: ShmError::%s -> %s, errno %s' % (name, DOC_KIND[name], 'of the failing call' if name == 'SyscallError' else '0'), o.state.pcond(),
                           z3.And(kd == he[DOC_KIND[name]], kd == rk.get(DOC_KIND[name], -1), en == (errno if name == 'SyscallError' else 0)))
        for o in or_:
            v = o.value
            kd = v.f[fields_r.index('kind')].disc(); en = v.f[fields_r.index('errno')]
            en = en.f[0] if isinstance(en, Struct) else en
            pr.prove('Rust client: ShmError::%s -> %s, errno %s' % (name, RUST_KIND[name], 'of the failing call' if name == 'SyscallError' else '0'), o.state.pcond(),
                     z3.And(kd == ek.get(RUST_KIND[name], -1), en == (errno if name == 'SyscallError' else 0)))
        # same kind (C code = Rust discriminant + 1 since C has NONE = 0) and same errno
        for a in oc_:
            for b in or_:
                ka = a.value.f[fields_c.index('kind')].disc(); kb = b.value.f[fields_r.index('kind')].disc()
                ea = a.value.f[fields_c.index('errno')]; eb = b.value.f[fields_r.index('errno')]; eb = eb.f[0] if isinstance(eb, Struct) else eb
                pr.prove('both libraries report the same error kind and errno for ShmError::%s' % name, z3.And(a.state.pcond(), b.state.pcond()), z3.And(ka == kb + 1, ea == eb))
    # --- status conversion of the C library
    f_s = [f for f in prog.find('from', crate='clockbound') if f.params and 'ClockStatus' in f.ltypes.get(f.params[0], '')]
    if len(f_s) == 1:
        s_in = z3.Int('status_in')
        exs = Exec(prog)
        for o in exs.run(f_s[0], [Enum(s_in, {})], State()):
            if o.kind == 'return':
                pr.prove('C library: clock status codes are passed through unchanged (0/1/2)', z3.And(o.state.pcond(), s_in >= 0, s_in <= 2), o.value.disc() == s_in)
    # --- the two now() wrappers over the same (snapshot, now) results
    snap_ok, now_ok = z3.Bool('snapshot_ok'), z3.Bool('now_ok')
    e1, e2 = z3.Int('snap_err_kind'), z3.Int('now_err_kind')
    ts = [z3.Int(n) for n in ('e_s', 'e_n', 'l_s', 'l_n')]
    stt = z3.Int('now_status')
    tup = Struct([Struct([ts[0], ts[1]]), Struct([ts[2], ts[3]]), Enum(stt, {})])

    def shm_err(k):
        return Enum(k, {n: (Struct([Struct([errno]), Opaque('str:"origin"')]) if n == 'SyscallError' else UNIT) for n in SHM_KINDS})

    def mk_env(target):
        def h_snap(ex, st, callee, args, fn):
            st.trace = st.trace + (Event('snapshot', (), None),)
            # the record of the snapshot: arbitrary field values (a wrapper may look at it, e.g. compare it with one it kept)
            from mirsym.seqlock import symbolic_of_type as _sot
            rec_ = _sot(ex, 'ClockErrorBound', 'snap_ceb')
            st.mem[('env', 'ceb')] = rec_ if rec_ is not None else Opaque('ceb')
            return Enum(z3.If(snap_ok, z3.IntVal(0), z3.IntVal(1)), {'Ok': Struct([Ref('env', 'ceb')]), 'Err': Struct([shm_err(e1)])})

        def h_now(ex, st, callee, args, fn):
            st.trace = st.trace + (Event('now', (), None),)
            return Enum(z3.If(now_ok, z3.IntVal(0), z3.IntVal(1)), {'Ok': Struct([tup]), 'Err': Struct([shm_err(e2)])})
        return [(r'ShmReader::snapshot$|clockbound_ctx::snapshot$', h_snap), (r'ClockErrorBound::now$', h_now)]
    results = {}
    dom = [e1 >= 0, e1 <= 3, e2 >= 0, e2 <= 3, stt >= 0, stt <= 2]
    # C
    f_now_c = prog.find1('clockbound_now', crate='clockbound')
    exc = Exec(prog, env=mk_env('c'), opaque_calls=oc)
    written = []

    def h_write(ex, st, callee, args, fn):
        st.trace = st.trace + (Event('write_result', (), args[1]),)
        return UNIT
    exc.env.append((r'<impl \*mut clockbound_now_result>::write$', h_write))
    # ctx.err is whatever an earlier call left there: arbitrary prior content (it starts zeroed, a failing call overwrites it)
    fce = prog.struct_fields.get('clockbound_err', [])
    prior_e = {'kind': Enum(z3.Int('ctxerr_prior_kind'), {}), 'errno': z3.Int('ctxerr_prior_errno')}
    err0 = Struct([prior_e.get(n, Opaque('ctxerr_prior_' + n)) for n in fce]) if fce else Opaque('err0')
    # any further per-context state the library keeps between calls is arbitrary (whatever earlier calls left there)
    from mirsym.seqlock import symbolic_of_type
    cnames = prog.struct_fields.get('clockbound_ctx') or ['err', 'reader']
    ctys = prog.struct_field_types.get('clockbound_ctx') or []
    cvals = []
    for i, n in enumerate(cnames):
        if n == 'err':
            cvals.append(err0)
        elif n == 'reader':
            cvals.append(Opaque('reader'))
        else:
            sv = symbolic_of_type(exc, ctys[i], 'ctx_' + n) if i < len(ctys) else None
            cvals.append(sv if sv is not None else Opaque('ctx_' + n))
    st = State(); st.mem[(0, 'ctx')] = Struct(cvals); st.mem[(0, 'res')] = Opaque('res')
    outs_c = [o for o in exc.run(f_now_c, [Ref(0, 'ctx'), Opaque('resptr')], st) if o.kind == 'return']
    # Rust
    f_now_r = prog.find1('now', self_ty='ClockBoundClient', crate='clock_bound_client')
    exr = Exec(prog, env=mk_env('r'), opaque_calls=oc + [r'TimeSpec as From<timespec>>::from$'])
    # the Rust client object: its reader, and any further state the library keeps between calls (arbitrary: whatever earlier calls left)
    rnames = prog.struct_fields.get('ClockBoundClient') or ['reader']
    rtys = prog.struct_field_types.get('ClockBoundClient') or []
    rvals = []
    for i, n in enumerate(rnames):
        if n == 'reader' or i == 0 and len(rnames) == 1:
            rvals.append(Opaque('reader'))
        else:
            sv = symbolic_of_type(exr, rtys[i], 'client_' + n) if i < len(rtys) else None
            rvals.append(sv if sv is not None else Opaque('client_' + n))
    st = State(); st.mem[(0, 'cl')] = Struct(rvals)
    try:
        outs_r = [o for o in exr.run(f_now_r, [Ref(0, 'cl')], st) if o.kind == 'return']
    except EngineError as e:
        ck.inconclusive.append('ClockBoundClient::now not executable: %s' % e); return
    pr.add(exc.side); pr.add(exr.side); pr.add(dom)
    fr = prog.struct_fields.get('ClockBoundNowResult', [])
    fcn = prog.struct_fields.get('clockbound_now_result', [])
    for a in outs_c:
        wr = [e for e in a.state.trace if e.kind == 'write_result']
        for b in outs_r:
            both = z3.And(a.state.pcond(), b.state.pcond())
            okc = len(wr) == 1
            okr = 'Ok' in b.value.p and 'Err' not in b.value.p
            la = [e.kind for e in a.state.trace if e.kind in ('snapshot', 'now')]; lb = [e.kind for e in b.state.trace if e.kind in ('snapshot', 'now')]
            if okc != okr:
                pr.prove('the C library and the Rust client agree on success/failure for the same snapshot and clock results', both, z3.BoolVal(False), need_reach=False)
                continue
            if okc:
                rc = wr[0].ret
                rb = b.value.p['Ok'].f[0]

                def tsv(v):
                    while isinstance(v, Struct) and len(v.f) == 1:
                        v = v.f[0]
                    return v
                ce, cl_, cs_ = rc.f[fcn.index('earliest')], rc.f[fcn.index('latest')], rc.f[fcn.index('clock_status')]
                re_, rl, rs_ = tsv(rb.f[fr.index('earliest')]), tsv(rb.f[fr.index('latest')]), rb.f[fr.index('clock_status')]
                if isinstance(re_, Opaque) or isinstance(rl, Opaque):
                    # the Rust client wraps the timespec into nix::TimeSpec (a newtype): treated as the identity
                    cond = z3.And(ce.f[0] == ts[0], ce.f[1] == ts[1], cl_.f[0] == ts[2], cl_.f[1] == ts[3], cs_.disc() == stt, rs_.disc() == stt)
                else:
                    cond = z3.And(ce.f[0] == re_.f[0], ce.f[1] == re_.f[1], cl_.f[0] == rl.f[0], cl_.f[1] == rl.f[1], cs_.disc() == rs_.disc(),
                                  ce.f[0] == ts[0], cl_.f[1] == ts[3], cs_.disc() == stt)
                pr.prove('on success both libraries return exactly the interval and status of ClockErrorBound::now()', both, cond)
            else:
                # error: C returns a pointer to ctx.err holding the converted error; Rust returns Err(converted)
                errc = a.state.mem[(0, 'ctx')].f[0]
                errr = b.value.p['Err'].f[0]
                if isinstance(errc, Opaque):
                    pr.prove('the C library stores the error it returns', both, z3.BoolVal(False), need_reach=False); continue
                fields_c2 = prog.struct_fields.get('clockbound_err', [])
                kc = errc.f[fields_c2.index('kind')].disc(); kr = errr.f[fields_r.index('kind')].disc()
                ec = errc.f[fields_c2.index('errno')]; er = errr.f[fields_r.index('errno')]; er = er.f[0] if isinstance(er, Struct) else er
                pr.prove('on failure both libraries report the same error kind and errno', both, z3.And(kc == kr + 1, ec == er))
    open_equivalence(ck, prog, pr, oc, shm_err, fields_c, fields_r)
    pr.prove('clockbound_now takes a snapshot before it reads the clocks', z3.BoolVal(True),
             z3.BoolVal(all([e.kind for e in o.state.trace if e.kind in ('snapshot', 'now')][:1] == ['snapshot'] for o in outs_c)), need_reach=False)


def open_equivalence(ck, prog, pr, oc, shm_err, fields_c, fields_r):
    """clockbound_open and ClockBoundClient::new_with_path do the same thing to the reader: one ShmReader::new and nothing
    else (a client whose open already takes a snapshot holds a different cache from the other one after the same calls)"""
    new_ok = z3.Bool('reader_new_ok'); e0 = z3.Int('new_err_kind')
    pr.add(e0 >= 0, e0 <= 3)

    def mk_env():
        def h_new(ex, st, callee, args, fn):
            st.trace = st.trace + (Event('reader_new', (), None),)
            return Enum(z3.If(new_ok, z3.IntVal(0), z3.IntVal(1)), {'Ok': Struct([Opaque('reader')]), 'Err': Struct([shm_err(e0)])})

        def h_snap(ex, st, callee, args, fn):
            st.trace = st.trace + (Event('snapshot', (), None),)
            st.mem[('env', 'ceb')] = Opaque('ceb')
            return Enum(z3.If(z3.Bool('open_snapshot_ok'), z3.IntVal(0), z3.IntVal(1)), {'Ok': Struct([Ref('env', 'ceb')]), 'Err': Struct([shm_err(z3.Int('open_snap_err'))])})

        def h_errw(ex, st, callee, args, fn):
            st.trace = st.trace + (Event('write_err', (), args[1]),)
            return UNIT

        def h_leak(ex, st, callee, args, fn):
            st.trace = st.trace + (Event('leak', (), args[0]),)
            return Opaque('ctxptr')
        return [(r'ShmReader::new$', h_new), (r'ShmReader::snapshot$|clockbound_ctx::snapshot$', h_snap), (r'<impl \*mut clockbound_err>::write$', h_errw), (r'Box(::<.*>)?::leak', h_leak)]
    occ = oc + [r'CStr::from_ptr(::<.*>)?$', r'CString::new', r'as_c_str$', r'Result::<.*>::expect$', r'Default>::default$', r'CString as .*Deref>::deref$']
    try:
        f_open_c = prog.find1('clockbound_open', crate='clockbound')
        f_open_r = prog.find1('new_with_path', self_ty='ClockBoundClient', crate='clock_bound_client')
        exc = Exec(prog, env=mk_env(), opaque_calls=occ); exr = Exec(prog, env=mk_env(), opaque_calls=occ)
        # the caller's clockbound_err may hold anything (a previous error, stack garbage): arbitrary prior content
        prior = {'kind': Enum(z3.Int('err_prior_kind'), {}), 'errno': z3.Int('err_prior_errno'), 'detail': Opaque('err_prior_detail')}
        st = State(); st.mem[(0, 'err')] = Struct([prior.get(n, Opaque('err_prior_' + n)) for n in fields_c]) if fields_c else Opaque('err')
        outs_c = [o for o in exc.run(f_open_c, [Opaque('path'), Ref(0, 'err')], st) if o.kind == 'return']
        outs_r = [o for o in exr.run(f_open_r, [Opaque('path')], State()) if o.kind == 'return']
    except EngineError as e:
        ck.inconclusive.append('open wrappers not executable: %s' % e); return
    pr.add(exc.side); pr.add(exr.side)
    bad_seq = []
    for side, outs in (('C library clockbound_open', outs_c), ('Rust client new_with_path', outs_r)):
        for i, o in enumerate(outs):
            seq = [e.kind for e in o.state.trace if e.kind in ('reader_new', 'snapshot')]
            ok = seq == ['reader_new']
            pr.prove('%s path %d: the only reader operation is ShmReader::new (operations: %s)' % (side, i, seq), o.state.pcond(), z3.BoolVal(ok))
            if not ok:
                bad_seq.append((side, seq))
    for a in outs_c:
        okc = any(e.kind == 'leak' for e in a.state.trace)
        for b in outs_r:
            okr = 'Ok' in b.value.p and 'Err' not in b.value.p
            both = z3.And(a.state.pcond(), b.state.pcond())
            if okc != okr:
                pr.prove('open: the C library and the Rust client agree on success/failure for the same ShmReader::new result', both, z3.BoolVal(False), need_reach=False)
            elif not okc:
                we = [e for e in a.state.trace if e.kind == 'write_err']
                # what the caller finds in its clockbound_err afterwards (whole-struct write, or fields updated in place)
                errc = we[-1].ret if we else a.state.mem.get((0, 'err'))
                if not isinstance(errc, Struct):
                    continue
                errr = b.value.p['Err'].f[0]
                kc = errc.f[fields_c.index('kind')].disc(); kr = errr.f[fields_r.index('kind')].disc()
                ec = errc.f[fields_c.index('errno')]; er = errr.f[fields_r.index('errno')]; er = er.f[0] if isinstance(er, Struct) else er
                pr.prove_cegar('open: on failure both libraries report the same error kind and errno (whatever the caller\'s clockbound_err held before)', both, z3.And(kc == kr + 1, ec == er),
                               lambda m: None, lambda m: [])
    # the optional out-parameter: clockbound_open(path, NULL) ("if err is non-null, fills *err") opens exactly when ShmReader::new succeeds
    try:
        exn = Exec(prog, env=mk_env(), opaque_calls=occ)
        outs_n = [o for o in exn.run(f_open_c, [Opaque('path'), Opaque('nullptr')], State()) if o.kind == 'return']
        pr.add(exn.side)
        for i, o in enumerate(outs_n):
            seq = [e.kind for e in o.state.trace if e.kind in ('reader_new', 'snapshot')]
            opened = any(e.kind == 'leak' for e in o.state.trace)
            wrote = any(e.kind == 'write_err' for e in o.state.trace)
            pr.prove('clockbound_open(path, NULL) path %d: ShmReader::new is attempted, a context is returned exactly when it succeeds, nothing is written through the NULL pointer' % i, o.state.pcond(),
                     z3.And(z3.BoolVal(seq == ['reader_new'] and not wrote), new_ok == z3.BoolVal(opened)))
        ck.cov['open_wrappers_null_err_paths'] = len(outs_n)
    except EngineError as e:
        ck.inconclusive.append('clockbound_open with err = NULL not executable: %s' % e)
    ck.cov['open_wrappers'] = {'paths_c': len(outs_c), 'paths_rust': len(outs_r), 'extra_reader_operations': bad_seq[:2]}
    return bad_seq


def wrappers_for_c14(ck, prog, seed, key='wrapper-error-sticks'):
    """C14 for the two client libraries that wrap ClockErrorBound::now(): each returns exactly now()'s interval / status or its error
    (converted kind and errno), for arbitrary state left in the C context by earlier calls; natively: a failing call followed, on the
    same context, by a call that must succeed"""
    pr = Prover(seed)
    T = z3.BoolVal(True)

    def fact(name, ok, detail=''):
        pr.prove(name, T, z3.BoolVal(bool(ok)), need_reach=False)
    try:
        equivalence(ck, prog, pr, seed, fact)
    except EngineError as e:
        ck.inconclusive.append('client wrappers (clockbound_now / ClockBoundClient::now) not executable: %s' % e)
    rp = common.Replay('debug')
    bad = []
    res = {}
    for s2, what in (('none', 'nothing'), ('breachthenok', 'both were asked once while the monotonic clock read 2 s before as-of (causality breach), then time moved past as-of'),
                     ('malformedthenok', 'both were asked once on a record with a drift of 1e9 ppb (malformed), then a well-formed record was published'),
                     ('unknownthensync', 'both were asked once on the daemon\'s placeholder record (Unknown), then a synchronised record with a bound of 1 s was published')):
        o = rp.ask('abi2 ' + s2)
        res['abi2 ' + s2] = o
        ck.cov['evaluations'] += 1
        f = dict(x.split('=', 1) for x in o.split()[1:] if '=' in x)
        for who in ('rust', 'c'):
            if not o.startswith('ok') or not (f.get(who) or '').startswith('now_ok'):
                bad.append('both clients opened on a consistent segment, %s happened, then a call with the monotonic clock 1 s after as-of on a well-formed record: the %s returns %s instead of an interval'
                           % (what, 'C library' if who == 'c' else 'Rust client', f.get(who, o)[:80]))
        # the answer is a function of the record and the clock readings of THIS call: earliest = realtime - (bound + drift * age), symmetric
        want = {'unknownthensync': 'now_ok:1699999998.999999000:1700000001.1000:1'}.get(s2, 'now_ok:1699999999.999994000:1700000000.6000:1')
        for who in ('rust', 'c'):
            if o.startswith('ok') and (f.get(who) or '').startswith('now_ok') and f.get(who) != want:
                bad.append('both clients opened on a consistent segment, %s; the second call (realtime 1700000000 s, record aged 1 s at 1000 ppb) must return %s; the %s returns %s: the interval depends on what an earlier call on the same object returned'
                           % (what, want[7:], 'C library' if who == 'c' else 'Rust client', (f.get(who) or '')[7:]))
    # failures: for the same file both libraries report the same kind (numbered as clockbound.h numbers it: the harness reads the C
    # library's kind as the integer a C program sees) and errno, and it is the documented kind
    want_kind = {'missing': 'open_err:kind=1:errno=2', 'short': 'open_err:kind=2:errno=0', 'zerogen': 'open_err:kind=2:errno=0', 'badmagic': 'open_err:kind=2:errno=0', 'smallseg': 'open_err:kind=3:errno=0',
                 'rec 100 0 1100 0 5000 2000000000 1 101 0 1700000000 0': 'now_err:kind=3:errno=0', 'rec 200 0 1200 0 5000 1000 1 101 0 1700000000 0': 'now_err:kind=4:errno=0'}
    for s3, wk in want_kind.items():
        o = rp.ask('abi ' + s3)
        res['abi ' + s3] = o
        ck.cov['evaluations'] += 1
        f = dict(x.split('=', 1) for x in o.split()[1:] if '=' in x)
        for who in ('rust', 'c'):
            if o.startswith('ok') and f.get(who) is not None and f.get(who) != wk:
                bad.append('%s on %s: the %s reports %s, documented (clockbound.h numbering: SYSCALL 1, SEGMENT_NOT_INITIALIZED 2, SEGMENT_MALFORMED 3, CAUSALITY_BREACH 4): %s'
                           % ('clockbound_open / new_with_path' if wk.startswith('open') else 'the call for the time', {'rec 100 0 1100 0 5000 2000000000 1 101 0 1700000000 0': 'a record with a drift of 2e9 ppb', 'rec 200 0 1200 0 5000 1000 1 101 0 1700000000 0': 'a record whose as_of is 99 s ahead of the monotonic clock'}.get(s3, 'a "%s" file' % s3),
                              'C library' if who == 'c' else 'Rust client', f.get(who), wk))
    rp.close()
    ck.cov['native_wrapper_runs'] = res
    if bad:
        ck.violation(key, bad[0], {'cmd': 'abi2', 'native': res, 'all': bad})
        pr.handled = {n for n, m in pr.failed}
    ck.absorb(pr, 'wrappers: ')


def native_compare(ck, spec):
    """both client libraries on the same files under the same virtual clock, and the bytes of a real daemon-written segment"""
    rp = common.Replay('debug')
    res = {}
    import struct
    vals = (11, 22, 33, 44, 55, 66, 77, 2)
    out = rp.ask('layout ' + ' '.join(map(str, vals)))
    res['layout'] = out
    bad = []
    if out.startswith('ok'):
        b = bytes.fromhex(dict(x.split('=') for x in out.split()[1:])['bytes'])
        by = {f['name']: f for f in spec['fields']}

        def rd(name, fmt):
            f = by[name]
            return struct.unpack('<' + fmt, b[f['offset']:f['offset'] + f['size']])
        exp = {'as_of': ('qq', (11, 22)), 'void_after': ('qq', (33, 44)), 'bound_nsec': ('q', (55,)), 'max_drift_ppb': ('I', (66,)), 'reserved1': ('I', (77,)), 'clock_status': ('i', (2,)),
               'segsize': ('I', (72,)), 'version': ('H', (1,)), 'generation': ('H', (2,))}
        if len(b) != spec['total_size']:
            bad.append('daemon-written file is %d bytes, documented %d' % (len(b), spec['total_size']))
        for n, (fmt, want) in exp.items():
            if len(b) >= by[n]['offset'] + by[n]['size'] and rd(n, fmt) != want:
                bad.append('field %s decoded at the documented offset %d reads %s, written %s' % (n, by[n]['offset'], rd(n, fmt), want))
        if b[:8].hex() != '4e5a4d4100024243':
            bad.append('magic bytes %s' % b[:8].hex())
    scen = ['rec 100 0 1100 0 5000 1000 1 101 0 1700000000 0', 'rec 100 0 1100 0 5000 1000 2 101 0 1700000000 0', 'rec 100 0 1100 0 5000 1000 0 101 0 1700000000 0',
            'rec 100 0 1100 0 5000 1000 1 107 0 1700000000 0', 'rec 100 0 1100 0 5000 1000 1 1200 0 1700000000 0',
            'rec 200 0 1200 0 5000 1000 1 101 0 1700000000 0', 'rec 100 0 1100 0 5000 2000000000 1 101 0 1700000000 0', 'missing', 'badmagic', 'short', 'zerogen', 'smallseg']
    for s in scen:
        o = rp.ask('abi ' + s)
        res[s] = o
        f = dict(x.split('=', 1) for x in o.split()[1:] if '=' in x)
        if f.get('rust') != f.get('c'):
            bad.append('scenario "%s": Rust client -> %s, C library -> %s' % (s, f.get('rust'), f.get('c')))
    # a file whose magic number differs from the documented one in its SECOND word only: not a segment of this layout, both libraries refuse it
    o = rp.ask('abi badmagic2')
    res['badmagic2'] = o
    f = dict(x.split('=', 1) for x in o.split()[1:] if '=' in x)
    for who in ('rust', 'c'):
        if o.startswith('ok') and not (f.get(who) or '').startswith('open_err:kind=2'):
            bad.append('a file with the magic number 4E5A4D41 00024240 (second word differs from the documented 4E5A4D41 00024243 in one byte) and an otherwise valid header: the %s answers %s, documented: SEGMENT_NOT_INITIALIZED'
                       % ('C library' if who == 'c' else 'Rust client', f.get(who)))
    # both libraries opened first, the segment changed afterwards (update in flight / wiped by a restarting daemon), then now()
    # a caller that reuses one clockbound_err (it holds SYSCALL / ENOENT from an earlier attempt) and opens a file that is there but not valid
    for s3 in ('dirty:short', 'dirty:zerogen', 'dirty:smallseg', 'dirty:badmagic'):
        o = rp.ask('abi ' + s3)
        res['abi ' + s3] = o
        f = dict(x.split('=', 1) for x in o.split()[1:] if '=' in x)
        if f.get('rust') != f.get('c'):
            bad.append('scenario "%s" (the caller\'s clockbound_err held errno 2 from a previous call): Rust client -> %s, C library -> %s' % (s3, f.get('rust'), f.get('c')))
    # the C caller does not want error details (err = NULL, which clockbound.h allows): same outcome as with an error structure,
    # except that a failure is only visible as a NULL context
    for s4 in ('nullerr:rec 100 0 1100 0 5000 1000 1 101 0 1700000000 0', 'nullerr:missing', 'nullerr:zerogen'):
        o = rp.ask('abi ' + s4)
        res['abi ' + s4] = o
        f = dict(x.split('=', 1) for x in o.split()[1:] if '=' in x)
        r_, c_ = f.get('rust') or '', f.get('c') or ''
        if (r_.startswith('open_err') != c_.startswith('open_err')) or (not r_.startswith('open_err') and r_ != c_) or 'panic' in o:
            bad.append('scenario "%s" (clockbound_open called with err = NULL, as clockbound.h allows): Rust client -> %s, C library -> %s' % (s4.split()[0], r_ or o[:80], c_))
    scen2 = ['none', 'oddgen', 'zerover', 'growbound', 'breachthenok', 'malformedthenok']
    for s2 in scen2:
        o = rp.ask('abi2 ' + s2)
        res['abi2 ' + s2] = o
        f = dict(x.split('=', 1) for x in o.split()[1:] if '=' in x)
        if not o.startswith('ok') or f.get('rust') != f.get('c'):
            bad.append('both clients opened on a consistent segment, then %s, then now(): Rust client -> %s, C library -> %s' % (
                {'none': 'nothing changed', 'oddgen': 'the generation became odd (update in flight)', 'zerover': 'the version was zeroed (segment wiped)',
                 'growbound': 'both answered once, then a record with a much larger bound was published',
                 'breachthenok': 'both were asked once while the monotonic clock read 2 s before as-of (causality breach), then time moved past as-of',
                 'malformedthenok': 'both were asked once on a record with a drift of 1e9 ppb (malformed), then a well-formed record was published'}[s2], f.get('rust', o), f.get('c')))
    rp.close()
    ck.cov['native_cross_check'] = {'scenarios': len(scen) + 1 + len(scen2) + 7, 'disagreements': len(bad)}
    ck.cov['traces_validated_against_impl'] = len(scen) + 1 + len(scen2)
    if bad:
        ck.violation('abi-native:' + re.sub(r'[^a-zA-Z]+', '_', bad[0])[:40], '; '.join(bad[:3]), {'native': res})
    return res
