"""Shared machinery of the checks: builds, solver wrapper, evidence, findings, exit-code discipline.

Exit codes: 0 = property held on everything explored (or only listed known findings),
            1 = VIOLATION (replayed on the real code, not listed),
            2 = INCONCLUSIVE (solver unknown/timeout, encoder limitation, non-reproducing model, vacuity).
"""
import glob
import json
import os
import re
import subprocess
import sys
import time

import z3

VERIF = os.path.dirname(os.path.dirname(os.path.abspath(__file__)))
REPO = os.environ.get('VERIF_REPO', '/repo')
BUILD = os.path.join(VERIF, 'build')
EVID = os.environ.get('VERIF_EVIDENCE_DIR') or os.path.join(VERIF, 'evidence')     # self-test runs write elsewhere
NIGHTLY = 'nightly'


class Inconclusive(Exception):
    pass


def log(*a):
    print(*a, file=sys.stderr, flush=True)


def run(cmd, env=None, cwd=None, timeout=None, check=True, capture=True):
    e = dict(os.environ)
    e['CARGO_NET_OFFLINE'] = 'true'
    if env:
        e.update(env)
    t0 = time.time()
    p = subprocess.run(cmd, env=e, cwd=cwd, timeout=timeout, stdout=subprocess.PIPE if capture else None,
                       stderr=subprocess.PIPE if capture else None, text=True)
    if check and p.returncode != 0:
        raise Inconclusive('command failed (%d): %s\n%s' % (p.returncode, ' '.join(cmd)[:300], (p.stderr or '')[-3000:]))
    p.wall = time.time() - t0
    return p


# --------------------------------------------------------------------------------------- MIR dumps
MIR_KINDS = {
    # name: (packages/args, profile flags, extra rustflags, use shim workspace)
    'shm': dict(args=['-p', 'clock-bound-shm', '--features', 'clock-bound-shm/writer', '-p', 'clock-bound-client', '-p', 'clock-bound-ffi'], release=False,
                flags='-C debug-assertions=off -C overflow-checks=on', ws='repo'),
    'dlib': dict(args=['--lib'], release=False, flags='-C debug-assertions=off -C overflow-checks=on', ws='shim'),
    'dbin': dict(args=['-p', 'clock-bound-d', '--bin', 'clockbound'], release=True, flags='', ws='repo'),
}


def mir_target_dir(kind):
    return os.path.join(BUILD, 'mir-' + kind + ('' if REPO == '/repo' else '-' + re.sub(r'[^A-Za-z0-9]+', '_', REPO).strip('_')))


def dump_mir(kind):
    """(re)build the crates with --emit=mir from /repo's current working tree.
    returns (deps directory, path of the -Zprint-type-sizes text, wall seconds)"""
    k = MIR_KINDS[kind]
    tdir = mir_target_dir(kind)
    os.makedirs(tdir, exist_ok=True)
    ts_file = os.path.join(tdir, 'type-sizes.txt')
    rustflags = '--emit=mir,link %s -Zprint-type-sizes' % k['flags']
    if k['ws'] == 'repo':
        cwd = REPO
    else:
        cwd = prepare_shim_workspace()
    prof = 'release' if k['release'] else 'debug'
    cmd = ['cargo', '+' + NIGHTLY, 'build', '--offline'] + (['--release'] if k['release'] else []) + k['args']
    t0 = time.time()
    for attempt in range(2):
        p = run(cmd, env={'CARGO_TARGET_DIR': tdir, 'RUSTFLAGS': rustflags}, cwd=cwd, timeout=1200)
        out = p.stdout or ''
        if 'print-type-size' in out:
            # merge: keep entries of crates that were not recompiled this time
            old = {}
            if os.path.exists(ts_file):
                old = _split_type_sizes(open(ts_file).read())
            new = _split_type_sizes(out)
            old.update(new)
            with open(ts_file, 'w') as fh:
                for t in old.values():
                    fh.write(t)
        if os.path.exists(ts_file):
            break
        # nothing was recompiled and we have no layout file: force the local crates to rebuild
        for d in glob.glob(os.path.join(tdir, prof, '.fingerprint', 'clock-bound-*')) + glob.glob(os.path.join(tdir, prof, '.fingerprint', 'clock_bound-*')):
            subprocess.run(['rm', '-rf', d])
    deps = os.path.join(tdir, prof, 'deps')
    # several hashes of the same crate may be left behind by earlier builds: keep only the newest .mir per stem
    by = {}
    for f in glob.glob(os.path.join(deps, '*.mir')):
        stem = re.sub(r'-[0-9a-f]{16}$', '', os.path.basename(f)[:-4])
        by.setdefault(stem, []).append(f)
    for stem, fs in by.items():
        if not (stem.startswith('clock_bound') or stem.startswith('clockbound') or stem.startswith('verif')):
            continue      # dependencies legitimately exist in several versions (nix 0.26 / 0.27)
        fs.sort(key=os.path.getmtime)
        for f in fs[:-1]:
            os.remove(f)
    return deps, ts_file, time.time() - t0


def _split_type_sizes(txt):
    out = {}
    cur = None; buf = []
    for line in txt.split('\n'):
        if line.startswith('print-type-size type: '):
            if cur:
                out[cur] = ''.join(buf)
            m = re.match(r'print-type-size type: `(.+)`: ', line)
            cur = m.group(1) if m else None; buf = [line + '\n']
        elif line.startswith('print-type-size') and cur:
            buf.append(line + '\n')
    if cur:
        out[cur] = ''.join(buf)
    return out


def parse_layouts(ts_file, struct_fields=None):
    """-> {base type name: {size, align, fields: [{name, offset, size}]}} with fields in DECLARATION order
    when the declaration is known (struct_fields), else in memory order."""
    lay = {}
    cur = None
    if not os.path.exists(ts_file):
        return lay
    for line in open(ts_file):
        m = re.match(r'print-type-size type: `(.+)`: (\d+) bytes, alignment: (\d+) bytes', line)
        if m:
            name = m.group(1)
            base = re.sub(r'<.*$', '', name).split('::')[-1]
            cur = {'full': name, 'size': int(m.group(2)), 'align': int(m.group(3)), 'fields': [], '_off': 0, 'variants': False}
            # first definition wins for a base name unless it is generic
            if base not in lay or '<' in lay[base]['full']:
                lay[base] = cur
            continue
        if cur is None:
            continue
        m = re.match(r'print-type-size\s+(variant|discriminant)', line)
        if m:
            cur['variants'] = True; continue
        m = re.match(r'print-type-size     field `\.(\w+)`: (\d+) bytes(?:, offset: (\d+) bytes)?', line)
        if m and not cur['variants']:
            off = int(m.group(3)) if m.group(3) is not None else cur['_off']
            cur['fields'].append({'name': m.group(1), 'offset': off, 'size': int(m.group(2))})
            cur['_off'] = off + int(m.group(2)); continue
        m = re.match(r'print-type-size     padding: (\d+) bytes', line)
        if m and not cur['variants']:
            cur['_off'] += int(m.group(1))
    if struct_fields:
        for base, l in lay.items():
            decl = struct_fields.get(base)
            if decl and sorted(decl) == sorted(f['name'] for f in l['fields']):
                byname = {f['name']: f for f in l['fields']}
                l['fields'] = [byname[n] for n in decl]
    return lay


def prepare_shim_workspace():
    """scratch workspace whose only purpose is to build clock-bound-d's library with the empty-bodied
    tracing shims patched in (DESIGN.md 2.3)."""
    ws = os.path.join(BUILD, 'ws-dlib' + ('' if REPO == '/repo' else '-' + re.sub(r'[^A-Za-z0-9]+', '_', REPO).strip('_')))
    os.makedirs(os.path.join(ws, 'src'), exist_ok=True)
    toml = '''[package]
name = "verif-dlib"
version = "0.1.0"
edition = "2021"

[workspace]

[dependencies]
clock-bound-d = { path = "%s/clock-bound-d" }
clock-bound-shm = { path = "%s/clock-bound-shm", features = ["writer"] }

[patch.crates-io]
tracing = { path = "%s/shims/tracing" }
tracing-subscriber = { path = "%s/shims/tracing-subscriber" }
''' % (REPO, REPO, VERIF, VERIF)
    _write_if_changed(os.path.join(ws, 'Cargo.toml'), toml)
    _write_if_changed(os.path.join(ws, 'src', 'lib.rs'), 'pub use clock_bound_d as d;\n')
    lock = os.path.join(ws, 'Cargo.lock')
    if not os.path.exists(lock):
        import shutil
        shutil.copy(os.path.join(VERIF, 'shims', 'Cargo.lock.dlib'), lock) if os.path.exists(os.path.join(VERIF, 'shims', 'Cargo.lock.dlib')) \
            else shutil.copy(os.path.join(REPO, 'Cargo.lock'), lock)
    return ws


def _write_if_changed(path, txt):
    if os.path.exists(path) and open(path).read() == txt:
        return
    with open(path, 'w') as fh:
        fh.write(txt)


# --------------------------------------------------------------------------------------- replay harness
_replay_built = {}


def build_replay(profile='debug'):
    if profile in _replay_built:
        return _replay_built[profile]
    src = os.path.join(VERIF, 'replay')
    tdir = os.path.join(BUILD, 'replay')
    if REPO != '/repo':
        # a copy of the harness whose path dependencies point at the alternative repository (self-test runs on scratch copies)
        import shutil
        tag = re.sub(r'[^A-Za-z0-9]+', '_', REPO).strip('_')
        src2 = os.path.join(BUILD, 'replay-src-' + tag)
        os.makedirs(os.path.join(src2, 'src'), exist_ok=True)
        for rel in ['Cargo.toml', 'Cargo.lock'] + ['src/' + f for f in os.listdir(os.path.join(src, 'src'))]:
            txt = open(os.path.join(src, rel)).read().replace('"/repo/', '"%s/' % REPO)
            _write_if_changed(os.path.join(src2, rel), txt)
        src = src2; tdir = os.path.join(BUILD, 'replay-' + tag)
    cmd = ['cargo', 'build', '--offline'] + (['--release'] if profile == 'release' else [])
    run(cmd, env={'CARGO_TARGET_DIR': tdir, 'RUSTFLAGS': '--cfg aws_clock_bound_verif'}, cwd=src, timeout=1800)
    b = os.path.join(tdir, profile, 'verif-replay')
    _replay_built[profile] = b
    return b


class Replay:
    """a long-lived native process running the real crates on one case per line"""

    def __init__(self, profile='debug'):
        self.profile = profile
        self.bin = build_replay(profile)
        self.p = subprocess.Popen([self.bin], stdin=subprocess.PIPE, stdout=subprocess.PIPE, text=True, bufsize=1)
        self.n = 0

    def ask(self, line):
        self.n += 1
        self.p.stdin.write(line.strip() + '\n'); self.p.stdin.flush()
        r = self.p.stdout.readline()
        if not r:
            raise Inconclusive('replay process died on: ' + line[:200])
        return r.strip()

    def close(self):
        try:
            self.p.stdin.close(); self.p.wait(timeout=5)
        except Exception:
            self.p.kill()


# --------------------------------------------------------------------------------------- solver wrapper
class Prover:
    def __init__(self, seed=0, timeout_ms=120000, name='z3'):
        self.s = z3.Solver()
        self.s.set('timeout', timeout_ms)
        self.s.set('random_seed', seed & 0x7fffffff)
        self.timeout_ms = timeout_ms; self.seed = seed
        self.retried = 0
        try:
            z3.set_param('smt.random_seed', seed & 0x7fffffff); z3.set_param('sat.random_seed', seed & 0x7fffffff)
        except Exception:
            pass
        self.queries = 0
        self.discharged = 0
        self.trivial = 0
        self.failed = []          # (name, model)
        self.unknown = []
        self.time = 0.0
        self.samples = []
        self.names = set()
        self.cross_every = int(os.environ.get('VERIF_CROSS_EVERY', '0') or 0)      # thorough tier: re-decide every k-th proved obligation with cvc5
        self.cross_checked = 0
        self.cross_disagree = []
        self._nproved = 0

    def add(self, *facts):
        for f in facts:
            if isinstance(f, (list, tuple)):
                self.s.add(*f)
            else:
                self.s.add(f)

    def push(self):
        self.s.push()

    def pop(self):
        self.s.pop()

    def check(self, *extra):
        t0 = time.time()
        self.s.push()
        try:
            if extra:
                self.s.add(*extra)
            r = self.s.check()
            m = self.s.model() if r == z3.sat else None
            if r == z3.unknown and self.retried < 6:
                # a time-out is not an answer: ask again from scratch (no learnt state, another seed, two then four times the time)
                # before giving up; at most three queries per prover get this treatment
                for k, delta in enumerate((7919, 104729)):
                    s2 = z3.Solver()
                    s2.set('timeout', self.timeout_ms * (2 if k == 0 else 4))
                    s2.set('random_seed', (self.seed + delta) & 0x7fffffff)
                    s2.add(self.s.assertions())
                    self.retried += 1
                    r2 = s2.check()
                    if r2 != z3.unknown:
                        r = r2
                        m = s2.model() if r2 == z3.sat else None
                        break
            if r == z3.unsat and self.cross_every and extra:
                self._nproved += 1
                if self._nproved % self.cross_every == 1 or self.cross_every == 1:
                    self._cross_check(self.s.to_smt2())
        finally:
            self.s.pop()
        dt = time.time() - t0
        self.time += dt; self.queries += 1
        return r, m, dt

    def _cross_check(self, smt2):
        """second opinion (cvc5) on a query z3 found unsatisfiable; any other answer is recorded as a disagreement"""
        if self.cross_checked >= 60:
            return
        d = os.path.join(BUILD, 'smt2'); os.makedirs(d, exist_ok=True)
        f = os.path.join(d, 'q%d_%d.smt2' % (os.getpid(), self.cross_checked))
        txt = smt2 if '(set-logic' in smt2 else '(set-logic ALL)\n' + smt2
        open(f, 'w').write(txt)
        try:
            p = subprocess.run(['cvc5', '--lang', 'smt2', '--tlimit=30000', f], capture_output=True, text=True, timeout=60)
            out = (p.stdout + p.stderr).strip()
        except subprocess.TimeoutExpired:
            out = 'timeout'
        self.cross_checked += 1
        first = out.split('\n')[0] if out else ''
        if first != 'unsat':
            self.cross_disagree.append(first[:80] or 'no answer')
        try:
            os.remove(f)
        except OSError:
            pass

    def prove(self, name, pc, claim, need_reach=True):
        """claim must hold on every input satisfying pc (and the base assumptions).
        returns 'proved' | 'trivial' (pc unreachable) | ('failed', model) | 'unknown'"""
        r, m, dt = self.check(pc, z3.Not(claim))
        if r == z3.unsat:
            verdict = 'proved'
            if need_reach:
                r2, m2, dt2 = self.check(pc)
                dt += dt2
                if r2 == z3.unsat:
                    verdict = 'trivial'
                elif r2 != z3.sat:
                    verdict = 'proved'      # reachability undecided: count as proved, not as non-trivial
                    self.samples_note = 'reachability of some paths undecided'
            if verdict == 'proved':
                self.discharged += 1; self.names.add(name)
            else:
                self.trivial += 1
            if len(self.samples) < 12 or (verdict == 'proved' and len([s for s in self.samples if s['verdict'] == 'proved']) < 8 and len(self.samples) < 24):
                self.samples.append({'obligation': name, 'verdict': verdict, 'solver_s': round(dt, 3)})
            return verdict
        if r == z3.sat:
            self.failed.append((name, m))
            self.samples.append({'obligation': name, 'verdict': 'counterexample', 'solver_s': round(dt, 3)})
            return ('failed', m)
        self.unknown.append(name)
        self.samples.append({'obligation': name, 'verdict': 'unknown:' + self.s.reason_unknown(), 'solver_s': round(dt, 3)})
        return 'unknown'

    def prove_cegar(self, name, pc, claim, confirm, refine, rounds=40, need_reach=True, hints=None):
        """prove, and when the solver returns a model: `confirm(model)` replays it on the real code and
        returns a description if the violation is real.  A model that does not reproduce is used to refine the
        over-approximated parts of the encoding (`refine(model)` returns new true facts) and the query is
        repeated.  `hints`: extra constraints used ONLY to search for a replayable counterexample (e.g. wire
        values that survive the chrony float round trip); they never contribute to an unsat verdict.
        returns 'proved' | 'trivial' | ('violation', what, model) | 'unknown' | 'spurious' """
        self.refinements = getattr(self, 'refinements', 0)
        for k in range(rounds):
            res = self.prove(name, pc, claim, need_reach=need_reach)
            if not isinstance(res, tuple):
                return res
            m = res[1]
            what = confirm(m)
            if what:
                self.handled = getattr(self, 'handled', set()); self.handled.add(name)
                return ('violation', what, m)
            if hints:
                for hs in hints:
                    r2, m2, dt2 = self.check(pc, z3.Not(claim), *hs)
                    if r2 == z3.sat:
                        what = confirm(m2)
                        if what:
                            self.handled = getattr(self, 'handled', set()); self.handled.add(name)
                            return ('violation', what, m2)
            self.failed.pop()
            lemmas = refine(m)
            if not lemmas:
                break
            self.refinements += 1
            self.add(lemmas)
        self.unknown.append(name + ' (counterexamples did not reproduce natively after refinement)')
        return 'spurious'

    def reachable(self, pc):
        r, m, dt = self.check(pc)
        return r == z3.sat, m


def mval(m, t, default=0):
    v = m.eval(t, model_completion=True)
    if z3.is_int_value(v):
        return v.as_long()
    if z3.is_rational_value(v):
        return v.as_fraction()
    if z3.is_true(v):
        return True
    if z3.is_false(v):
        return False
    return default


# --------------------------------------------------------------------------------------- findings / evidence
def load_findings():
    p = os.path.join(VERIF, 'known_findings.json')
    if not os.path.exists(p):
        return {'open': [], 'fixed': []}
    return json.load(open(p))


class Check:
    """per-run bookkeeping of one property check"""

    def __init__(self, prop, tier, seed, level='model_checking'):
        self.prop, self.tier, self.seed, self.level = prop, tier, seed, level
        self.t0 = time.time()
        self.cov = {'evaluations': 0, 'distinct_nontrivial': 0, 'rule': '', 'samples': [], 'obligations': 0, 'discharged': 0,
                    'functions_encoded': [], 'bounds': {}, 'stubs': [], 'solver_time_s': 0.0, 'queries': 0}
        self.assumptions = []
        self.violations = []      # (key, description, replay path)
        self.known_hit = []
        self.inconclusive = []
        self.findings = load_findings()

    def absorb(self, pr, prefix=''):
        """fold a Prover's counters into the evidence"""
        c = self.cov
        c['evaluations'] += pr.queries; c['queries'] += pr.queries
        c['obligations'] += pr.discharged + pr.trivial + len(pr.failed) + len(pr.unknown)
        c['discharged'] += pr.discharged
        c['distinct_nontrivial'] += len(pr.names)
        c['solver_time_s'] = round(c['solver_time_s'] + pr.time, 3)
        c['trivial_unreachable'] = c.get('trivial_unreachable', 0) + pr.trivial
        for s in pr.samples:
            if len(c['samples']) < 40:
                s = dict(s); s['obligation'] = prefix + s['obligation']; c['samples'].append(s)
        for n in pr.unknown:
            self.inconclusive.append('solver unknown on ' + prefix + n)
        # an obligation with a counterexample is never a pass: unless the check turned it into a replayed violation,
        # it is reported as inconclusive
        if pr.cross_checked:
            c['cvc5_cross_checked'] = c.get('cvc5_cross_checked', 0) + pr.cross_checked
            bad = [x for x in pr.cross_disagree if x.startswith('sat')]
            soft = [x for x in pr.cross_disagree if not x.startswith('sat')]
            c['cvc5_disagreements'] = c.get('cvc5_disagreements', 0) + len(bad)
            if soft:
                c['cvc5_inconclusive'] = c.get('cvc5_inconclusive', []) + soft[:5]
            for x in bad:
                self.inconclusive.append('cvc5 finds a model for a query z3 reported unsatisfiable (' + prefix + ')')
        handled = getattr(pr, 'handled', set())
        for n, m in pr.failed:
            if n not in handled:
                self.inconclusive.append('counterexample without native confirmation for: ' + prefix + n[:160])

    def violation(self, key, desc, replay_obj):
        """a violation that HAS been replayed on the real code. key identifies the failing input class."""
        for f in self.findings.get('open', []):
            if f.get('property') == self.prop and re.search(f['match'], key):
                self.known_hit.append((f, key, desc)); return 'known'
        os.makedirs(os.path.join(VERIF, 'replays'), exist_ok=True)
        path = os.path.join(VERIF, 'replays', '%s-%s.json' % (self.prop, re.sub(r'[^A-Za-z0-9_.-]+', '_', key)[:60]))
        with open(path, 'w') as fh:
            json.dump({'property': self.prop, 'key': key, 'description': desc, 'case': replay_obj}, fh, indent=1, default=str)
        self.violations.append((key, desc, path))
        return 'new'

    def finish(self):
        wall = time.time() - self.t0
        c = self.cov
        ev = {'property_id': self.prop, 'tier': self.tier, 'seed': self.seed, 'level': self.level, 'coverage': c,
              'assumptions': self.assumptions, 'wall_s': round(wall, 2), 'violations': len(self.violations)}
        if self.level == 'model_checking':
            c.setdefault('states', max(1, c['distinct_nontrivial']))
            c.setdefault('transitions', max(1, c['queries']))
            c.setdefault('traces_validated_against_impl', 0)
        if self.known_hit:
            c['known_findings_hit'] = [{'finding': f['id'], 'key': k} for f, k, d in self.known_hit]
        if self.inconclusive:
            c['inconclusive'] = self.inconclusive[:20]
        if not c['samples']:
            c['samples'] = [{'note': 'no obligation was generated'}]
        os.makedirs(EVID, exist_ok=True)
        with open(os.path.join(EVID, self.prop + '.json'), 'w') as fh:
            json.dump(ev, fh, indent=1, default=str)
        seen = set()
        for f, k, d in self.known_hit:
            if f['id'] not in seen:
                seen.add(f['id'])
                print('KNOWN-FINDING: property=%s %s' % (self.prop, f['what']))
        for key, desc, path in self.violations:
            print('VIOLATION property=%s replay=%s' % (self.prop, path))
            print('  ' + desc)
        if self.violations:
            return 1
        if self.inconclusive:
            for i in self.inconclusive[:10]:
                print('INCONCLUSIVE property=%s %s' % (self.prop, i))
            return 2
        print('OK property=%s tier=%s obligations=%d discharged=%d queries=%d solver=%.1fs wall=%.1fs' % (
            self.prop, self.tier, c['obligations'], c['discharged'], c['queries'], c['solver_time_s'], wall))
        return 0
