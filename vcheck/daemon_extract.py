"""C07 and C10: `extract_bound_from_tracking` (and `From<u16> for ChronyClockStatus`) executed symbolically from the
daemon's MIR.  std's time types are environment with their documented meaning as exact integer nanoseconds;
the chrony wire floats are arbitrary finite doubles (reals) of the stated range."""
import re
import time
from fractions import Fraction

import z3

from mirsym.exec import Exec, State, Event
from mirsym.program import Program
from mirsym.values import Struct, Enum, Ref, Opaque, FLin, FConst, EngineError, UNIT
from mirsym import builtins as B
from . import common
from .common import Prover, Check, mval

NS = 10 ** 9
TOL = Fraction(1, 2 ** 49)
RANGE = 2 ** 20


def load_dlib_program():
    deps, ts, wall = common.dump_mir('dlib')
    prog = Program(deps, repo=common.REPO, only={'clock_bound_d', 'clock_bound_shm', 'chrony_candm'})
    prog.layouts = common.parse_layouts(ts, prog.struct_fields)
    # chrony-candm's Tracking and enums are declared in the registry sources
    import glob
    for f in glob.glob('/root/.cargo/registry/src/*/chrony-candm-0.1.1/src/reply.rs') + glob.glob('/root/.cargo/registry/src/*/chrony-candm-0.1.1/src/common.rs') + glob.glob('/root/.cargo/registry/src/*/chrony-candm-0.1.1/src/request.rs'):
        prog.scan_text(open(f).read())
    return prog, wall


TRACKING_FIELDS = ['ref_id', 'ip_addr', 'stratum', 'leap_status', 'ref_time', 'current_correction', 'last_offset', 'rms_offset', 'freq_ppm',
                   'resid_freq_ppm', 'skew_ppm', 'root_delay', 'root_dispersion', 'last_update_interval']


class TrackingModel:
    def __init__(self, prog, tag=''):
        names = prog.struct_fields.get('Tracking')
        if names != TRACKING_FIELDS:
            raise EngineError('chrony_candm::reply::Tracking has unexpected fields: %r' % (names,))
        R = lambda n: z3.Real(n + tag)
        I = lambda n: z3.Int(n + tag)
        self.c, self.d, self.r, self.iv = R('offset'), R('root_delay'), R('root_dispersion'), R('interval')
        self.leap, self.ref_ns, self.now_ns, self.ref_id = I('leap'), I('ref_ns'), I('now_ns'), I('ref_id')
        f = {n: Opaque('tracking.' + n) for n in names}
        f['ref_id'] = self.ref_id; f['leap_status'] = self.leap
        f['ref_time'] = Struct([self.ref_ns])
        f['current_correction'] = FLin(self.c); f['root_delay'] = FLin(self.d); f['root_dispersion'] = FLin(self.r)
        f['last_update_interval'] = FLin(self.iv)
        # the other float fields of the report (the bound and the class must not depend on them): arbitrary values
        self.other = {}
        for n in ('last_offset', 'rms_offset', 'freq_ppm', 'resid_freq_ppm', 'skew_ppm'):
            if n in names:
                self.other[n] = R('trk_' + n); f[n] = FLin(self.other[n])
        self.stratum = I('trk_stratum')
        if 'stratum' in names:
            f['stratum'] = self.stratum
        self.value = Struct([f[n] for n in names])

    def domain(self, neg_iv=False, wide_ref=False):
        lo_ref, hi_ref = (-2 ** 66, 2 ** 66) if wide_ref else (0, 2 ** 62)
        return [self.c >= -RANGE, self.c <= RANGE, self.d >= 0, self.d <= RANGE, self.r >= 0, self.r <= RANGE,
                self.iv >= (-2 ** 40 if neg_iv else 0), self.iv <= 2 ** 40, self.leap >= 0, self.leap < 65536,
                self.ref_ns >= lo_ref, self.ref_ns < hi_ref, self.now_ns >= 0, self.now_ns < 2 ** 62, self.ref_id >= 0, self.ref_id < 2 ** 32,
                self.stratum >= 0, self.stratum < 65536] + [z3.And(v >= -RANGE, v <= RANGE) for v in self.other.values()]


def time_env(tm_now):
    """std::time as exact integer nanoseconds. SystemTime / Duration values are Struct([ns])."""
    def elapsed(ex, st, callee, args, fn):
        t = ex.deref(st, args[0]) if isinstance(args[0], Ref) else args[0]
        ref = t.f[0]
        now = tm_now
        st.trace = st.trace + (Event('SystemTime::elapsed', (ref,), None),)
        return Enum(z3.If(now >= ref, z3.IntVal(0), z3.IntVal(1)), {'Ok': Struct([Struct([now - ref])]), 'Err': Struct([Struct([Struct([ref - now])])])})

    def from_secs(ex, st, callee, args, fn):
        return Struct([args[0] * NS])

    def from_millis(ex, st, callee, args, fn):
        return Struct([args[0] * 10 ** 6])

    def try_from_secs_f64(ex, st, callee, args, fn):
        # std: Ok(duration rounded to the nearest nanosecond) for 0 <= x < 2^64 seconds, Err otherwise (negative, too large, NaN)
        x = ex.to_lin(args[0])
        n = ex.fresh('dur_ns')
        nr = z3.ToReal(n)
        ex.side.append(z3.Implies(z3.And(x >= 0, x < 2 ** 64), z3.And(nr >= x * NS - z3.RealVal('1/2'), nr <= x * NS + z3.RealVal('1/2'), n >= 0)))
        return Enum(z3.If(z3.And(x >= 0, x < 2 ** 64), z3.IntVal(0), z3.IntVal(1)), {'Ok': Struct([Struct([n])]), 'Err': Struct([Opaque('TryFromFloatSecsError')])})

    def dur_get(ex, st, callee, args, fn):
        a = ex.deref(st, args[0]) if isinstance(args[0], Ref) else args[0]
        k = callee.rsplit('::', 1)[1]
        ns = a.f[0]
        return {'as_nanos': ns, 'as_micros': ns / 1000, 'as_millis': ns / 10 ** 6, 'as_secs': ns / NS, 'subsec_nanos': ns % NS,
                'subsec_micros': (ns % NS) / 1000, 'subsec_millis': (ns % NS) / 10 ** 6, 'is_zero': ns == 0}[k]

    def dur_cmp(ex, st, callee, args, fn):
        a = ex.deref(st, args[0]) if isinstance(args[0], Ref) else args[0]
        b = ex.deref(st, args[1]) if isinstance(args[1], Ref) else args[1]
        k = callee.rsplit('::', 1)[1]
        x, y = a.f[0], b.f[0]
        return {'gt': x > y, 'ge': x >= y, 'lt': x < y, 'le': x <= y, 'eq': x == y, 'ne': x != y}[k]

    def dur_minmax(ex, st, callee, args, fn):
        a = ex.deref(st, args[0]) if isinstance(args[0], Ref) else args[0]
        b = ex.deref(st, args[1]) if isinstance(args[1], Ref) else args[1]
        k = callee.rsplit('::', 1)[1]
        x, y = a.f[0], b.f[0]
        if k == 'max':
            return Struct([z3.If(x >= y, x, y)])
        if k == 'min':
            return Struct([z3.If(x <= y, x, y)])
        if k == 'saturating_sub':
            return Struct([z3.If(x >= y, x - y, z3.IntVal(0))])
        if k == 'saturating_add':
            return Struct([z3.If(x + y <= DUR_MAX_NS, x + y, z3.IntVal(DUR_MAX_NS))])
        if k == 'clamp':
            c = ex.deref(st, args[2]) if isinstance(args[2], Ref) else args[2]
            return Struct([z3.If(x < y, y, z3.If(x > c.f[0], c.f[0], x))])
        raise EngineError('Duration::' + k)

    def sys_now(ex, st, callee, args, fn):
        st.trace = st.trace + (Event('SystemTime::now', (), None),)
        return Struct([tm_now])

    def duration_since(ex, st, callee, args, fn):
        a = ex.deref(st, args[0]) if isinstance(args[0], Ref) else args[0]
        b = ex.deref(st, args[1]) if isinstance(args[1], Ref) else args[1]
        x, y = a.f[0], b.f[0]
        return Enum(z3.If(x >= y, z3.IntVal(0), z3.IntVal(1)), {'Ok': Struct([Struct([x - y])]), 'Err': Struct([Struct([Struct([y - x])])])})

    def dur_checked(ex, st, callee, args, fn):
        a = ex.deref(st, args[0]) if isinstance(args[0], Ref) else args[0]
        b = ex.deref(st, args[1]) if isinstance(args[1], Ref) else args[1]
        k = callee.rsplit('::', 1)[1]
        x, y = a.f[0], b.f[0]
        v = x + y if k == 'checked_add' else x - y
        ok = z3.And(v >= 0, v <= DUR_MAX_NS)
        return Enum(z3.If(ok, z3.IntVal(1), z3.IntVal(0)), {'Some': Struct([Struct([v])]), 'None': UNIT})

    def dur_arith(ex, st, callee, args, fn):
        a = ex.deref(st, args[0]) if isinstance(args[0], Ref) else args[0]
        b = ex.deref(st, args[1]) if isinstance(args[1], Ref) else args[1]
        op = re.search(r' as (Add|Sub|Mul|Div)', callee).group(1)
        x = a.f[0]
        y = b.f[0] if isinstance(b, Struct) else b
        if op == 'Add':
            return Struct([x + y])
        if op == 'Sub':
            from mirsym.exec import Obligation
            ex.obligations.append(Obligation(z3.And(st.pcond(), x < y), 'overflow when subtracting durations', fn.name))
            return Struct([x - y])
        if op == 'Mul':
            return Struct([x * y])
        return Struct([x / y])

    def dur_f64(ex, st, callee, args, fn):
        a = ex.deref(st, args[0]) if isinstance(args[0], Ref) else args[0]
        return FLin(z3.ToReal(a.f[0]) / NS)

    def chrony_float(ex, st, callee, args, fn):
        v = args[0]
        if not isinstance(v, FLin):
            raise EngineError('ChronyFloat conversion of %r' % (v,))
        return v
    return [(r'^<ChronyFloat as Into<f64>>::into$|^<f64 as From<ChronyFloat>>::from$', chrony_float),
            (r'(^|::)SystemTime::elapsed$', elapsed), (r'(^|::)Duration::from_secs$', from_secs), (r'(^|::)Duration::try_from_secs_f64$', try_from_secs_f64), (r'(^|::)Duration::from_millis$', from_millis),
            (r'(^|::)Duration::(as_nanos|as_micros|as_millis|as_secs|subsec_nanos|subsec_micros|subsec_millis|is_zero)$', dur_get),
            (r'^<Duration as PartialOrd>::(gt|ge|lt|le)$|^<Duration as PartialEq>::(eq|ne)$', dur_cmp),
            (r'^<Duration as Ord>::(max|min|clamp)$|(^|::)Duration::(saturating_sub|saturating_add)$', dur_minmax),
            (r'(^|::)SystemTime::now$', sys_now), (r'(^|::)SystemTime::duration_since$', duration_since), (r'(^|::)Duration::(checked_add|checked_sub)$', dur_checked),
            (r'^<Duration as (Add|Sub)(<Duration>)?>::(add|sub)$|^<Duration as (Mul|Div)<u32>>::(mul|div)$', dur_arith), (r'(^|::)Duration::as_secs_f64$', dur_f64)]


DUR_MAX_NS = (2 ** 64 - 1) * NS + 999_999_999


def time_consts():
    return [(r'(^|::)Duration::MAX$', Struct([z3.IntVal(DUR_MAX_NS)])), (r'(^|::)Duration::ZERO$', Struct([z3.IntVal(0)])), (r'(^|::)UNIX_EPOCH$', Struct([z3.IntVal(0)]))]


def run_extract(prog, tm):
    ex = Exec(prog, env=time_env(tm.now_ns))
    ex.const_hooks = time_consts()
    fn = prog.find1('extract_bound_from_tracking', crate='clock_bound_d')
    outs = ex.run(fn, [tm.value], State())
    return ex, fn, outs


# ------------------------------------------------------------------------------------------ native side
def f64_hex(x):
    import struct
    return struct.pack('>d', x).hex()


def native_extract(rp, c, d, r, iv, leap, age_ns, ref_id=0, last_offset=None):
    """real extract_bound_from_tracking on wire floats nearest to the given values. returns dict with the values
    the code actually saw (after the ChronyFloat round trip), the bound and the status"""
    out = rp.ask('extract %s %s %s %s %d %d %d%s' % (f64_hex(float(c)), f64_hex(float(d)), f64_hex(float(r)), f64_hex(float(iv)), leap, age_ns, ref_id, (' ' + f64_hex(float(last_offset))) if last_offset is not None else ''))
    if not out.startswith('ok'):
        return {'raw': out}
    f = dict(x.split('=') for x in out.split()[1:])
    import struct
    g = lambda k: Fraction(struct.unpack('>d', bytes.fromhex(f[k]))[0])
    return {'raw': out, 'c': g('c'), 'd': g('d'), 'r': g('r'), 'iv': g('iv'), 'bound': int(f['bound']), 'status': int(f['status']), 'age_ns': int(f['age_ns'])}


def c07_oracle(nat):
    E = abs(nat['c']) + nat['r'] + nat['d'] / 2
    b = nat['bound']
    bad = []
    if b < 0:
        bad.append('bound %d is negative' % b)
    if b < E * NS * (1 - TOL):
        bad.append('bound %d ns is smaller than |offset|+dispersion+delay/2 = %.3f ns' % (b, float(E * NS)))
    if b >= E * NS * (1 + TOL) + 1:
        bad.append('bound %d ns exceeds the rounded-up sum %.3f ns' % (b, float(E * NS)))
    return bad


def c10_oracle(nat, leap):
    """expected class for the values the code actually saw"""
    age = nat['age_ns']
    if age < 0 or leap > 3:
        exp = 0
    elif leap == 3:
        exp = 2
    else:
        exp = 2 if Fraction(age, NS) > max(0, 8 * nat['iv']) else 1
    return exp


# ------------------------------------------------------------------------------------------ C07
def check_c07(tier, seed):
    ck = Check('C07', tier, seed)
    prog, mir_wall = load_dlib_program()
    tm = TrackingModel(prog)
    ex, fn, outs = run_extract(prog, tm)
    base(ck, ex, mir_wall, outs)
    pr = Prover(seed)
    pr.add(tm.domain()); pr.add(ex.side)
    E = z3.If(tm.c >= 0, tm.c, -tm.c) + tm.r + tm.d / 2
    tol = z3.RealVal(str(TOL))
    rp = common.Replay('debug'); rp2 = common.Replay('release')
    stats = [0, 0]

    def confirm_for(name):
        def confirm(m):
            stats[0] += 1
            c, d, r, iv = [mval(m, x) for x in (tm.c, tm.d, tm.r, tm.iv)]
            leap = mval(m, tm.leap); age = mval(m, tm.now_ns) - mval(m, tm.ref_ns)
            for prof, p in (('dev', rp), ('release', rp2)):
                lo = mval(m, tm.other['last_offset']) if 'last_offset' in tm.other else None
                nat = native_extract(p, c, d, r, iv if abs(iv) < 2 ** 30 else 1, leap, max(min(age, 2 ** 40), -10 ** 9), last_offset=(float(lo) if lo is not None else None))
                if 'bound' not in nat:
                    continue
                bad = c07_oracle(nat)
                if bad:
                    stats[1] += 1
                    signed = (nat['c'] + nat['r'] + nat['d'] / 2) * NS
                    unsigned = (abs(nat['c']) + nat['r'] + nat['d'] / 2) * NS
                    kind = 'signed-offset' if (nat['c'] < 0 and unsigned - signed > 4 and abs(nat['bound'] - signed) <= 2) else name
                    ck.violation(kind, '%s for wire values offset=%s delay=%s dispersion=%s%s: real extract_bound_from_tracking (%s) returned %d ns' %
                                 ('; '.join(bad), float(nat['c']), float(nat['d']), float(nat['r']), (' (and last_offset=%s, a field the bound does not depend on)' % float(lo)) if lo not in (None, 0) else '', prof, nat['bound']),
                                 {'cmd': nat['raw'], 'values_seen_by_the_code': {k: str(nat[k]) for k in ('c', 'd', 'r')}})
                    return bad[0]
            return None
        return confirm

    def refine(m):
        # float enclosures are the only over-approximation here; block the spurious point by pinning nothing (no refinement available)
        return []
    for i, o in enumerate(outs):
        pc = o.state.pcond()
        b = o.value.f[0]
        br = z3.ToReal(b)
        clauses = {
            'non_negative': b >= 0,
            'never_below_the_sum': br >= E * NS * (1 - tol),
            'rounded_up_not_more': br < E * NS * (1 + tol) + 1,
        }
        for k, cl in clauses.items():
            h1, h2, h3 = z3.Int('hc'), z3.Int('hd'), z3.Int('hr')
            hints = [[tm.c * 2 ** 20 == z3.ToReal(h1), tm.d * 2 ** 20 == z3.ToReal(h2), tm.r * 2 ** 20 == z3.ToReal(h3), tm.c <= 8, tm.c >= -8, tm.d <= 8, tm.r <= 8]]
            pr.prove_cegar('path%d/%s' % (i, k), pc, cl, confirm_for(k), refine, hints=hints)
    # PHC term: process_clock_update adds the PHC error bound to the extracted bound
    phc_term(ck, prog, pr, seed)
    rp.close(); rp2.close()
    ck.absorb(pr)
    # PHC term, source of the value: the number written in the sysfs file is what the poller hands on
    try:
        from . import phc_file
        phc_file.check(ck, lambda: Prover(seed), prog, tier, seed)
        ck.cov['functions_encoded'] = list(ck.cov.get('functions_encoded', [])) + ['get_phc_error_bound_from_path over a byte-level file model (symbolic decimal digits)']
    except EngineError as e:
        ck.inconclusive.append('PHC error-bound file reader: %s' % e)
    # PHC term, hand-over: the value read at a poll is the PHC term of that poll's message (also across polls: no stale value)
    try:
        from .daemon_poller import poller_table
        poller_table(ck, prog, mir_wall, tier, seed, only_phc=True)
        ck.cov['functions_encoded'] = list(ck.cov.get('functions_encoded', [])) + ['run_clock_error_bound_poller (one iteration over arbitrary loop-carried state): PHC term of the messages']
    except EngineError as e:
        ck.inconclusive.append('PHC term of the poller messages: %s' % e)
    # PHC term, which reports get it: the configured reference id is the big-endian packing of the name's bytes, i.e. the id chronyd
    # reports for a refclock of that name (a differently computed id never matches and the PHC term is silently left out)
    if not ck.violations:
        try:
            from .daemon_poller import refid_part
            sub = Check('C07', tier, seed)
            refid_part(sub, tier)
            for key, desc, path in sub.violations:
                ck.violations.append(('phc-term-selection:' + key, 'the PHC error bound is part of the bound of the reports whose reference id is the configured one: ' + desc, path))
            ck.inconclusive += ['configured reference id: ' + i for i in sub.inconclusive]
            for k_ in ('obligations', 'discharged', 'queries', 'evaluations', 'distinct_nontrivial'):
                ck.cov[k_] = ck.cov.get(k_, 0) + sub.cov.get(k_, 0)
            ck.cov['kani'] = sub.cov.get('kani')
            ck.cov['functions_encoded'] = list(ck.cov.get('functions_encoded', [])) + ['refid_to_u32 (engine K: all ASCII strings of <= 5 bytes)']
        except EngineError as e:
            ck.inconclusive.append('configured reference id: %s' % e)
    # the bound that is PUBLISHED for a synchronised report is the bound extracted from that report (plus its PHC term), whatever the
    # updater published before: no history of earlier reports makes the record carry a different value (C08's pairing clause)
    if not ck.violations:
        try:
            from . import daemon_updater
            sub = daemon_updater.run_check('C08', tier, seed, owner='C07', only_clauses=['bound and as_of are those of the latest synchronised report'])
            for key, desc, path in sub.violations:
                ck.violations.append(('published:' + key, 'the bound published for a synchronised report is not the one derived from that report: ' + desc, path))
            ck.inconclusive += ['published bound (updater): ' + i for i in sub.inconclusive]
            for k_ in ('obligations', 'discharged', 'queries', 'evaluations', 'distinct_nontrivial'):
                ck.cov[k_] = ck.cov.get(k_, 0) + sub.cov.get(k_, 0)
            ck.cov['functions_encoded'] = list(ck.cov.get('functions_encoded', [])) + ['ShmUpdater::process_clock_update over short histories: bound of the published record']
        except EngineError as e:
            ck.inconclusive.append('published bound (updater): %s' % e)
    ck.cov['counterexamples_replayed'], ck.cov['counterexamples_confirmed'] = stats
    tv = validate(ck, prog, tm, outs, ex, seed, 40 if tier == 'quick' else 300)
    ck.cov['traces_validated_against_impl'] = tv
    ck.cov['bounds'] = {'offset_s': '[-2^20, 2^20] (any finite double)', 'root_delay_s, root_dispersion_s': '[0, 2^20]', 'float_tolerance': '2^-49 relative (4 roundings) ; ceil and the cast are exact',
                        'phc_error_bound': '[0, 2^62)',
                        'phc_file': 'decimal strings of %s digits (every digit symbolic), with and without a trailing newline; other contents (signs, blanks, non-digits) outside' % ('1, 2, 8, 9, 10, 18' if tier == 'quick' else '1..18')}
    return ck.finish()


def phc_term(ck, prog, pr_outer, seed):
    """the published bound of a synchronised report is the extracted bound plus the PHC error bound handed in with it: the real
    `ShmUpdater::process_clock_update` executed from a fresh daemon with `extract_bound_from_tracking` as an oracle (any bound b >= 0,
    any class) and any PHC term; native confirmation through the real updater (`history`)"""
    from .daemon_updater import UpdaterModel, rec_fields, native_history
    um = UpdaterModel(prog)
    drift = z3.Int('drift')
    st = State(); st.mem[(0, 'u')] = um.fresh_updater(drift)
    phc = z3.Int('phc_0'); as_s, as_n = z3.Int('asof_s_0'), z3.Int('asof_n_0')
    trk, ext, ref = um.new_report()
    outs = um.step_report(st, phc, Struct([as_s, as_n]), trk)
    b, c = ext
    pr = Prover(seed); pr.add(um.ex.side)
    dom = [b >= 0, b < 2 ** 61, phc >= 0, phc < 2 ** 61, as_s >= 0, as_s < 2 ** 40, as_n >= 0, as_n < 10 ** 9, drift >= 0, drift < 2 ** 32]
    hist = [dict(kind=0, phc=phc, as_s=as_s, as_n=as_n, ext=ext, ref=ref, leap=getattr(um, 'last_leap', None))]
    rp = common.Replay('debug')

    def confirm(m):
        out, expect = native_history(rp, m, hist, mval(m, drift))
        if not out.startswith('ok') or len(out.split()) < 2:
            return None
        rec = tuple(int(x) for x in out.split()[1].split(':'))
        e = expect[0]
        ms, ph = e[2], e[3]
        # natively the extracted bound is realised by a root dispersion of `ms` whole milliseconds (so it is ms*1e6 ns, up to 2 ns of rounding up)
        lo, hi = ms * 10 ** 6 + ph, ms * 10 ** 6 + ph + 2
        if e[1] == 1 and not (lo <= rec[4] <= hi):
            ck.violation('phc-term-not-added', 'a synchronised report with |offset|+dispersion+delay/2 = %d ms and a PHC error bound of %d ns: the real ShmUpdater publishes bound_nsec = %d, the sum is %d ns'
                         % (ms, ph, rec[4], lo), {'cmd': 'history', 'native': out, 'steps': [str(e)]})
            return 'phc'
        return None
    k = z3.Int('hint_ms')
    n = 0
    for o in outs:
        if o.kind != 'return':
            continue
        pubs = [e for e in o.state.trace if e.kind == 'publish']
        if not pubs:
            continue
        n += 1
        bound = rec_fields(pubs[-1].ret)[4]
        pr.prove_cegar('process_clock_update path %d: a synchronised report publishes bound = extracted bound + PHC error bound' % n, z3.And(o.state.pcond(), c == 1, *dom), bound == b + phc,
                       confirm, lambda m: [], hints=[[b == k * 10 ** 6, k >= 0, k <= 10 ** 6, phc <= 2 ** 40, b + phc >= 10 ** 9], [b == k * 10 ** 6, k >= 0, k <= 10 ** 6, phc <= 2 ** 40]])
    rp.close()
    if n == 0:
        ck.inconclusive.append('process_clock_update publishes nothing on any path of a first report')
    ck.absorb(pr, 'updater: ')


def base(ck, ex, mir_wall, outs):
    ck.cov['functions_encoded'] = sorted({n.split('>::')[-1] if '>::' in n else n for n in ex.inlined})
    ck.cov['builtins_used'] = sorted(B.USED)
    ck.cov['mir_dump_s'] = round(mir_wall, 1); ck.cov['return_paths'] = len(outs)
    ck.cov['stubs'] = ['<f64 as From<ChronyFloat>>::from: environment, returns an arbitrary finite double of the stated range (the wire format is an arbitrary 32-bit pattern)',
                       'SystemTime::elapsed, Duration::from_secs, Duration comparison: std, modelled as exact integer nanoseconds',
                       'tracing macros: empty-bodied shim crate (logging is not the subject)']
    ck.assumptions += ['binary64 round-to-nearest enclosure per operation; power-of-two scalings exact; float->int casts truncate toward zero and saturate',
                       'reported root delay and root dispersion are non-negative, all three values within 2^20 s']
    ck.cov['rule'] = 'one obligation per (return path, clause); non-trivial when the path is reachable in the domain'


def validate(ck, prog, tm, outs, ex, seed, n):
    """differential translator validation against the natively compiled function"""
    import random
    rnd = random.Random(seed)
    rp = common.Replay('debug')
    pcm, valm = Exec.merge_returns(outs)
    s = z3.Solver(); s.set('timeout', 30000)
    s.add(tm.domain()); s.add(ex.side); s.add(pcm)
    bad = 0; cnt = 0
    vecs = [(0.0, 0.0, 0.0, 0.0, 1, 0)]         # the repo's own test vector shape (all zero floats, leap 1, fresh)
    for _ in range(n):
        c = rnd.choice([0.0, 1e-6, -1e-6, 0.0077, -0.25, rnd.uniform(-2, 2), rnd.uniform(-1e-3, 1e-3)])
        d = rnd.choice([0.0, 1e-4, 0.1, 1.0, rnd.uniform(0, 2)])
        r = rnd.choice([0.0, 1e-5, 0.02, 1.0, rnd.uniform(0, 2)])
        iv = rnd.choice([0.0, 0.1, 0.3, 1.0, 16.0, 64.1, 1024.0, rnd.uniform(0, 100)])
        leap = rnd.choice([0, 1, 2, 3, 4, 65535, rnd.randint(0, 65535)])
        age = rnd.choice([0, 1, 10 ** 9, 2_200_000_000, int(iv * 8 * NS), int(iv * 8 * NS) + 1, int(iv * 8 * NS) - 1, rnd.randint(0, 10 ** 12)])
        vecs.append((c, d, r, iv, leap, max(age, 0)))
    for (c, d, r, iv, leap, age) in vecs:
        nat = native_extract(rp, c, d, r, iv, leap, age)
        if 'bound' not in nat:
            continue
        s.push()
        # the native run's SystemTime::now() is later than the ref_time we constructed by a few microseconds: use the age the harness measured
        s.add(tm.c == z3.RealVal(str(nat['c'])), tm.d == z3.RealVal(str(nat['d'])), tm.r == z3.RealVal(str(nat['r'])), tm.iv == z3.RealVal(str(nat['iv'])),
              tm.leap == leap, tm.ref_ns == 0, tm.now_ns == nat['age_ns'])
        s.add(valm.f[0] == nat['bound'], valm.f[1].disc() == nat['status'])
        res = s.check()
        s.pop(); cnt += 1
        if res != z3.sat:
            bad += 1
            ck.inconclusive.append('translator validation: encoding does not admit native result %s' % nat['raw'])
            if bad > 2:
                break
    rp.close()
    ck.cov['translator_validation'] = {'vectors': cnt, 'disagreements': bad}
    return cnt


# ------------------------------------------------------------------------------------------ C10
def check_c10(tier, seed, owner=None):
    """owner: run the classification clauses as part of another property's check (violations reported under `owner`, Check returned unfinished)"""
    ck = Check(owner or 'C10', tier, seed)
    prog, mir_wall = load_dlib_program()
    tm = TrackingModel(prog)
    ex, fn, outs = run_extract(prog, tm)
    base(ck, ex, mir_wall, outs)
    pr = Prover(seed)
    pr.add(tm.domain(neg_iv=True, wide_ref=True)); pr.add(ex.side)
    age = tm.now_ns - tm.ref_ns
    age_s = z3.ToReal(age) / NS
    # a negative update interval (chronyd's clock stepped between two updates) makes every reference time "older than eight
    # intervals": the threshold is max(0, 8*interval)
    thr = z3.If(tm.iv < 0, z3.RealVal(0), 8 * tm.iv)
    exp = z3.If(z3.Or(tm.now_ns < tm.ref_ns, tm.leap > 3), z3.IntVal(0),
                z3.If(tm.leap == 3, z3.IntVal(2), z3.If(age_s > thr, z3.IntVal(2), z3.IntVal(1))))
    # ages and thresholds are compared at the 1 ns resolution of the representation: within 1 ns of the threshold either class is accepted
    near = z3.And(tm.leap <= 2, tm.now_ns >= tm.ref_ns, z3.ToReal(age) - thr * NS <= 1, z3.ToReal(age) - thr * NS >= -1)
    rp = common.Replay('debug'); rp2 = common.Replay('release')
    stats = [0, 0]

    def confirm(m):
        stats[0] += 1
        iv = mval(m, tm.iv); leap = mval(m, tm.leap); a = mval(m, tm.now_ns) - mval(m, tm.ref_ns)
        if abs(iv) > 2 ** 31 or abs(a) > 2 ** 66:
            return None
        for prof, p in (('dev', rp), ('release', rp2)):
            # the other wire values as the solver chose them (the classification must not depend on them)
            cc, dd, rr = [float(mval(m, x)) for x in (tm.c, tm.d, tm.r)]
            nat = native_extract(p, cc, dd, rr, iv, leap, a)
            if 'status' not in nat:
                continue
            want = c10_oracle(nat, leap)
            near_thr = leap <= 2 and nat['age_ns'] >= 0 and abs(nat['age_ns'] - max(0, 8 * nat['iv']) * NS) <= 1 and nat['status'] in (1, 2)
            if nat['status'] != want and not near_thr:
                stats[1] += 1
                thr = max(0, 8 * nat['iv'])
                sub = nat['status'] == 2 and want == 1 and Fraction(nat['age_ns'], NS) > int(thr) and Fraction(nat['age_ns'], NS) <= thr
                keyname = 'threshold-truncated-to-whole-seconds' if sub else 'classification'
                ck.violation(keyname, 'leap=%d, update interval=%s s, reference-time age=%.9f s: real extract_bound_from_tracking (%s) classifies as %s, the property requires %s (threshold 8*interval = %s s)' %
                             (leap, float(nat['iv']), nat['age_ns'] / 1e9, prof, CLS[nat['status']], CLS[want], float(thr)), {'cmd': nat['raw']})
                return 'classification'
        return None
    for i, o in enumerate(outs):
        pc = o.state.pcond()
        stt = o.value.f[1].disc()
        k1, k2 = z3.Int('hint_k1'), z3.Int('hint_k2')
        k3 = z3.Int('hint_k3')
        hints = [[tm.iv * 16 == z3.ToReal(k1), tm.iv <= 4096, tm.iv >= -4096, (tm.now_ns - tm.ref_ns) == k2 * 1000000, k2 >= 0, k2 < 10 ** 9],
                 # reference times centuries away from now, either side (integer widths of the age)
                 [tm.iv * 16 == z3.ToReal(k1), tm.iv >= 1, tm.iv <= 4096, (tm.now_ns - tm.ref_ns) == k2 * 1000000000, z3.Or(k2 >= 2 ** 33, k2 <= -2 ** 33)],
                 # a non-zero interval of either sign (a zero divisor leaves a float quotient unconstrained in the encoding)
                 [tm.iv * 16 == z3.ToReal(k1), tm.iv <= -1, tm.iv >= -4096, (tm.now_ns - tm.ref_ns) == k2 * 1000000, k2 >= 1000, k2 < 10 ** 9, tm.leap <= 2],
                 [tm.iv * 16 == z3.ToReal(k1), tm.iv >= 1, tm.iv <= 4096, (tm.now_ns - tm.ref_ns) == k2 * 1000000, k2 >= 0, k2 < 10 ** 9],
                 # wire values exactly representable as chrony floats, reference time a whole number of milliseconds ahead of / behind the clock
                 [tm.iv * 16 == z3.ToReal(k1), tm.iv <= 4096, tm.iv >= -4096, (tm.now_ns - tm.ref_ns) == k2 * 1000000, k2 > -10 ** 6, k2 < 10 ** 9,
                  tm.c * 16 == z3.ToReal(k3), tm.d * 16 == z3.ToReal(z3.Int('hint_k4')), tm.r * 16 == z3.ToReal(z3.Int('hint_k5'))],
                 [tm.iv * 1024 == z3.ToReal(k1), tm.iv <= 4096, tm.iv >= -4096, (tm.now_ns - tm.ref_ns) < 10 ** 15, tm.now_ns >= tm.ref_ns]]
        pr.prove_cegar('path%d/status_is_the_documented_class' % i, pc, z3.Or(stt == exp, z3.And(near, z3.Or(stt == 1, stt == 2))), confirm, lambda m: [], hints=hints)
        pr.prove('path%d/status_code_valid' % i, pc, z3.And(stt >= 0, stt <= 2))
    # the leap-status decoding alone, for all 65536 values
    fromu16 = prog.find1('from', self_ty='ChronyClockStatus', crate='clock_bound_d')
    ex2 = Exec(prog)
    lv = z3.Int('leap_only')
    outs2 = ex2.run(fromu16, [lv], State())
    pc2, v2 = Exec.merge_returns(outs2)
    pr2 = Prover(seed); pr2.add(lv >= 0, lv < 65536)
    pr2.prove('From<u16>: leap 0..2 -> Synchronized, 3 -> FreeRunning, anything else -> Unknown (all 65536 values)', pc2,
              v2.disc() == z3.If(lv <= 2, z3.IntVal(1), z3.If(lv == 3, z3.IntVal(2), z3.IntVal(0))))
    pr2.prove('From<u16> is total', z3.BoolVal(True), pc2, need_reach=False)
    ck.absorb(pr2)
    rp.close(); rp2.close()
    ck.absorb(pr)
    ck.cov['counterexamples_replayed'], ck.cov['counterexamples_confirmed'] = stats
    tv = validate(ck, prog, tm, outs, ex, seed, 40 if tier == 'quick' else 300)
    ck.cov['traces_validated_against_impl'] = tv
    if owner:
        return ck
    # the class reaches the published record: process_clock_update after every short history (each FSM state)
    try:
        from .daemon_updater import report_status_part
        Hs = report_status_part(ck, prog, seed, tier)
        ck.cov['functions_encoded'] = list(ck.cov.get('functions_encoded', [])) + ['ShmUpdater::process_clock_update / process_missing_clock_update / write_clock_error_bound and the status FSM (histories of <= %d steps ending in a report)' % Hs]
    except EngineError as e:
        ck.inconclusive.append('status after a report (updater): %s' % e)
    # every report chronyd gives REACHES the classifier: the poller hands a report on as a report whatever its leap status / stratum
    # (a report withheld in the poller is published as "no answer", i.e. with a class the classifier never assigned)
    try:
        from .daemon_poller import poller_table
        poller_table(ck, prog, mir_wall, tier, seed, only_kind=True)
        ck.cov['functions_encoded'] = list(ck.cov.get('functions_encoded', [])) + ['run_clock_error_bound_poller (one iteration): kind of the message for every report content']
    except EngineError as e:
        ck.inconclusive.append('reports reach the classifier (poller): %s' % e)
    ck.cov['bounds'] = {'leap_status': 'all 65536 values', 'update_interval_s': 'any finite double in [-2^40, 2^40] (zero, sub-second and negative included; for a negative interval the threshold is 0: every reference time older than 1 ns is stale)',
                        'reference_time_age': 'any, both signs (ref_time and now as integer ns in [0, 2^62))'}
    return ck.finish()


CLS = {0: 'Unknown', 1: 'Synchronized', 2: 'FreeRunning'}
