"""C19: the drift rate given on the command line is published exactly (x1000) or start-up is refused.

Engine M on the RELEASE-profile MIR of the daemon binary's `main` (overflow checks off, as the README's install
instructions build it).  `main` is executed on a slice: only the statements that the first argument of
`thread_manager::run` depends on are interpreted (plain u32 arithmetic therefore wraps, exactly as in the release
build); everything else - option parsing, logging set-up - is skipped, and branches that do not depend on the slice are
explored both ways with memoisation."""
import os
import re
import subprocess
import time

import z3

from mirsym.exec import Exec, State, parse_place, wrap_int
from mirsym.parser import split_top, strip_generics
from mirsym.program import Program
from mirsym.values import Struct, Enum, Opaque, EngineError, UNIT
from . import common
from .common import Prover, Check, mval

U32 = 2 ** 32


def load_bin_program():
    deps, ts, wall = common.dump_mir('dbin')
    prog = Program(deps, repo=common.REPO, only={'clockbound', 'clock_bound_d'})
    return prog, wall


LOCAL = re.compile(r'_\d+')


class SliceRun:
    def __init__(self, prog, fn, ex):
        self.prog, self.fn, self.ex = prog, fn, ex

    def find_run_call(self):
        for bb, stmts in self.fn.blocks.items():
            t = stmts[-1]
            m = re.match(r'(.+?) = (.+?)\((.*)\) -> ', t)
            if m and re.search(r'(^|::)run$', strip_generics(m.group(2).strip())):
                args = split_top(m.group(3))
                cands = self.prog.resolve(m.group(2).strip(), len(args))
                if any('thread_manager' in c.name or c.name.endswith('run') for c in cands) or not cands:
                    return bb, args
        raise EngineError('call to thread_manager::run not found in main')

    def slice_locals(self, seeds):
        L = set(seeds)
        changed = True
        while changed:
            changed = False
            for bb, stmts in self.fn.blocks.items():
                if bb in self.fn.cleanup:
                    continue
                for s in stmts:
                    k = s.find(' = ')
                    if k < 0 or s.startswith('switchInt') or s.startswith('assert('):
                        continue
                    lhs = s[:k]
                    base = LOCAL.search(lhs)
                    if not base or base.group(0) not in L:
                        continue
                    for v in LOCAL.findall(s[k + 3:].split(' -> ')[0]):
                        if v not in L:
                            L.add(v); changed = True
        return L

    def tainted_by(self, pattern):
        """forward data dependence: locals computed (transitively) from places matching `pattern`"""
        T = set()
        changed = True
        while changed:
            changed = False
            for bb, stmts in self.fn.blocks.items():
                if bb in self.fn.cleanup:
                    continue
                for s in stmts:
                    k = s.find(' = ')
                    if k < 0 or s.startswith('switchInt') or s.startswith('assert('):
                        continue
                    rhs = s[k + 3:].split(' -> ')[0]
                    base = LOCAL.search(s[:k])
                    if not base or base.group(0) in T:
                        continue
                    if re.search(pattern, rhs) or any(v in T for v in LOCAL.findall(rhs)):
                        T.add(base.group(0)); changed = True
        return T

    def control_locals(self, T):
        """operands of branches/asserts that depend on the tainted values (control dependence of the slice)"""
        C = set()
        for bb, stmts in self.fn.blocks.items():
            if bb in self.fn.cleanup:
                continue
            t = stmts[-1]
            m = re.match(r'switchInt\((.+?)\) -> ', t) or re.match(r'assert\(!?(.+?), ', t)
            if m:
                for v in LOCAL.findall(m.group(1)):
                    if v in T:
                        C.add(v)
            for s in stmts[:-1]:
                if s.startswith('assume('):
                    for v in LOCAL.findall(s):
                        if v in T:
                            C.add(v)
        return C

    def mutable_borrows(self, L):
        bad = []
        for bb, stmts in self.fn.blocks.items():
            if bb in self.fn.cleanup:
                continue
            for s in stmts:
                for m in re.finditer(r'&(?:raw )?mut (\(?\*?_\d+)', s):
                    v = LOCAL.search(m.group(1)).group(0)
                    if v in L:
                        bad.append((bb, s[:120]))
        return bad


def run_main_slice(prog, rate_some, rate):
    """returns (list of (pc, value passed to run), list of (pc, kind) for paths that end without calling run)"""
    fn = prog.find1('main', crate='clockbound')
    hits = []

    def h_run(ex, st, callee, args, fn_):
        from mirsym.exec import Event
        hits.append((list(st.pc), args[0]))
        st.trace = st.trace + (Event('run', (), None),)
        return UNIT
    ex = Exec(prog, env=[(r'^run$|thread_manager::run$', h_run)])
    sr = SliceRun(prog, fn, ex)
    run_bb, run_args = sr.find_run_call()
    seeds = set(LOCAL.findall(run_args[0]))
    L = sr.slice_locals(seeds)
    # control dependence: branch conditions computed from the option value decide which definition reaches run()
    cli_local = None
    for bb, stmts in fn.blocks.items():
        t = stmts[-1]
        if re.search(r'= <Cli as (clap::)?Parser>::parse\(|Cli::parse\(', t):
            cli_local = LOCAL.search(t.split(' = ')[0]).group(0)
    if cli_local is None:
        raise EngineError('Cli::parse() call not found in main')
    names0 = prog.struct_fields.get('Cli') or []
    if 'max_drift_rate' not in names0:
        raise EngineError('Cli.max_drift_rate not found')
    T = sr.tainted_by(r'\(%s\.%d: ' % (cli_local, names0.index('max_drift_rate')))
    L = sr.slice_locals(set(L) | sr.control_locals(T))
    cli = None
    # the parsed command line: only the field the slice reads is modelled
    # Cli { max_drift_rate: Option<u32>, json_output: bool, phc_ref_id: Option<u32>, phc_interface: Option<String> }
    names = prog.struct_fields.get('Cli') or []
    if 'max_drift_rate' not in names:
        raise EngineError('Cli.max_drift_rate not found')
    fields = [Opaque('cli.' + n) for n in names]
    ftys = prog.struct_field_types.get('Cli') or []
    fty = ftys[names.index('max_drift_rate')] if len(ftys) == len(names) else ''
    rate_val = rate
    if re.search(r'\bf(32|64)\b', fty):
        # the option is kept as a float: its value is the real number `rate` (any real; a binary32/64 in particular)
        from mirsym.values import FLin
        rate_val = FLin(rate if z3.is_real(rate) else z3.ToReal(rate))
    elif z3.is_real(rate):
        raise EngineError('Cli.max_drift_rate has type %s' % fty)
    fields[names.index('max_drift_rate')] = Enum(z3.If(rate_some, z3.IntVal(1), z3.IntVal(0)), {'Some': Struct([rate_val]), 'None': UNIT})
    cli = Struct(fields)
    borrows = sr.mutable_borrows(L)
    st0 = State()
    fr = ex.new_frame()
    ends = []
    seen = set()
    work = [('bb0', st0)]
    steps = 0
    while work:
        bb, st = work.pop()
        while True:
            steps += 1
            if steps > 200000:
                raise EngineError('slice execution of main does not terminate')
            key = (bb, tuple(sorted((l, id(v)) for (f, l), v in st.mem.items() if f == fr)), tuple(id(c) for c in st.pc), len(st.trace))
            if key in seen:
                break
            seen.add(key)
            stmts = fn.blocks[bb]
            for s in stmts[:-1]:
                k = s.find(' = ')
                if k < 0:
                    continue
                lhs = s[:k]
                base = LOCAL.search(lhs)
                if base and base.group(0) in L:
                    try:
                        ex.stmt(s, st, fr, fn)
                    except EngineError:
                        dest = parse_place(lhs)
                        if not dest[1]:
                            st.mem[(fr, dest[0])] = Opaque('unmodelled:' + s[:40])
            t = stmts[-1]
            if t == 'return':
                if not any(e.kind == 'run' for e in st.trace):
                    ends.append((list(st.pc), 'return without starting the daemon threads'))
                break
            if t.startswith('goto -> '):
                bb = t[8:]; continue
            if t in ('unreachable',) or t.startswith('resume') or t.startswith('abort'):
                break
            m = re.match(r'switchInt\((.+)\) -> \[(.+)\]$', t)
            if m:
                opl = LOCAL.findall(m.group(1))
                arms = [a.split(': ') for a in m.group(2).split(', ')]
                v = None
                if opl and all(x in L or (fr, x) in st.mem for x in opl):
                    try:
                        v = ex.operand(m.group(1), st, fr)
                    except EngineError:
                        v = None
                if isinstance(v, Enum):
                    v = v.disc()
                if v is None or isinstance(v, Opaque):
                    for val, tgt in arms:
                        work.append((tgt, st.fork()))
                    break
                rest = []
                nxt = []
                for val, tgt in arms:
                    if val == 'otherwise':
                        cond = z3.And(rest) if rest else z3.BoolVal(True)
                    else:
                        kk = int(val)
                        cond = (v if kk else z3.Not(v)) if z3.is_bool(v) else (v == kk)
                        rest.append(z3.Not(cond))
                    cond = z3.simplify(cond)
                    if z3.is_false(cond):
                        continue
                    s2 = st.fork(); s2.pc.append(cond); nxt.append((tgt, s2))
                work.extend(nxt)
                break
            m = re.match(r'assert\((!?)(.+?), (".*?")(?:, .*)?\) -> \[success: (bb\d+).*\]$', t)
            if m:
                opl = LOCAL.findall(m.group(2))
                if opl and all(x in L for x in opl):
                    v = ex.operand(m.group(2), st, fr)
                    good = z3.Not(v) if m.group(1) else v
                    s2 = st.fork(); s2.pc.append(z3.Not(good))
                    if not any(e.kind == 'run' for e in st.trace):
                        ends.append((list(s2.pc), 'panic: ' + m.group(3)))
                    st.pc.append(good)
                bb = m.group(4); continue
            m = re.match(r'drop\((.+)\) -> \[return: (bb\d+).*\]$', t)
            if m:
                bb = m.group(2); continue
            m = re.match(r'(.+?) = (.+)\((.*)\) -> (?:\[return: (bb\d+).*\]|unwind.*|bb\d+)$', t, flags=re.S)
            if m:
                dest, callee, argstr, nx = m.groups()
                callee, argstr = Exec._split_call(t)
                base = LOCAL.search(dest)
                is_run = bb == run_bb
                if re.search(r'(^|::)Cli::parse$|as Parser>::parse$|as clap::Parser>::parse$', strip_generics(callee)):
                    st.mem[(fr, base.group(0))] = cli
                elif is_run or (base and base.group(0) in L):
                    try:
                        argv = [ex.operand(a, st, fr) for a in split_top(argstr)] if argstr.strip() else []
                        outs = ex.call(callee, argv, st, fr, fn)
                        if outs:
                            st2, val = outs[0]
                            ex.store(st, fr, parse_place(dest.strip()), val)
                    except EngineError as e:
                        if is_run:
                            raise
                        st.mem[(fr, base.group(0))] = Opaque('unmodelled call ' + callee[:40])
                if nx is None:
                    if not any(e.kind == 'run' for e in st.trace):
                        ends.append((list(st.pc), 'diverges in ' + strip_generics(callee)[-40:]))
                    break
                bb = nx; continue
            raise EngineError('terminator? ' + t[:100])
    return hits, ends, dict(slice_locals=sorted(L), mutable_borrows=borrows, ex=ex, fn=fn, steps=steps, option_type=fty)


def option_parser_constraint(prog, rate, some):
    """a float-typed option gets its range check in a clap `value_parser` function of the crate (the slice of main starts after the
    command line has been parsed).  That function is found through the `Arg::value_parser::<fn ... {NAME}>` call that follows
    `Arg::new("max_drift_rate")` in the derived clap code and executed from the library's MIR with `str::parse::<f32|f64>` as an
    environment function returning an arbitrary float: a Some(v) in the parsed command line is the value of one of its Ok paths.
    returns (z3 constraint, side constraints, description) or None when there is no such function"""
    from mirsym.values import FLin
    name = None
    for fname, lst in prog.fns.items():
        for f in lst:
            order = sorted(f.blocks, key=lambda b: int(b[2:]) if b[2:].isdigit() else 10 ** 6)
            found = False
            for bb in order:
                t = f.blocks[bb][-1]
                if re.search(r'Arg::new::<&str>\(const "max_drift_rate"\)', t):
                    found = True; continue
                if found and re.search(r'Arg::new::<&str>\(const "', t):
                    found = False
                if found:
                    m = re.search(r'Arg::value_parser::<.*\{([\w:]+)\}>\(', t)
                    if m:
                        name = m.group(1); break
            if name:
                break
        if name:
            break
    if name is None:
        return None
    from .daemon_extract import load_dlib_program
    dprog, _w = load_dlib_program()
    cands = dprog.resolve(name.split('::')[-1], 1)
    if len(cands) != 1:
        raise EngineError('value parser %s of --max-drift-rate: %d candidates' % (name, len(cands)))
    parse_ok = z3.Bool('option_string_parses')

    def h_parse(ex, st, callee, args, fn):
        return Enum(z3.If(parse_ok, z3.IntVal(0), z3.IntVal(1)), {'Ok': Struct([FLin(rate if z3.is_real(rate) else z3.ToReal(rate))]), 'Err': Struct([Opaque('ParseFloatError')])})
    env = [(r'<impl str>::parse::<f(32|64)>$', h_parse), (r'<impl str>::(trim|trim_start|trim_end)$', lambda ex, st, c, a, f: a[0]),
           (r'(^|::)(must_use)(::<.*>)?$', lambda ex, st, c, a, f: a[0])]
    ex = Exec(dprog, env=env, opaque_calls=[r'Argument(::<.*>)?::new_\w+', r'Arguments(::<.*>)?::new', r'(^|::)format$', r'fmt::format'])
    outs = ex.run(cands[0], [Opaque('option string')], State())
    oks = []
    for o in outs:
        if o.kind != 'return':
            continue
        v = o.value
        if isinstance(v, Enum) and 'Ok' in v.p:
            d = v.disc()
            val = v.p['Ok'].f[0]
            oks.append(z3.And(o.state.pcond(), d == 0, ex.to_lin(val) == (rate if z3.is_real(rate) else z3.ToReal(rate))))
    if not oks:
        raise EngineError('value parser %s has no Ok path' % name)
    return z3.Implies(some, z3.Or(oks)), list(ex.side), '%s (%d return paths, %d accepting)' % (name, len(outs), len(oks))


def native_drift(rate):
    """start the REAL release binary with --max-drift-rate <rate>, read the drift it publishes (or its exit status)"""
    tdir = common.mir_target_dir('dbin')
    binp = os.path.join(tdir, 'release', 'clockbound')
    if not os.path.exists(binp):
        return {'error': 'release binary missing'}
    shm = '/var/run/clockbound/shm'
    try:
        os.remove(shm)
    except OSError:
        pass
    args = [binp] + ([] if rate is None else ['--max-drift-rate', str(rate)])
    p = subprocess.Popen(args, stdout=subprocess.PIPE, stderr=subprocess.PIPE, text=True)
    val = None
    t0 = time.time()
    while time.time() - t0 < 8:
        if p.poll() is not None:
            break
        try:
            b = open(shm, 'rb').read()
            if len(b) >= 72 and int.from_bytes(b[14:16], 'little') >= 2:
                val = int.from_bytes(b[56:60], 'little'); break
        except OSError:
            pass
        time.sleep(0.05)
    rc = p.poll()
    if rc is None:
        p.terminate()
        try:
            p.wait(timeout=3)
        except subprocess.TimeoutExpired:
            p.kill()
    out = (p.stdout.read() or '')[-300:] + (p.stderr.read() or '')[-300:]
    try:
        os.remove(shm)
    except OSError:
        pass
    return {'published_max_drift_ppb': val, 'exit_status_before_publication': rc, 'output_tail': out.strip()[-200:]}


def run_check(tier, seed):
    ck = Check('C19', tier, seed)
    prog, mir_wall = load_bin_program()
    rate = z3.Int('max_drift_rate_ppm'); some = z3.Bool('option_given')
    names_ = prog.struct_fields.get('Cli') or []
    ftys_ = prog.struct_field_types.get('Cli') or []
    is_float = 'max_drift_rate' in names_ and len(ftys_) == len(names_) and re.search(r'\bf(32|64)\b', ftys_[names_.index('max_drift_rate')])
    if is_float:
        # a fractional option: any non-negative real with at most three decimals (a whole number of ppb)
        rate = z3.Real('max_drift_rate_ppm')
    hits, ends, info = run_main_slice(prog, some, rate)
    pr = Prover(seed)
    pr.add(rate >= 0, rate < U32); pr.add(info['ex'].side)
    if is_float:
        ppb = z3.Int('max_drift_rate_ppb_exact')
        pr.add(z3.ToReal(ppb) == rate * 1000)
        ck.cov['option_type'] = info.get('option_type')
    ck.cov['functions_encoded'] = ['main (clockbound binary, release profile MIR): slice of the first argument of thread_manager::run']
    ck.cov['slice_locals'] = info['slice_locals']; ck.cov['slice_steps'] = info['steps']
    ck.cov['mir_dump_s'] = round(mir_wall, 1)
    ck.cov['stubs'] = ['Cli::parse(): returns a Cli whose max_drift_rate is an arbitrary Option of its declared type (an Ok value of the value_parser function of the option when it has one); every statement outside the slice (clap, tracing set-up, PHC options) is skipped']
    try:
        opc = option_parser_constraint(prog, rate, some)
        if opc:
            pr.add(opc[0]); pr.add(opc[1])
            ck.cov['functions_encoded'].append('clap value parser of --max-drift-rate: ' + opc[2])
            ck.cov['stubs'].append('str::parse::<f32|f64> inside the value parser: returns an arbitrary float or an error')
    except EngineError as e:
        ck.inconclusive.append('value parser of --max-drift-rate not executable: %s' % e)
    if info['mutable_borrows']:
        ck.inconclusive.append('a slice local is mutably borrowed in main (%s): the slice may be incomplete' % (info['mutable_borrows'][:2],))
    if not hits:
        ck.inconclusive.append('no path of main reaches thread_manager::run')
    want = z3.If(some, ppb if is_float else rate * 1000, z3.IntVal(1000))
    confirmed = [0]

    def confirm(m):
        r = mval(m, rate) if mval(m, some) else None
        if r is not None and is_float:
            from fractions import Fraction
            q = Fraction(r) * 1000
            if q.denominator != 1:
                return None
            exp_ppb = int(q)
            # the enclosure of a float computation says how far the result may be off, not where: replay the model's value and
            # values whose product with 1000 needs more significant bits than a binary32 / binary64 has
            cands = [exp_ppb] + [x * 1000 for x in (134219, 268437, 536873, 1073745, 2147487, 4294967, 16777, 33555)] + [500, 1, 1001]
            for c_ppb in cands:
                if c_ppb >= U32:
                    continue
                r = c_ppb // 1000 if c_ppb % 1000 == 0 else '%d.%03d' % (c_ppb // 1000, c_ppb % 1000)
                nat = native_drift(r)
                exp = c_ppb
                if nat.get('published_max_drift_ppb') is not None and nat['published_max_drift_ppb'] != exp:
                    break
                if nat.get('published_max_drift_ppb') is None and nat.get('exit_status_before_publication') not in (None, 0):
                    break
        else:
            nat = native_drift(r)
            exp = 1000 if r is None else r * 1000
        if nat.get('published_max_drift_ppb') is not None and nat['published_max_drift_ppb'] != exp:
            confirmed[0] += 1
            kind = 'wrapped' if (r is not None and nat['published_max_drift_ppb'] == exp % U32) else 'wrong-value'
            ck.violation('drift-' + kind, 'the real release binary started with %s published max_drift_ppb = %d, expected %s' % (
                '--max-drift-rate %s' % r if r is not None else 'no --max-drift-rate', nat['published_max_drift_ppb'], ('%d (not representable in 32 bits: start-up must be refused)' % exp) if exp >= U32 else exp),
                {'cmd': 'clockbound --max-drift-rate %s' % r, 'native': nat})
            return kind
        if nat.get('published_max_drift_ppb') is None and exp < U32 and nat.get('exit_status_before_publication') not in (None, 0):
            confirmed[0] += 1
            ck.violation('drift-refused-representable', 'the real release binary refused to start with a representable rate %s: %s' % (r, nat), {'native': nat})
            return 'refused'
        return None
    for i, (pc, val) in enumerate(hits):
        pcc = z3.And(pc) if pc else z3.BoolVal(True)
        if not isinstance(val, z3.ExprRef):
            ck.inconclusive.append('the value passed to run() is not precise: %r' % (val,)); continue
        hk = z3.Int('hint_ppm')
        hints = [[rate == z3.ToReal(hk), hk >= 134217, hk <= 4294967], [rate == z3.ToReal(hk), hk >= 1]] if is_float else None
        pr.prove_cegar('path %d to run(): published rate = 1000 x option as integers (1000 when omitted), never wrapped' % i, pcc, val == want, confirm, lambda m: [],
                       **({'hints': hints} if hints else {}))
    # standing native runs of the real release binary: the default, small and large representable rates, the largest one, the first
    # that does not fit and larger ones: published = 1000 x rate exactly, or no publication at all (start-up refused)
    if not is_float and not ck.violations:
        sweep = []
        for r in (None, 1, 1000, 4294967, 4294968, 5000000, 4294967295):
            nat = native_drift(r)
            exp = 1000 if r is None else r * 1000
            pub = nat.get('published_max_drift_ppb')
            sweep.append({'rate': r, 'published': pub, 'exit_before_publication': nat.get('exit_status_before_publication')})
            ck.cov['evaluations'] += 1
            if nat.get('error'):
                continue
            if pub is not None and pub != exp:
                confirmed[0] += 1
                ck.violation('drift-wrong-value', 'the real release binary started with %s published max_drift_ppb = %d, expected %s' % (
                    '--max-drift-rate %s' % r if r is not None else 'no --max-drift-rate', pub, ('%d (not representable in 32 bits: start-up must be refused)' % exp) if exp >= U32 else exp),
                    {'cmd': 'clockbound --max-drift-rate %s' % r, 'native': nat})
                break
            if pub is None and exp < U32 and nat.get('exit_status_before_publication') not in (None, 0):
                confirmed[0] += 1
                ck.violation('drift-refused-representable', 'the real release binary refused to start with a representable rate %s: %s' % (r, nat), {'native': nat})
                break
        ck.cov['native_rate_sweep'] = sweep
        if ck.violations:
            ck.inconclusive = [i for i in ck.inconclusive if not i.startswith('the value passed to run() is not precise')]
    # every representable rate does reach run()
    reach = z3.Or([z3.And(pc) if pc else z3.BoolVal(True) for pc, v in hits]) if hits else z3.BoolVal(False)
    pr.prove_cegar('every representable rate (and the default) reaches thread_manager::run on some path (refusals for other reasons, e.g. PHC options, are separate paths)',
                   z3.Or(z3.Not(some), (ppb if is_float else rate * 1000) < U32), reach, confirm, lambda m: [], need_reach=False)
    ck.absorb(pr)
    # the value's way from thread_manager::run to the updater: spawn closure capture -> shm_writer::run -> ShmUpdater::new
    try:
        from .thread_exit import drift_chain
        from .daemon_extract import load_dlib_program
        dprog, _w2 = load_dlib_program()
        param, links = drift_chain(dprog)
        prl = Prover(seed); prl.add(param >= 0, param < U32)
        for name, term in links:
            if term is None:
                ck.inconclusive.append('rate hand-over not extracted: ' + name)
            else:
                def confirm_link(m, name=name):
                    # the model's value is in ppb; the command line takes ppm: replay with the rates around it and with the largest one
                    v = mval(m, param) or 0
                    for r in sorted({max(1, min(4294967, (v + 999) // 1000)), max(1, min(4294967, v // 1000)), 4294967}):
                        nat = native_drift(r)
                        pub = nat.get('published_max_drift_ppb')
                        if pub is not None and pub != r * 1000:
                            confirmed[0] += 1
                            ck.violation('drift-changed-inside-the-daemon', 'the real release binary started with --max-drift-rate %d published max_drift_ppb = %d, expected %d (%s)' % (r, pub, r * 1000, name),
                                         {'cmd': 'clockbound --max-drift-rate %s' % r, 'native': nat})
                            return 'hand-over'
                    return None
                kk = z3.Int('hint_k_ppm')
                prl.prove_cegar('hand-over inside the daemon: %s, unchanged (all 2^32 values)' % name, z3.BoolVal(True), term == param,
                                confirm_link, lambda m: [], need_reach=False, hints=[[param == kk * 1000, kk >= 1, kk <= 4294967]])
        ck.absorb(prl)
        ck.cov['functions_encoded'] += ['thread_manager::run (prefix: closure captures)', 'thread_manager::run::{closure#1}', 'shm_writer::run']
    except EngineError as e:
        ck.inconclusive.append('rate hand-over inside the daemon: %s' % e)
    # from the updater into every record it publishes (all histories of <= H outcomes through the real updater)
    try:
        from .daemon_updater import drift_published_part
        Hd = drift_published_part(ck, dprog, seed, tier)
        ck.cov['functions_encoded'].append('ShmUpdater::{process_clock_update, process_missing_clock_update, write_clock_error_bound}: max_drift_ppb of every published record (histories of <= %d outcomes)' % Hd)
    except EngineError as e:
        ck.inconclusive.append('rate in the published records: %s' % e)
    except NameError:
        ck.inconclusive.append('rate in the published records: daemon program not loaded')
    try:
        from .seqlock_model import Programs
        from .client_now import load_shm_program
        from . import record_store
        sprog, _w = load_shm_program()
        Pn = Programs(sprog, writer_new_only=True)
        prs = Prover(seed)
        record_store.check(ck, prs, sprog, Pn, only=['max_drift_ppb'])
        ck.absorb(prs)
        ck.cov['functions_encoded'].append('ShmWriter::write over a typed record: max_drift_ppb of the argument is stored into the segment (any start generation, any prior content)')
    except EngineError as e:
        ck.inconclusive.append('record store of write(): %s' % e)
    ck.cov['paths_to_run'] = len(hits); ck.cov['other_path_ends'] = len(ends)
    ck.cov['counterexamples_confirmed'] = confirmed[0]
    ck.cov['bounds'] = {'option': 'None or any of the 2^32 u32 values', 'profile': 'release (plain Mul wraps, as in the installed binary)',
                        'outside': 'clap\'s own parsing of the option string; ShmUpdater::new -> every record is C08\'s subject (the field is copied verbatim)'}
    ck.cov['rule'] = 'one obligation per path of main reaching run() and per rate-dependent path that does not'
    return ck.finish()
