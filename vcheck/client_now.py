"""C05 / C06 / C14 (and the client half of C12): `ClockErrorBound::now()` executed symbolically from its MIR,
with every `nix::sys::time::TimeSpec` callee inlined from nix's own MIR.

One symbolic execution serves the three properties; each check asserts its own obligations.
"""
import random
import re
import time
from fractions import Fraction

import z3

from mirsym.exec import Exec, State, Event
from mirsym.program import Program
from mirsym.values import Struct, Enum, Ref, Opaque, EngineError
from mirsym import builtins as B
from . import common
from .common import Prover, Check, Inconclusive, log, mval

Y68 = 68 * 366 * 86400
NS = 10 ** 9
TOL_NUM, TOL_DEN = 1, 2 ** 49           # relative enclosure term of the float island (DESIGN.md 3.2)


def load_shm_program():
    deps, ts, wall = common.dump_mir('shm')
    prog = Program(deps, repo=common.REPO, only={'clock_bound_shm', 'clock_bound_client', 'clockbound', 'nix', 'errno', 'libc', 'byteorder'})
    prog.layouts = common.parse_layouts(ts, prog.struct_fields)
    return prog, wall


class NowModel:
    """symbolic execution of ClockErrorBound::now() for one symbolic record and one pair of clock readings"""

    def __init__(self, prog, tag='', by_clock_id=True):
        # by_clock_id: the two clocks stand still during the call (every read of CLOCK_REALTIME returns the one realtime reading,
        # every read of a monotonic clock the one monotonic reading): C05/C06/C14 are statements about the answer as a function of
        # that pair, and this is also what the native replay's virtual clock does.  by_clock_id=False (C12): the n-th read of the
        # call returns the n-th reading, each an independent value.
        self.by_clock_id = by_clock_id
        self.prog = prog
        I = lambda n: z3.Int(n + tag)
        self.v = v = {k: I(k) for k in ('as_s', 'as_n', 'va_s', 'va_n', 'bound', 'drift', 'st', 're_s', 're_n', 'mo_s', 'mo_n')}
        self.clock_ok = [z3.Bool('clk%d_ok%s' % (i, tag)) for i in range(2)]
        self.readings = [Struct([v['re_s'], v['re_n']]), Struct([v['mo_s'], v['mo_n']])]

    def domain(self):
        v = self.v
        d = [z3.And(v[k] >= -Y68, v[k] <= Y68) for k in ('as_s', 'va_s', 're_s', 'mo_s')]
        d += [z3.And(v[k] >= 0, v[k] < NS) for k in ('as_n', 'va_n', 're_n', 'mo_n')]
        d += [v['bound'] >= 0, v['bound'] < 2 ** 60, v['drift'] >= 0, v['drift'] < 2 ** 32, v['st'] >= 0, v['st'] <= 2]
        return d

    def run(self, ex=None, entry='now'):
        prog = self.prog
        v = self.v
        calls = []

        def clock_env(ex_, st, callee, args, fn):
            i = len([e for e in st.trace if e.kind == 'clock_gettime'])
            if i >= 12:
                raise EngineError('more than twelve clock reads on a path of now()')
            while i >= len(self.readings):
                # further reads: later readings of the two clocks (each at or after every earlier reading of the same path)
                k = len(self.readings)
                s_, n_ = z3.Int('clk%d_s' % k), z3.Int('clk%d_n' % k)
                self.readings.append(Struct([s_, n_])); self.clock_ok.append(z3.Bool('clk%d_ok' % k))
                self.ex.side.append(z3.And(n_ >= 0, n_ < NS, s_ >= -Y68, s_ <= Y68))
                self.extra_reads = getattr(self, 'extra_reads', []) + [(k, s_, n_)]
            ok = self.clock_ok[i]
            ri = i
            if self.by_clock_id:
                cid = z3.simplify(args[0]) if isinstance(args[0], z3.ExprRef) else None
                if cid is None or not z3.is_int_value(cid):
                    raise EngineError('clock id of a read in now() is not a constant')
                ri = 0 if cid.as_long() == 0 else 1
            ret = Enum(z3.If(ok, z3.IntVal(0), z3.IntVal(1)),
                       {'Ok': Struct([self.readings[ri]]),
                        'Err': Struct([Enum(0, {'SyscallError': Struct([Struct([z3.Int('errno%d' % i)]), Opaque('origin:clock_gettime')])})])})
            st.trace = st.trace + (Event('clock_gettime', (args[0],), ret, {'index': i}),)
            return ret

        def getres_env(ex_, st, callee, args, fn):
            # clock_getres(2): on success the kernel stores the resolution of the clock, a well-formed timespec of at least 1 ns
            # (whatever the machine: 1 ns for the fine clocks, a kernel tick - up to 10 ms with HZ=100 - for the COARSE ones)
            if not hasattr(self, 'res'):
                self.res = (z3.Int('clock_res_s'), z3.Int('clock_res_n'), z3.Bool('clock_getres_ok'))
                rs, rn, _ = self.res
                self.ex.side.append(z3.And(rs >= 0, rs <= 1, rn >= 0, rn < NS, rs * NS + rn >= 1))
            rs, rn, rok = self.res
            st.trace = st.trace + (Event('clock_getres', (args[0],), None),)
            if isinstance(args[1], Ref):
                r = args[1]
                old = st.mem.get((r.frame, r.local))
                st.mem[(r.frame, r.local)] = ex_.upd(old, tuple(r.path), Struct([rs, rn])) if r.path else Struct([rs, rn])
            return z3.If(rok, z3.IntVal(0), z3.IntVal(-1))

        self.ex = ex or Exec(prog, env=[(r'(^|::)clock_gettime_safe$', clock_env), (r'^(libc::)?clock_getres$', getres_env),
                                        (r'(^|::)errno::errno$|^errno$', lambda ex_, st, callee, args, fn: Struct([z3.Int('errno_after_libc_call')])),
                                        # the origin string of a SyscallError (syserror!): carried along, never inspected
                                        (r'<impl str>::as_bytes$', lambda ex_, st, callee, args, fn: args[0]),
                                        (r'CStr::from_bytes_with_nul$', lambda ex_, st, callee, args, fn: Enum(0, {'Ok': Struct([args[0]])}))])
        self.ex.no_merge = [r'::compute_bound_at$']
        ceb = Struct([Struct([v['as_s'], v['as_n']]), Struct([v['va_s'], v['va_n']]), v['bound'], v['drift'], z3.IntVal(0), Enum(v['st'], {})])
        st = State()
        st.mem[(0, 'ceb')] = ceb
        if entry == 'now':
            fn = prog.find1('now', self_ty='ClockErrorBound', crate='clock_bound_shm')
            self.fn_name = fn.name
            self.outs = self.ex.run(fn, [Ref(0, 'ceb')], st)
        else:
            fn = prog.find1('compute_bound_at', self_ty='ClockErrorBound')
            self.fn_name = fn.name
            self.outs = self.ex.run(fn, [Ref(0, 'ceb'), self.readings[0], self.readings[1]], st)
        return self.outs

    # exact integer views
    def ns(self):
        v = self.v
        return dict(real=v['re_s'] * NS + v['re_n'], mono=v['mo_s'] * NS + v['mo_n'], asof=v['as_s'] * NS + v['as_n'], va=v['va_s'] * NS + v['va_n'])


def ts_ns(ts):
    t = ts.f[0] if len(ts.f) == 1 else ts
    return t.f[0] * NS + t.f[1], t


# ------------------------------------------------------------------------------------ concrete oracle (replay side)
def oracle(case, native):
    """exact-arithmetic evaluation of C05/C06/C14 on a native result. returns {property: [violated clauses]}"""
    as_s, as_n, va_s, va_n, bound, drift, st, re_s, re_n, mo_s, mo_n = case
    real, mono, asof, va = re_s * NS + re_n, mo_s * NS + mo_n, as_s * NS + as_n, va_s * NS + va_n
    bad = {'C05': [], 'C06': [], 'C14': [], 'C12': []}
    kind = native.split()[0]
    if kind == 'panic':
        bad['C14'].append('panic: ' + native)
        return bad
    reads = native.split('reads=')[-1] if 'reads=' in native else ''
    if reads and reads != '0,6':
        bad['C12'].append('clock reads in order %s (expected realtime=0 then monotonic-coarse=6)' % reads)
    if drift >= NS:
        if not native.startswith('err SegmentMalformed'):
            bad['C14'].append('drift >= 1e9 must give SegmentMalformed, got ' + native)
        return bad
    if mono <= asof - 1000:
        if not native.startswith('err CausalityBreach'):
            bad['C14'].append('mono <= as_of - blur must give CausalityBreach, got ' + native)
        return bad
    if kind != 'ok':
        bad['C14'].append('expected an interval, got ' + native)
        return bad
    f = native.split()
    e_s, e_n, l_s, l_n, status = int(f[1]), int(f[2]), int(f[3]), int(f[4]), int(f[5])
    e, l = e_s * NS + e_n, l_s * NS + l_n
    if not (0 <= e_n < NS and 0 <= l_n < NS):
        bad['C05'].append('non-normalised timespec')
    hw = l - real
    if real - e != hw:
        bad['C05'].append('not symmetric: real-earliest=%d latest-real=%d' % (real - e, hw))
    if e > l:
        bad['C05'].append('earliest > latest')
    el = max(mono - asof, 0)
    r = Fraction(drift * el, NS)
    g = hw - bound
    if not (g > r - 1 - r * Fraction(TOL_NUM, TOL_DEN)):
        bad['C05'].append('half-width %d < bound %d + drift*elapsed %s - 1' % (hw, bound, float(r)))
    if not (g <= r * (1 + Fraction(TOL_NUM, TOL_DEN))):
        bad['C05'].append('half-width %d > bound %d + drift*elapsed %s' % (hw, bound, float(r)))
    if va >= asof + 5 * NS:
        if status == 1 and not (st == 1 and mono < asof + 5 * NS):
            bad['C06'].append('Synchronized reported for stored=%d age=%dns' % (st, mono - asof))
        if status == 2 and not (st != 0 and mono < va):
            bad['C06'].append('FreeRunning reported for stored=%d, mono-void_after=%dns' % (st, mono - va))
        if (st == 0 or mono >= va) and status != 0:
            bad['C06'].append('Unknown expected (stored=%d, mono-void_after=%d), got %d' % (st, mono - va, status))
        if mono < asof + 5 * NS and status != st:
            bad['C06'].append('fresh record: status %d not passed through (got %d)' % (st, status))
    return bad


def case_of_model(m, nm):
    v = nm.v
    return [mval(m, v[k]) for k in ('as_s', 'as_n', 'va_s', 'va_n', 'bound', 'drift', 'st', 're_s', 're_n', 'mo_s', 'mo_n')]


def in_domain(c):
    as_s, as_n, va_s, va_n, bound, drift, st, re_s, re_n, mo_s, mo_n = c
    return all(-Y68 <= x <= Y68 for x in (as_s, va_s, re_s, mo_s)) and all(0 <= x < NS for x in (as_n, va_n, re_n, mo_n)) and \
        0 <= bound < 2 ** 60 and 0 <= drift < 2 ** 32 and 0 <= st <= 2


# ------------------------------------------------------------------------------------ the check
def run_check(prop, tier, seed, owner=None, restrict=None):
    """owner / restrict: run the clauses of `prop` as part of another property's check (violations are reported under `owner`), on the
    records satisfying restrict(v) only; the Check object is returned unfinished"""
    ck = Check(owner or prop, tier, seed)
    t0 = time.time()
    prog, mir_wall = load_shm_program()
    nm = NowModel(prog)
    outs = nm.run()
    ex = nm.ex
    exec_wall = time.time() - t0 - mir_wall
    ck.cov['functions_encoded'] = sorted({n.split('>::')[-1] if '>::' in n else n for n in ex.inlined})
    ck.cov['builtins_used'] = sorted(B.USED)
    ck.cov['bounds'] = {'timestamps_abs_s': Y68, 'tv_nsec': '[0,1e9)', 'bound_nsec': '[0,2^60)', 'max_drift_ppb': 'any u32', 'status': '0..2',
                        'unrolling': 'none (loop-free)', 'float_tolerance': '1 ns truncation + 2^-49 relative (enclosure of 3 binary64 roundings)'}
    ck.cov['mir_dump_s'] = round(mir_wall, 1); ck.cov['symbolic_execution_s'] = round(exec_wall, 1)
    ck.cov['return_paths'] = len(outs); ck.cov['inlined_calls'] = ex.calls
    ck.cov['stubs'] = ['clock_gettime_safe: environment, returns Ok(arbitrary timespec in the domain) or Err(SyscallError)']
    ck.assumptions += ['mathematical integers + proved range obligations (C14 discharges every overflow obligation on the same domain)',
                       'binary64 round-to-nearest enclosure |fl(x)-x| <= 2^-53|x| per operation, truncating and saturating float->int cast',
                       'timestamps within +-68 years, 0 <= tv_nsec < 1e9, 0 <= bound < 2^60']
    pr = Prover(seed)
    pr.add(nm.domain()); pr.add(ex.side)
    if restrict is not None:
        pr.add(restrict(nm.v))
    v = nm.v; n = nm.ns()
    real, mono, asof, va = n['real'], n['mono'], n['asof'], n['va']

    # ---- C12 (client half) is asserted by every check that uses this model: order and identity of the reads
    for o in outs:
        evs = [e for e in o.state.trace if e.kind == 'clock_gettime']
        ids = [z3.simplify(e.args[0]) for e in evs]
        if prop == 'C12':
            pass

    rps = [common.Replay('debug'), common.Replay('release')]
    confirmed = [0, 0]      # replayed, confirmed

    def native_violations(cases):
        """run the real code (dev and release) on concrete cases; evaluate the property exactly"""
        viol = []
        nat_all = []
        for prof, rp in zip(('dev', 'release'), rps):
            res = [rp.ask('now ' + ' '.join(map(str, cc))) for cc in cases]
            nat_all.append(res)
            for cc, r in zip(cases, res):
                b = oracle(cc, r)
                if b.get(prop):
                    viol.append((prof, cc, r, b[prop]))
            if len(cases) == 2 and prop == 'C05' and all(r.startswith('ok') for r in res):
                hw = []
                for cc, r in zip(cases, res):
                    f = r.split(); hw.append(int(f[3]) * NS + int(f[4]) - (cc[7] * NS + cc[8]))
                m1 = cases[0][9] * NS + cases[0][10]; m2 = cases[1][9] * NS + cases[1][10]
                if m1 <= m2 and hw[0] > hw[1]:
                    viol.append((prof, cases, res, ['half-width shrinks with age: %d -> %d' % (hw[0], hw[1])]))
        return viol, nat_all

    def make_confirm(name, models_of):
        def confirm(m):
            cases = [c for c in models_of(m)]
            confirmed[0] += 1
            if not all(in_domain(c) for c in cases):
                return None
            viol, nat = native_violations(cases)
            if viol:
                confirmed[1] += 1
                prof, cc, r, why = viol[0]
                ck.violation('%s:%s' % (name, re.sub(r'-?\d+', 'N', why[0])[:50]), '%s on input %s: native(%s) -> %s' % ('; '.join(why), cc, prof, r),
                             {'cmd': 'now', 'inputs': cases, 'native': nat, 'clause': name})
                return why[0]
            return None
        return confirm

    def refine_with(*execs):
        def refine(m):
            out = []
            for e in execs:
                out += e.mul_refinement(m)
            return out
        return refine

    def check_clause(prover, label, clause, pc, claim, models_of, execs, need_reach=True):
        res = prover.prove_cegar(label, pc, claim, make_confirm(clause, models_of), refine_with(*execs), need_reach=need_reach)
        return res

    one = lambda m: [case_of_model(m, nm)]

    # ---- translator validation on the repo's own test vectors and random vectors
    tv = validate_translator(ck, prog, nm, outs, pr, seed, 60 if tier == 'quick' else 400)

    if prop == 'C14':
        k = 0
        for ob in ex.obligations:
            k += 1
            check_clause(pr, 'no-panic[%d] %s in %s' % (k, ob.desc, ob.fn.split('>::')[-1][:40]), 'panic:' + ob.desc[:40], ob.pc, z3.BoolVal(False), one, [ex], need_reach=False)
    for i, o in enumerate(outs):
        pc = o.state.pcond()
        rv = o.value
        tag = 'path%d' % i
        if 'Ok' in rv.p and 'Err' in rv.p:
            raise EngineError('merged Ok/Err return value: per-path separation lost')
        if 'Ok' in rv.p:
            tup = rv.p['Ok'].f[0]
            e_ns, e = ts_ns(tup.f[0]); l_ns, l = ts_ns(tup.f[1]); stt = tup.f[2].disc()
            hw = l_ns - real
            el = z3.If(mono >= asof, mono - asof, z3.IntVal(0))
            P = ex.mul_term(el, v['drift'])
            pr.add(ex.side[getattr(pr, '_nside', 0):]) if False else None
            if prop == 'C05':
                props = {
                    'normalized': z3.And(e.f[1] >= 0, e.f[1] < NS, l.f[1] >= 0, l.f[1] < NS),
                    'symmetric': real - e_ns == hw,
                    'ordered': e_ns <= l_ns,
                    # hw - bound > r - 1 - r/2^49  with r = P/1e9   (times 1e9 * 2^49)
                    'growth_lo': (hw - v['bound'] + 1) * NS * TOL_DEN + P * TOL_NUM > P * TOL_DEN,
                    'growth_hi': (hw - v['bound']) * NS * TOL_DEN <= P * (TOL_DEN + TOL_NUM),
                }
            elif prop == 'C06':
                dom6 = va >= asof + 5 * NS
                props = {
                    'sync_only_if_fresh_sync': z3.Implies(z3.And(dom6, stt == 1), z3.And(v['st'] == 1, mono < asof + 5 * NS)),
                    'free_only_if_not_void': z3.Implies(z3.And(dom6, stt == 2), z3.And(v['st'] != 0, mono < va)),
                    'unknown_if_unknown_or_void': z3.Implies(z3.And(dom6, z3.Or(v['st'] == 0, mono >= va)), stt == 0),
                    'fresh_passthrough': z3.Implies(z3.And(dom6, mono < asof + 5 * NS), stt == v['st']),
                    'status_is_valid_code': z3.And(stt >= 0, stt <= 2),
                }
            elif prop == 'C14':
                props = {
                    'ok_only_if_causal_and_drift_ok': z3.And(mono > asof - 1000, v['drift'] < NS),
                    'within_blur_age_zero': z3.Implies(mono < asof, hw - v['bound'] == 0),
                }
            else:
                props = {}
            for k_, p_ in props.items():
                check_clause(pr, '%s/%s' % (tag, k_), k_, pc, p_, one, [ex])
        elif 'Err' in rv.p:
            errv = rv.p['Err'].f[0]
            clock_failed = 'SyscallError' in errv.p
            if prop == 'C14' and not clock_failed:
                err = errv.disc()
                p_ = z3.Or(z3.And(err == 2, v['drift'] >= NS), z3.And(err == 3, mono <= asof - 1000, v['drift'] < NS))
                check_clause(pr, '%s/error_kind_iff' % tag, 'error_kind', pc, p_, one, [ex])
            if prop == 'C14' and clock_failed:
                # the syscall error is returned only when a clock read failed, and then no interval is produced
                res = pr.prove('%s/syscall_error_only_if_clock_read_failed' % tag, pc,
                               z3.And(errv.disc() == 0, z3.Or(z3.Not(nm.clock_ok[0]), z3.Not(nm.clock_ok[1]))))
                if isinstance(res, tuple):
                    ck.inconclusive.append('a clock-read failure path returns something else than the syscall error (no native replay for failing clock reads)')

    # ---- C05: half-width never shrinks with age (2-safety, merged executions)
    if prop == 'C05':
        nm2 = NowModel(prog, tag='_b')
        nm2.v.update({k: nm.v[k] for k in ('as_s', 'as_n', 'va_s', 'va_n', 'bound', 'drift', 'st')})      # same record
        nm2.readings = [Struct([nm2.v['re_s'], nm2.v['re_n']]), Struct([nm2.v['mo_s'], nm2.v['mo_n']])]
        outs2 = nm2.run(ex=None)
        ex2 = nm2.ex
        pr2 = Prover(seed)
        pr2.add(nm.domain()); pr2.add(nm2.domain()); pr2.add(ex.side); pr2.add(ex2.side)
        # monotonicity instances of round-to-nearest for structurally identical float islands
        isl1, isl2 = getattr(ex, 'fp_islands', []), getattr(ex2, 'fp_islands', [])
        nmono = 0
        for (v1, P1, g1) in isl1:
            for (v2, P2, g2) in isl2:
                if v1.den == v2.den and v1.k == v2.k and len(v1.num) == len(v2.num):
                    diff = [(a, b) for a, b in zip(v1.num, v2.num) if not a.eq(b)]
                    if len(diff) == 1:
                        a, b = diff[0]
                        others = [x for x, y in zip(v1.num, v2.num) if x.eq(y)]
                        nonneg = z3.And([x >= 0 for x in others]) if others else z3.BoolVal(True)
                        pr2.add(z3.Implies(z3.And(nonneg, a <= b), g1 <= g2)); nmono += 1
        ck.cov['float_monotonicity_instances'] = nmono
        pc1, val1 = Exec.merge_returns(outs); pc2, val2 = Exec.merge_returns(outs2)
        n2 = nm2.ns()

        def hw_of(val, real_):
            tup = val.p['Ok'].f[0]
            l_ns, _ = ts_ns(tup.f[1])
            return l_ns - real_
        both_ok = z3.And(pc1, pc2, val1.disc() == 0, val2.disc() == 0, nm.clock_ok[0], nm.clock_ok[1], nm2.clock_ok[0], nm2.clock_ok[1])
        claim = z3.Implies(n['mono'] <= n2['mono'], hw_of(val1, n['real']) <= hw_of(val2, n2['real']))
        check_clause(pr2, '2safety/half_width_monotone_in_age', 'monotone', both_ok, claim, lambda m: [case_of_model(m, nm), case_of_model(m, nm2)], [ex, ex2])
        ck.absorb(pr2, '')
        ck.cov['cegar_refinements'] = getattr(pr2, 'refinements', 0)

    ck.absorb(pr)
    if prop == 'C06' and owner is None and not ck.violations:
        # the property's premise ("records whose void-after is at least 5 s after as-of, as every daemon-written record is") is itself
        # decided here, on the daemon's updater
        try:
            from .daemon_updater import void_after_part
            from .daemon_extract import load_dlib_program
            dprog, _w = load_dlib_program()
            Hv = void_after_part(ck, dprog, seed, tier)
            ck.cov['functions_encoded'] = list(ck.cov['functions_encoded']) + ['ShmUpdater (histories of <= %d outcomes): void_after >= as_of + 5 s in every published record' % Hv]
        except EngineError as e:
            ck.inconclusive.append('daemon side of the premise (void_after >= as_of + 5 s): %s' % e)
    if prop == 'C06' and owner is None and not ck.violations:
        # the status a CALLER receives: both client libraries report the status of the record evaluated by THIS call (the wrappers are
        # decided symbolically in C14/C17; here the realistic sequences: an answer Synchronized, then the daemon publishes something else)
        rpw = common.Replay('debug')
        runs = {}
        for s2, what, want in (('syncthenunknown', 'the daemon then published the same record with status Unknown', 'now_ok:1699999999.999994000:1700000000.6000:0'),
                               ('okthenbreach', 'the daemon then published a FreeRunning record whose as-of is 99 s ahead of the caller\'s monotonic clock', 'now_err:kind=4:errno=0')):
            o = rpw.ask('abi2 ' + s2)
            runs['abi2 ' + s2] = o
            ck.cov['evaluations'] = ck.cov.get('evaluations', 0) + 1
            f = dict(x.split('=', 1) for x in o.split()[1:] if '=' in x)
            if not o.startswith('ok'):
                ck.inconclusive.append('client libraries, native run abi2 %s: %s' % (s2, o[:120]))
                continue
            for who in ('rust', 'c'):
                if f.get(who) != want:
                    ck.violation('status-through-the-client-library', 'both client libraries answered once on a Synchronized record (status Synchronized); %s; the next call of the %s returns %s, expected %s: the status handed to the caller is not the one of the record evaluated by that call'
                                 % (what, 'C library (clockbound_now)' if who == 'c' else 'Rust client', f.get(who), want), {'cmd': 'abi2 ' + s2, 'native': o})
                    break
        rpw.close()
        ck.cov['native_status_through_wrappers'] = runs
    if prop == 'C05' and owner is None and not ck.violations:
        # the interval is centred on the realtime reading of THIS call: realtime is a clock that is stepped, backwards too (chronyd
        # makestep, an operator): two calls in one process, the second after a step back of 1000 s; then a step forward
        rp_steps = common.Replay('debug')
        seq = []
        for real_s, what in ((1700000000, 'first call'), (1699999000, 'CLOCK_REALTIME stepped back by 1000 s since the previous call of the process'), (1700005000, 'stepped forward by 6000 s')):
            out = rp_steps.ask('now 100 0 1100 0 5000 1000 1 %d 0 101 0' % real_s)
            seq.append(out)
            ck.cov['evaluations'] = ck.cov.get('evaluations', 0) + 1
            want = 'ok %d 999994000 %d 6000 1' % (real_s - 1, real_s)
            if not out.startswith(want):
                ck.violation('interval-not-centred-on-this-calls-reading', '%s: record (as_of 100 s, bound 5000 ns, drift 1000 ppb, Synchronized), monotonic 101 s, CLOCK_REALTIME reads %d s: the real ClockErrorBound::now() returns %s, expected %s (centred on the reading of this call); calls so far in this process: %s'
                             % (what, real_s, out[:80], want, ' | '.join(x[:60] for x in seq[:-1]) or 'none'), {'cmd': 'now (sequence in one process)', 'native': seq})
                break
        rp_steps.close()
        ck.cov['native_realtime_steps'] = seq
    if prop == 'C05' and owner is None:
        # what the caller receives: both client libraries hand on exactly the interval now() computed (no reordering, clamping or swapping
        # of its two ends on the way out)
        try:
            from .abi_layout import wrappers_for_c14
            wrappers_for_c14(ck, prog, seed, key='client-library-alters-the-interval')
            ck.cov['functions_encoded'] = list(ck.cov['functions_encoded']) + ['clockbound_now (C library)', 'ClockBoundClient::now']
        except EngineError as e:
            ck.inconclusive.append('client wrappers: %s' % e)
    if prop == 'C14' and owner is None:
        # the calls a client actually makes go through the two wrappers (C library and Rust client): failing cleanly includes that a
        # failure is reported as the documented kind and does not outlive its cause on the same context
        try:
            from .abi_layout import wrappers_for_c14
            wrappers_for_c14(ck, prog, seed)
            ck.cov['functions_encoded'] = list(ck.cov['functions_encoded']) + ['clockbound_now (C library)', 'ClockBoundClient::now', 'From<ShmError> for clockbound_err / ClockBoundError']
        except EngineError as e:
            ck.inconclusive.append('client wrappers: %s' % e)
    if prop == 'C05' and tier == 'thorough':
        fp_exact_crosscheck(ck, seed)
    ck.cov['cegar_refinements'] = ck.cov.get('cegar_refinements', 0) + getattr(pr, 'refinements', 0)
    ck.cov['rule'] = ('one obligation per (return path of now(), property clause) and per panic/overflow site; an obligation is counted as '
                      'non-trivial when its path condition is satisfiable in the domain (vacuity twin query)')
    ck.cov['traces_validated_against_impl'] = tv
    ck.cov['counterexamples_replayed'] = confirmed[0]; ck.cov['counterexamples_confirmed'] = confirmed[1]
    for rp in rps:
        rp.close()
    if owner:
        return ck
    return ck.finish()


def fp_exact_crosscheck(ck, seed, drifts=((1000, 20), (50000, 20), (999999999, 10)), bits=20):
    """thorough tier: the enclosure used for the float island ((el as f64)/1e9 * drift as f64) as i64 is re-checked against z3's
    exact IEEE-754 semantics (Float64 theory) at reduced width: elapsed < 2^bits ns, constant drift.  This validates the float
    MODEL (it is the 'second encoding' of the island); it is not the claim."""
    import time as _t
    res = []
    for D, bits in drifts:
        s = z3.Solver(); s.set('timeout', 600000); s.set('random_seed', seed & 0x7fffffff)
        el = z3.BitVec('el', 64)
        s.add(z3.ULT(el, z3.BitVecVal(2 ** bits, 64)))
        rne, rtz = z3.RNE(), z3.RTZ()
        F = z3.Float64()
        x = z3.fpSignedToFP(rne, el, F)
        y = z3.fpDiv(rne, x, z3.FPVal(1e9, F))
        zf = z3.fpMul(rne, y, z3.fpSignedToFP(rne, z3.BitVecVal(D, 64), F))
        g = z3.fpToSBV(rtz, zf, z3.BitVecSort(64))
        W = 160
        g_, el_ = z3.SignExt(W - 64, g), z3.ZeroExt(W - 64, el)
        Pm = el_ * z3.BitVecVal(D, W)
        E = z3.BitVecVal(2 ** 52, W); kk = z3.BitVecVal(4, W); den = z3.BitVecVal(10 ** 9, W)
        ok = z3.And(g_ >= 0, z3.ULE(g_ * den * E, Pm * (E + kk)), (g_ * den * E) + den * E > Pm * (E - kk))
        s.add(z3.Not(ok))
        t0 = _t.time()
        r = s.check()
        res.append({'drift_ppb': D, 'elapsed_bits': bits, 'verdict': 'enclosure holds for every input (unsat)' if r == z3.unsat else str(r), 'solver_s': round(_t.time() - t0, 1)})
        ck.cov['queries'] += 1; ck.cov['evaluations'] += 1
        if r == z3.sat:
            ck.inconclusive.append('exact-FP cross-check: the float enclosure is violated at elapsed=%s drift=%d (float model unsound)' % (s.model()[el], D))
        elif r != z3.unsat:
            ck.cov.setdefault('notes', []).append('exact-FP cross-check undecided for drift %d' % D)
    ck.cov['exact_fp_crosscheck'] = res


def validate_translator(ck, prog, nm, outs, pr, seed, nrand):
    """push concrete vectors through the real function (natively) and require the encoding to admit the
    native result.  Disagreement = encoder bug => INCONCLUSIVE, never a finding."""
    rnd = random.Random(seed)
    vecs = [
        # the repo's own unit tests of compute_bound_at
        [0, 0, 10, 0, 10000, 1000, 1, 2, 0, 2, 0], [0, 0, 10, 0, 10000, 1000, 1, 20, 0, 4, 0], [0, 0, 100, 0, 10000, 1000, 1, 8, 0, 8, 0],
        [0, 0, 5, 0, 10000, 1000, 1, 10, 0, 10, 0], [0, 0, 10, 0, 10000, 2000000000, 1, 5, 0, 5, 0], [5, 0, 10, 0, 10000, 1000, 1, 1, 0, 1, 0],
    ]
    for _ in range(nrand):
        as_s = rnd.choice([0, 1, rnd.randint(-Y68, Y68), rnd.randint(0, 10 ** 6)])
        as_n = rnd.choice([0, 1, 999, 1000, 1001, NS - 1, rnd.randint(0, NS - 1)])
        d = rnd.choice([0, 1, -1, -999, -1000, -1001, 5 * NS - 1, 5 * NS, 5 * NS + 1, rnd.randint(-2000, 2000), rnd.randint(0, 2000 * NS), rnd.randint(0, 10 ** 15)])
        mono = as_s * NS + as_n + d
        va = as_s * NS + as_n + rnd.choice([5 * NS, 1000 * NS, rnd.randint(0, 2000 * NS), d, d + 1, d - 1])
        re = rnd.randint(-Y68 * NS, Y68 * NS) if rnd.random() < 0.5 else rnd.choice([0, 1, NS - 1, NS, 2 * NS]) + rnd.randint(0, 3) * NS
        c = [as_s, as_n, va // NS, va % NS, rnd.choice([0, 1, 10000, rnd.randint(0, 2 ** 60 - 1), rnd.randint(0, 10 ** 9)]),
             rnd.choice([0, 1, 1000, 50000, NS - 1, NS, 2 ** 32 - 1, rnd.randint(0, 2 ** 32 - 1)]), rnd.randint(0, 2), re // NS, re % NS, mono // NS, mono % NS]
        if in_domain(c):
            vecs.append(c)
    rp = common.Replay('debug')
    pcm, valm = Exec.merge_returns(outs)
    keys = ('as_s', 'as_n', 'va_s', 'va_n', 'bound', 'drift', 'st', 're_s', 're_n', 'mo_s', 'mo_n')
    bad = 0; n = 0
    s = z3.Solver(); s.set('timeout', 30000)
    s.add(nm.domain()); s.add(nm.ex.side); s.add(nm.clock_ok[0], nm.clock_ok[1]); s.add(pcm)
    for c in vecs:
        nat = rp.ask('now ' + ' '.join(map(str, c)))
        s.push()
        s.add([nm.v[k] == x for k, x in zip(keys, c)])
        f = nat.split()
        if f[0] == 'ok':
            tup = valm.p['Ok'].f[0]
            e_ns, e = ts_ns(tup.f[0]); l_ns, l = ts_ns(tup.f[1])
            s.add(valm.disc() == 0, e.f[0] == int(f[1]), e.f[1] == int(f[2]), l.f[0] == int(f[3]), l.f[1] == int(f[4]), tup.f[2].disc() == int(f[5]))
        elif f[0] == 'err':
            code = {'SegmentMalformed': 2, 'CausalityBreach': 3, 'SegmentNotInitialized': 1}.get(f[1], 0)
            s.add(valm.disc() == 1, valm.p['Err'].f[0].disc() == code)
        else:
            s.pop(); n += 1
            continue      # a native panic has no return value to compare; C14's obligations speak about it
        r = s.check()
        s.pop(); n += 1
        if r != z3.sat:
            bad += 1
            ck.inconclusive.append('translator validation: encoding does not admit the native result %s for input %s (%s)' % (nat, c, r))
            if bad > 3:
                break
    rp.close()
    ck.cov['translator_validation'] = {'vectors': n, 'disagreements': bad, 'includes': 'the 6 compute_bound_* unit-test vectors of the repository'}
    return n


