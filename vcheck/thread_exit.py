"""C15: if a worker thread dies, the whole daemon exits promptly - bounded protocol-level check (DESIGN.md A.9).

Step relations are extracted by engine M from the MIR of the real functions:
  * one iteration of the main loop of `thread_manager::run` (+ what follows the loop: joins, return), `broadcast_abort`,
  * one iteration of the poller loop `run_clock_error_bound_poller` and of the writer loop `process_messages`,
  * `Context::drop` (the death notification), the entry functions `chrony_poller::run` / `shm_writer::run`,
  * where the `Context` value may flow (ownership walk over the MIR of the thread closures and worker functions).
They are composed into a bounded model (z3): three processes, FIFO queues, rounds of steps in arbitrary order, a worker may die
at start-up or at any iteration; the claim is that main has returned at most R rounds after the first death.
Counterexamples are replayed by running the real `thread_manager::run` with the fault injected (cfg-gated fault points)."""
import re
import time

import z3

from mirsym.exec import Exec, State, Event
from mirsym.seqlock import loop_heads, loop_blocks, assigned_locals, group_outcomes
from mirsym.values import Struct, Enum, Ref, Opaque, UNIT, EngineError
from mirsym.builtins import call_closure
from . import common
from .common import Prover, Check, mval
from .daemon_extract import load_dlib_program, time_consts, NS

CHAN = ['MainThread', 'ClockErrorBoundPoller', 'ShmWriter']


class PyVec:
    """a Vec / iterator of concrete length whose elements are symbolic values"""
    __slots__ = ('items', 'pos', 'stages')

    def __init__(self, items, pos=0, stages=()):
        self.items, self.pos, self.stages = list(items), pos, tuple(stages)

    def __repr__(self):
        return 'PyVec(%d@%d%s)' % (len(self.items), self.pos, ''.join('|' + s[0] for s in self.stages))


def val(ex, st, v):
    while isinstance(v, Ref):
        v = ex.deref(st, v)
    return v


class Models:
    def __init__(self, prog):
        self.prog = prog
        self.msg = prog.enums.get('Message'); self.chan = prog.enums.get('ChannelId')
        if not self.msg or not self.chan:
            raise EngineError('Message / ChannelId enums not found in the sources')
        for k in ('ThreadAbort', 'ThreadPanic', 'ThreadTerminate'):
            if k not in self.msg:
                raise EngineError('Message::%s not found' % k)
        for k in CHAN:
            if k not in self.chan:
                raise EngineError('ChannelId::%s not found' % k)
        self.n = 0

    def fresh(self, name, sort=None):
        self.n += 1
        return (z3.Bool if sort == 'b' else z3.Int)('%s_%d' % (name, self.n))

    def message(self, kind):
        """a Message value of (symbolic) kind `kind`; payload fields are opaque (only the kind decides the protocol)"""
        cid = self.fresh('msg_chan')
        pl = {}
        for name in self.msg:
            if name in ('ThreadPanic', 'ThreadTerminate'):
                pl[name] = Struct([Enum(cid, {})])
            elif name == 'ClockErrorBoundData':
                pl[name] = Struct([Struct([Opaque('tracking'), Opaque('phc'), Opaque('asof')])])
            else:
                pl[name] = UNIT
        return Enum(kind, pl), cid

    # ----------------------------------------------------------------------------------------- shared environment
    def common_env(self, ex_holder):
        M = self

        def ev(st, kind, args=(), ret=None):
            st.trace = st.trace + (Event(kind, args, ret),)

        def h_send(ex, st, callee, args, fn):
            ch = val(ex, st, args[1]); msg = val(ex, st, args[2])
            ok = M.fresh('send_ok', 'b')
            ev(st, 'send', (ch, msg), ok)
            return Enum(z3.If(ok, z3.IntVal(0), z3.IntVal(1)), {'Ok': Struct([UNIT]), 'Err': Struct([Opaque('SendError')])})

        def h_recv(ex, st, callee, args, fn):
            which = callee.rsplit('::', 1)[1]
            ok = M.fresh('recv_ok', 'b'); kind = M.fresh('recv_kind'); err = M.fresh('recv_err')
            ex.side.append(z3.And(kind >= 0, kind < len(M.msg), err >= 0, err <= 1))
            msg, cid = M.message(kind)
            ex.side.append(z3.And(cid >= 0, cid < len(M.chan)))
            dur = val(ex, st, args[1]) if which == 'recv_timeout' else None
            ev(st, which, (dur,), (ok, kind, err))
            return Enum(z3.If(ok, z3.IntVal(0), z3.IntVal(1)), {'Ok': Struct([msg]), 'Err': Struct([Enum(err, {}) if which != 'recv' else Opaque('RecvError')])})

        def h_panicking(ex, st, callee, args, fn):
            # whether the thread is unwinding does not change while it leaves its function: one value per path
            b = st.mem.get(('env', 'panicking'))
            if b is None:
                b = M.fresh('panicking', 'b')
                st.mem[('env', 'panicking')] = b
                ev(st, 'panicking', (), b)
            return b
        return [(r'(^|::)DispatchBox(::<.*>)?::send$', h_send), (r'Receiver(::<.*>)?::(recv|recv_timeout|try_recv)$', h_recv),
                (r'(^|::)(thread::)?panicking$', h_panicking)]

    # ----------------------------------------------------------------------------------------- main thread
    def main_env(self):
        M = self

        def ev(st, kind, args=(), ret=None):
            st.trace = st.trace + (Event(kind, args, ret),)

        def h_new_uninit(ex, st, callee, args, fn):
            M.n += 1
            key = ('heap', M.n)
            st.mem[key] = None
            return Struct([Struct([Struct([Ref('heap', M.n)])]), UNIT])

        def h_into_vec(ex, st, callee, args, fn):
            b = val(ex, st, args[0])
            cell = b
            while isinstance(cell, Struct) and len(cell.f) >= 1 and not isinstance(cell.f[0], Ref):
                cell = cell.f[0]
            cell = val(ex, st, cell.f[0]) if isinstance(cell, Struct) else val(ex, st, cell)
            arr = cell
            # MaybeUninit { uninit, value: ManuallyDrop { MaybeDangling { [..] } } }: descend to the array
            guard = 0
            while isinstance(arr, Struct) and guard < 6 and not all(isinstance(x, Enum) for x in arr.f if x is not None):
                arr = next((x for x in reversed(arr.f) if x is not None), None); guard += 1
            if not isinstance(arr, Struct):
                raise EngineError('vec! contents not found')
            return PyVec(arr.f)

        def h_web(ex, st, callee, args, fn):
            ids = val(ex, st, args[0])
            if not isinstance(ids, PyVec):
                raise EngineError('new_channel_web over %r' % (ids,))
            ds = []
            for x in ids.items:
                d = z3.simplify(x.disc())
                if not z3.is_int_value(d):
                    raise EngineError('channel id is not a constant')
                ds.append(d.as_long())
            ev(st, 'new_channel_web', tuple(ds))
            M.web_ids = ds
            # a HashMap iterates in an arbitrary order: the caller asks for the orders it wants explored
            order = sorted(ds, reverse=bool(getattr(M, 'reverse_keys', False)))
            return Struct([Struct([Opaque('mailbox')]), Struct([PyVec([Enum(d, {}) for d in order])])])

        def h_get_mailbox(ex, st, callee, args, fn):
            cid = val(ex, st, args[1])
            d = z3.simplify(cid.disc())
            if not z3.is_int_value(d):
                raise EngineError('get_mailbox of a symbolic id')
            ev(st, 'get_mailbox', (d.as_long(),))
            have = d.as_long() in getattr(M, 'web_ids', [])
            return Enum(1 if have else 0, {'Some': Struct([Struct([Opaque('rx'), z3.IntVal(d.as_long())])]), 'None': UNIT})

        def h_clone(ex, st, callee, args, fn):
            return val(ex, st, args[0])

        def h_spawn(ex, st, callee, args, fn):
            m = re.search(r'\{closure@([^}]+)\}', callee)
            ev(st, 'spawn', (m.group(1) if m else '?',), args[0])
            M.n += 1
            return Struct([Opaque('joinhandle'), z3.IntVal(M.n)])

        def h_vec_new(ex, st, callee, args, fn):
            return PyVec([])

        def h_vec_push(ex, st, callee, args, fn):
            r = args[0]
            v = val(ex, st, r)
            if not isinstance(v, PyVec) or not isinstance(r, Ref):
                raise EngineError('Vec::push on %r' % (v,))
            ex.store(st, r.frame, (r.local, list(r.path)), PyVec(v.items + [args[1]]))
            return UNIT

        def h_into_iter(ex, st, callee, args, fn):
            v = val(ex, st, args[0])
            if not isinstance(v, PyVec):
                raise EngineError('into_iter of %r' % (v,))
            return PyVec(v.items, 0, v.stages)

        def h_next(ex, st, callee, args, fn):
            r = args[0]
            it = val(ex, st, r)
            if not isinstance(it, PyVec) or it.stages or not isinstance(r, Ref):
                raise EngineError('Iterator::next on %r' % (it,))
            if it.pos >= len(it.items):
                return Enum(0, {'None': UNIT})
            ex.store(st, r.frame, (r.local, list(r.path)), PyVec(it.items, it.pos + 1))
            return Enum(1, {'Some': Struct([it.items[it.pos]]), 'None': UNIT})

        def h_join(ex, st, callee, args, fn):
            ev(st, 'join', (args[0],))
            return Enum(M.fresh('join_res'), {'Ok': Struct([UNIT]), 'Err': Struct([Opaque('panic payload')])})

        def h_keys(ex, st, callee, args, fn):
            d = val(ex, st, args[0])
            ks = d.f[0] if isinstance(d, Struct) else d
            if not isinstance(ks, PyVec):
                raise EngineError('DispatchBox::keys of %r' % (d,))
            ev(st, 'keys', ())
            return PyVec(ks.items, 0)

        def h_adapt(ex, st, callee, args, fn):
            which = callee.split('::<')[0].rsplit('::', 1)[1]
            it = val(ex, st, args[0])
            if not isinstance(it, PyVec):
                raise EngineError('%s over %r' % (which, it))
            return PyVec(it.items, it.pos, it.stages + ((which, callee, args[1]),))

        def h_collect(ex, st, callee, args, fn):
            it = val(ex, st, args[0])
            if not isinstance(it, PyVec):
                raise EngineError('collect over %r' % (it,))
            out = []
            cur = st
            tgt = callee.split('>::collect::<', 1)[1] if '>::collect::<' in callee else ''
            into_result = bool(re.match(r'(std::result::)?Result<', tgt.strip()))
            finished = []
            for i, x in enumerate(it.items[it.pos:]):
                M.n += 1
                cell = ('it', M.n)
                cur.mem[cell] = x
                item = Ref(cell[0], cell[1])
                keep = True
                for which, cal, clo in it.stages:
                    if which == 'filter':
                        cur.mem[('itr', M.n)] = item
                        r = call_closure(ex, cur, cal, clo, [Ref('itr', M.n)])
                        if r is None:
                            raise EngineError('filter closure not executable')
                        cur, b = r
                        b = z3.simplify(b)
                        if z3.is_true(b):
                            continue
                        if z3.is_false(b):
                            keep = False; break
                        raise EngineError('filter predicate is not decided for a constant key')
                    elif which == 'map':
                        r = call_closure(ex, cur, cal, clo, [item])
                        if r is None:
                            raise EngineError('map closure not executable')
                        cur, item = r
                    else:
                        raise EngineError('iterator adaptor ' + which)
                if keep:
                    out.append(item)
                    if into_result:
                        # FromIterator for Result: the first Err ends the iteration (later items are never produced)
                        iv = val(ex, cur, item)
                        if not isinstance(iv, Enum):
                            raise EngineError('collect into a Result of items that are not Results')
                        d = iv.disc()
                        s_err = cur.fork(); s_err.pc.append(d == 1)
                        finished.append((s_err, Enum(1, {'Err': iv.p.get('Err', Struct([Opaque('err')]))})))
                        cur = cur.fork() if cur is st else cur
                        cur.pc.append(d == 0)
            if into_result:
                finished.append((cur, Enum(0, {'Ok': Struct([PyVec(out)])})))
                return finished
            if cur is not st:
                st.mem = cur.mem; st.pc = cur.pc; st.trace = cur.trace
            return PyVec(out)
        def h_iter(ex, st, callee, args, fn):
            v = val(ex, st, args[0])
            if not isinstance(v, PyVec):
                raise EngineError('iteration over %r' % (v,))
            return PyVec(v.items, 0, v.stages) if callee.endswith('::iter') or callee.endswith('into_iter') else v

        def h_any_all(ex, st, callee, args, fn):
            which = callee.split('::<')[0].rsplit('::', 1)[1]
            it = val(ex, st, args[0])
            if not isinstance(it, PyVec) or it.stages:
                raise EngineError('%s over %r' % (which, it))
            acc = z3.BoolVal(which == 'all')
            cur = st
            for x in it.items[it.pos:]:
                M.n += 1
                cur.mem[('it', M.n)] = x
                r = call_closure(ex, cur, callee, args[1], [Ref('it', M.n)])
                if r is None:
                    raise EngineError('closure of Iterator::%s not executable' % which)
                cur, b = r
                acc = z3.Or(acc, b) if which == 'any' else z3.And(acc, b)
            if cur is not st:
                st.mem = cur.mem; st.pc = cur.pc; st.trace = cur.trace
            return acc
        return [(r'<impl \[.*\]>::iter$|<Vec<.*> as Deref>::deref$|Vec::<.*>::iter$', h_iter), (r' as Iterator>::(any|all)::<', h_any_all),
                (r'Box::<\[ChannelId; \d+\]>::new_uninit$', h_new_uninit), (r'box_assume_init_into_vec_unsafe', h_into_vec),
                (r'(^|::)new_channel_web(::<.*>)?$', h_web), (r'MailBox(::<.*>)?::get_mailbox$', h_get_mailbox),
                (r'^<DispatchBox<.*> as Clone>::clone$', h_clone), (r'(^|::)spawn::<', h_spawn),
                (r'Vec::<JoinHandle<\(\)>>::new$', h_vec_new), (r'Vec::<JoinHandle<\(\)>>::push$', h_vec_push),
                (r'as IntoIterator>::into_iter$', h_into_iter), (r'IntoIter<JoinHandle<\(\)>> as Iterator>::next$', h_next),
                (r'JoinHandle::<\(\)>::join$', h_join), (r'DispatchBox(::<.*>)?::keys$', h_keys),
                (r' as Iterator>::(filter|map)::<', h_adapt), (r' as Iterator>::collect::<', h_collect)]

    def run_main(self):
        """thread_manager::run: prefix to the receive loop, one iteration of that loop, and the tail after it.
        returns dict(prefix_events, iter_outcomes=[(guard, kind 'continue'|'return', events)])"""
        prog = self.prog
        fn = prog.find1('thread_manager::run', crate='clock_bound_d')
        ex = Exec(prog, env=self.main_env() + self.common_env(None), opaque_calls=[r'Arguments(::<.*>)?::from_str$', r'Arguments(::<.*>)?::new', r'Argument(::<.*>)?::new_debug'])
        ex.loop_bound = 6
        heads, succ = loop_heads(fn)
        # the receive loop is the loop whose body calls Receiver::recv
        head = None
        for h in heads:
            body = loop_blocks(fn, h, succ)
            if any(re.search(r'Receiver::<.*>::(recv|recv_timeout|try_recv)\(', fn.blocks[b][-1]) for b in body):
                head = h
        if head is None:
            raise EngineError('thread_manager::run has no loop receiving from its mailbox')
        st = State()
        fr = ex.new_frame()
        pre = ex.run_body(fn, [z3.Int('max_drift_ppb'), Enum(0, {'None': UNIT})], st, fr=fr, stop=(head,), top=True)
        at_head = [o for o in pre if o.kind == 'stop']
        if len(at_head) != 1:
            raise EngineError('thread_manager::run: %d paths reach the receive loop (other paths: %s)' % (len(at_head), [o.kind for o in pre if o.kind != 'stop']))
        tmpl = at_head[0]
        self.main_prefix = [e for e in tmpl.state.trace]
        init = {l: v for (f, l), v in tmpl.state.mem.items() if f == fr}
        st1 = State()
        for k, v in tmpl.state.mem.items():
            if k[0] != fr:
                st1.mem[k] = v
        fr2 = ex.new_frame()
        outs = ex.run_body(fn, [], st1, fr=fr2, start=head, stop=(head,), top=True, init_locals=init)
        self.main_ex = ex
        res = []
        for o in outs:
            res.append((o.state.pcond(), {'stop': 'continue', 'return': 'return'}.get(o.kind, o.kind), list(o.state.trace)))
        return res


# --------------------------------------------------------------------------------------------- worker threads
WORKER_FNS = ('chrony_poller::run', 'run_clock_error_bound_poller', 'shm_writer::run', 'process_messages')


def ctx_value(M, chan_name, rx_id=None):
    """a Context as thread_manager::run builds it: Context { channel_id, mbox, dbox } (field order from the sources)"""
    names = M.prog.struct_fields.get('Context') or []
    if sorted(names) != ['channel_id', 'dbox', 'mbox']:
        raise EngineError('thread_manager::Context has unexpected fields %r' % (names,))
    d = M.chan[chan_name]
    f = {'channel_id': Enum(d, {}), 'mbox': Struct([Opaque('rx'), z3.IntVal(d if rx_id is None else rx_id)]), 'dbox': Struct([PyVec([Enum(x, {}) for x in sorted(M.chan.values())])])}
    return Struct([f[n] for n in names])


def worker_env(M, extra=()):
    def ev(st, kind, args=(), ret=None):
        st.trace = st.trace + (Event(kind, args, ret),)

    def h_clock(ex, st, callee, args, fn):
        ok = M.fresh('clock_ok', 'b')
        ev(st, 'clock_gettime')
        return Enum(z3.If(ok, z3.IntVal(0), z3.IntVal(1)), {'Ok': Struct([Struct([M.fresh('mono_s'), M.fresh('mono_n')])]), 'Err': Struct([Opaque('Errno')])})

    def h_tracking(ex, st, callee, args, fn):
        some = M.fresh('tracking_some', 'b')
        ev(st, 'get_tracking')
        return Enum(z3.If(some, z3.IntVal(1), z3.IntVal(0)), {'Some': Struct([Struct([M.fresh('ref_id')] + [Opaque('tracking.%d' % i) for i in range(1, 14)])]), 'None': UNIT})

    def h_grace(ex, st, callee, args, fn):
        return M.fresh('grace', 'b')

    def h_phc(ex, st, callee, args, fn):
        ok = M.fresh('phc_ok', 'b')
        return Enum(z3.If(ok, z3.IntVal(0), z3.IntVal(1)), {'Ok': Struct([M.fresh('phc')]), 'Err': Struct([Opaque('io::Error')])})

    def h_update(ex, st, callee, args, fn):
        ev(st, 'updater', (callee.rsplit('::', 1)[1],) + tuple(args[1:]))
        return UNIT

    def h_sleep(ex, st, callee, args, fn):
        d = val(ex, st, args[0])
        ev(st, 'sleep', (d,))
        return UNIT
    return list(extra) + M.common_env(None) + [
        (r'(^|::)clock_gettime_safe$', h_clock), (r'ChronyOperations>::get_tracking$', h_tracking), (r'ChronyOperations>::is_within_grace_period$', h_grace),
        (r'(^|::)get_phc_error_bound_from_path$', h_phc), (r'ShmUpdater(::<.*>)?::(process_clock_update|process_missing_clock_update)$', h_update),
        (r'(^|::)thread::sleep$|^sleep$', h_sleep)]


def loop_summary(M, fn_name, args, opaque=()):
    """prefix / one iteration / exits of a single-loop worker function, with the user Drop impls run at drop terminators"""
    from mirsym.seqlock import summarise
    prog = M.prog
    fn = prog.find1(fn_name, crate='clock_bound_d')
    ex = Exec(prog, env=worker_env(M), opaque_calls=[r'Arguments(::<.*>)?::from_str$', r'Arguments(::<.*>)?::new', r'Argument(::<.*>)?::new_debug'] + list(opaque))
    ex.const_hooks = time_consts()
    ex.inline_drops = True
    S = summarise(ex, fn, args, State())
    return ex, fn, S


def describe_alt(M, g, a):
    """(guard, exits?, events) of one alternative of a summarised loop iteration"""
    return a.guard, a.kind, g.events


def context_drop(M):
    """<Context as Drop>::drop for both values of panicking(): the message sent and its destination"""
    prog = M.prog
    fn = prog.find1('drop', self_ty='Context', crate='clock_bound_d')
    res = []
    for name in ('ClockErrorBoundPoller', 'ShmWriter'):
        ex = Exec(prog, env=M.common_env(None), opaque_calls=[r'Arguments(::<.*>)?::from_str$', r'Arguments(::<.*>)?::new', r'Argument(::<.*>)?::new_debug'])
        st = State(); st.mem[(0, 'ctx')] = ctx_value(M, name)
        outs = ex.run(fn, [Ref(0, 'ctx')], st)
        for o in outs:
            res.append((name, o.kind, o.state.pcond(), list(o.state.trace), ex))
    return res


def ownership_walk(prog):
    """where the Context value may flow in the thread closures and worker functions: only into drop() or into the next worker
    function.  Returns (list of problems, number of flows inspected)."""
    LOCAL = re.compile(r'_\d+')
    fns = []
    for n in WORKER_FNS:
        fns.append(prog.find1(n, crate='clock_bound_d'))
    for lst in prog.fns.values():
        for f in lst:
            if re.match(r'thread_manager::run::\{closure#\d+\}$', f.name) and f.kind == 'fn':
                fns.append(f)
    problems = []; inspected = 0
    for f in fns:
        # locals that hold the Context (by type), plus the closure environment's Context field
        ctx_locals = {l for l, t in f.ltypes.items() if re.fullmatch(r'(thread_manager::)?Context', t.strip())}
        env_field = None
        if '{closure#' in f.name:
            env_field = r'\(_1\.\d+: (thread_manager::)?Context\)'
        for bb, stmts in f.blocks.items():
            for s in stmts:
                moved = [m for m in re.finditer(r'move (_\d+)\b', s) if m.group(1) in ctx_locals]
                moved_env = list(re.finditer(r'move ' + env_field, s)) if env_field else []
                if not moved and not moved_env:
                    continue
                inspected += 1
                k = s.find(' = ')
                rhs = s[k + 3:] if k >= 0 else s
                if s.startswith('drop('):
                    continue
                if re.fullmatch(r'move (_\d+|\(_1\.\d+: [\w:]+\))', rhs.strip()) and k >= 0:
                    # plain move into another local of the same type
                    dst = LOCAL.match(s[:k].strip())
                    if dst and dst.group(0) in ctx_locals:
                        continue
                m = re.match(r'(.+?)\((.*)\) -> ', rhs, flags=re.S)
                if m:
                    from mirsym.parser import strip_generics
                    callee = strip_generics(m.group(1).strip())
                    if any(callee == w or callee.endswith('::' + w) or w.endswith('::' + callee) for w in WORKER_FNS):
                        continue
                    problems.append('%s: the Context is moved into %s (neither drop nor a worker function): its Drop - the death notification - may never run' % (f.name[-50:], callee[-60:]))
                else:
                    problems.append('%s: the Context is moved by `%s`' % (f.name[-50:], s[:100]))
        # a Context local that is never dropped nor moved on (e.g. wrapped in ManuallyDrop) cannot be seen by type: the types are checked instead
        for l, t in f.ltypes.items():
            if 'Context' in t and re.search(r'ManuallyDrop|MaybeUninit|Box<|Arc<|Rc<|Option<', t):
                problems.append('%s: local %s has type %s - the Context is wrapped' % (f.name[-50:], l, t))
    return problems, inspected


# --------------------------------------------------------------------------------------------- step tables (solver queries)
class Tables:
    """finite step relations of the three threads, each entry decided by a solver query over the extracted summaries"""

    def __init__(self, M, pr_stats):
        self.M = M
        self.q = pr_stats          # dict(queries=, solver_s=)
        self.kinds = sorted(M.msg.values())
        self.ABORT, self.PANIC, self.TERM = M.msg['ThreadAbort'], M.msg['ThreadPanic'], M.msg['ThreadTerminate']

    def sat(self, side, *conds):
        s = z3.Solver(); s.set('timeout', 20000)
        s.add(side); s.add(*conds)
        t0 = time.time()
        r = s.check()
        self.q['queries'] += 1; self.q['solver_s'] += time.time() - t0
        if r == z3.unknown:
            raise EngineError('solver unknown on a step-table query')
        return r == z3.sat

    # -- a worker loop: on each mailbox outcome, which of {continue, exit} are possible
    def worker(self, ex, S, recv_kind_name):
        if S.head is None:
            raise EngineError('worker function without a loop')
        flags = [(l, v) for l, v in S.carried.items() if v[1] == 'bool']
        if len(flags) > 1 or len(S.carried) > len(flags):
            raise EngineError('worker loop: more loop-carried state than one flag: %s' % list(S.carried))
        if flags:
            (l, (keep, ty)), = flags
        else:
            l, keep = None, z3.BoolVal(True)        # the loop condition does not change inside the loop
        side = list(ex.side)
        on = {}
        blocking = set()
        sends = set()
        exits = []      # (events) of the exit paths taken when the flag is false
        for g in S.iteration:
            for a in g.alts:
                if a.kind == 'return':
                    exits.append((a.guard, g.events))
        for g in S.iteration:
            rc = [e for e in g.events if e.kind in ('recv', 'recv_timeout', 'try_recv')]
            # leaving from inside the body (break / return after looking at the mailbox)
            def cases_of(r_):
                ok, kind, err = r_.ret
                if r_.kind == 'recv':
                    return [(k, z3.And(ok, kind == k)) for k in self.kinds] + [('disconnected', z3.Not(ok))]
                return [(k, z3.And(ok, kind == k)) for k in self.kinds] + [('timeout', z3.And(z3.Not(ok), err == 0)), ('disconnected', z3.And(z3.Not(ok), err == 1))]
            for a in g.alts:
                # an iteration may look at the mailbox more than once (a nested receive): a message is then taken by whichever
                # receive is waiting when it arrives, so the reaction to a message kind is the union over the receive sites
                if a.kind == 'return' and len(rc) >= 1:
                    for r_ in rc:
                        for key, c in cases_of(r_):
                            if self.sat(side, keep, a.guard, c):
                                on.setdefault(key, set()).add('exit')
            for e in g.events:
                if e.kind in ('recv', 'recv_timeout'):
                    blocking.add((e.kind, str(z3.simplify(e.args[0].f[0])) if e.kind == 'recv_timeout' and isinstance(e.args[0], Struct) else None))
                if e.kind == 'sleep':
                    d_ = e.args[0].f[0] if isinstance(e.args[0], Struct) else None
                    d_ = z3.simplify(d_) if isinstance(d_, z3.ExprRef) else None
                    blocking.add(('sleep', d_.as_long() if d_ is not None and z3.is_int_value(d_) else 'symbolic'))
                if e.kind == 'send':
                    d = z3.simplify(e.args[0].disc())
                    sends.add(d.as_long() if z3.is_int_value(d) else None)
            for a in g.alts:
                if a.kind != 'stop':
                    continue
                nk = a.locals.get(l) if l is not None else z3.BoolVal(True)
                if len(rc) > 1:
                    for r_ in rc:
                        for key, c in cases_of(r_):
                            for res, cond in (('continue', nk), ('exit', z3.Not(nk))):
                                if self.sat(side, keep, a.guard, c, cond):
                                    on.setdefault(key, set()).add(res)
                    self.nested_receives = getattr(self, 'nested_receives', 0) + 1
                    continue
                if len(rc) != 1:
                    # an iteration that does not look at the mailbox: continues or leaves independently of it
                    for key in ['any']:
                        for res, cond in (('continue', nk), ('exit', z3.Not(nk))):
                            if self.sat(side, keep, a.guard, cond):
                                on.setdefault(key, set()).add(res)
                    continue
                ok, kind, err = rc[0].ret
                cases = [(k, z3.And(ok, kind == k)) for k in self.kinds] + [('timeout', z3.And(z3.Not(ok), err == 0)), ('disconnected', z3.And(z3.Not(ok), err == 1))]
                if rc[0].kind == 'recv':
                    cases = [(k, z3.And(ok, kind == k)) for k in self.kinds] + [('disconnected', z3.Not(ok))]
                for key, c in cases:
                    for res, cond in (('continue', nk), ('exit', z3.Not(nk))):
                        if self.sat(side, keep, a.guard, c, cond):
                            on.setdefault(key, set()).add(res)
        # panics inside an iteration (unwinding: the ownership walk shows the Context is dropped on the way out)
        panics = [o for o in ex.obligations if o.kind == 'panic' and self.sat(side, keep, o.pc)]
        return dict(on=on, blocking=sorted(blocking, key=str), sends=sorted(sends, key=str), exits=exits, panics=len(panics), keep=keep, side=side)

    def exit_notification(self, ex, info):
        """what leaving the loop with the flag false sends: {panicking(bool): set of (dest, kind)}"""
        out = {False: set(), True: set()}
        for guard, events in info['exits']:
            pk = [e for e in events if e.kind == 'panicking']
            sd = [e for e in events if e.kind == 'send']
            for pv in (False, True):
                conds = [guard, z3.Not(info['keep'])]
                if pk:
                    conds.append(pk[0].ret if pv else z3.Not(pk[0].ret))
                if self.sat(info['side'], *conds):
                    if not sd:
                        out[pv].add((None, None))
                    for e in sd:
                        d = z3.simplify(e.args[0].disc()); k = z3.simplify(e.args[1].disc())
                        out[pv].add((d.as_long() if z3.is_int_value(d) else None, k.as_long() if z3.is_int_value(k) else None))
        return out

    def main(self, outs, ex):
        side = list(ex.side)
        on = {}
        detail = {}
        if not hasattr(self, 'main_alts'):
            self.main_alts = {}
        for guard, kind, events in outs:
            rc = [e for e in events if e.kind == 'recv']
            if len(rc) != 1:
                raise EngineError('main loop iteration with %d receives' % len(rc))
            ok, k_, err = rc[0].ret
            cases = [(k, z3.And(ok, k_ == k)) for k in self.kinds] + [('disconnected', z3.Not(ok))]
            for key, c in cases:
                if self.sat(side, guard, c):
                    res = 'exit' if kind == 'return' else 'continue'
                    on.setdefault(key, set()).add(res)
                    if kind == 'return':
                        tg = set(); sends = []
                        for e in events:
                            if e.kind == 'send':
                                d = z3.simplify(e.args[0].disc()); kk = z3.simplify(e.args[1].disc())
                                if z3.is_int_value(kk) and kk.as_long() == self.ABORT and z3.is_int_value(d):
                                    tg.add(d.as_long()); sends.append((d.as_long(), e.ret))
                        joins = len([e for e in events if e.kind == 'join'])
                        # the sends come before the joins
                        idx_s = [i for i, e in enumerate(events) if e.kind == 'send']; idx_j = [i for i, e in enumerate(events) if e.kind == 'join']
                        order_ok = not idx_s or not idx_j or max(idx_s) < min(idx_j)
                        detail.setdefault(key, []).append((frozenset(tg), joins, order_ok))
                        # for the composition: which send results this path needs (a send succeeds iff the receiver still exists)
                        need = {}
                        feasible = True
                        for dest, okv in sends:
                            can_ok = self.sat(side, guard, c, okv); can_fail = self.sat(side, guard, c, z3.Not(okv))
                            need[dest] = (can_ok, can_fail)
                        self.main_alts.setdefault(key, []).append({'sends': [d_ for d_, _ in sends], 'need': need, 'joins': joins})
        return on, detail


# --------------------------------------------------------------------------------------------- composition (bounded model checking)
def bmc(tabs, P, W, Pn, Wn, main_on, main_detail, chan, K, R, Q, seed, stats):
    """three processes over FIFO queues; K rounds of three micro-steps in arbitrary order; exactly one worker fault.
    Returns (result, model description | None).  The tables are those of the code; where the code allows both `continue` and
    `exit` for an outcome the model takes either."""
    A, PN, TM = tabs.ABORT, tabs.PANIC, tabs.TERM
    DATA = -1          # any message the poller sends to the writer
    s = z3.Solver(); s.set('timeout', 600000); s.set('random_seed', seed & 0x7fffffff)
    cP, cW, cM = chan['ClockErrorBoundPoller'], chan['ShmWriter'], chan['MainThread']

    def fresh_state(t):
        st = {}
        for n in ('pAlive', 'wAlive'):
            st[n] = z3.Bool('%s_%d' % (n, t))
        st['m'] = z3.Int('m_%d' % t)              # 0 in the loop, 1 joining, 2 returned
        for qn in ('qP', 'qW', 'qM'):
            st[qn] = [z3.Int('%s_%d_%d' % (qn, t, i)) for i in range(Q)]
            st[qn + 'n'] = z3.Int('%sn_%d' % (qn, t))
        return st

    def push(q, n, v, cond):
        """(new q, new n, overflow)"""
        nq = [z3.If(z3.And(cond, n == i), v, q[i]) for i in range(Q)]
        return nq, z3.If(cond, n + 1, n), z3.And(cond, n >= Q)

    def pop(q, n, cond):
        nq = [z3.If(cond, q[i + 1] if i + 1 < Q else z3.IntVal(-9), q[i]) for i in range(Q)]
        return nq, z3.If(cond, n - 1, n)

    def table_allows(on, key_expr_cases, res):
        """z3 condition: outcome `res` is allowed by table `on` for the symbolic key"""
        return z3.Or([z3.And(c, z3.BoolVal(res in on.get(k, set()) or res in on.get('any', set()))) for k, c in key_expr_cases])

    T = 3 * K
    sts = [fresh_state(0)]
    s0 = sts[0]
    s.add(s0['pAlive'], s0['wAlive'], s0['m'] == 0, s0['qPn'] == 0, s0['qWn'] == 0, s0['qMn'] == 0)
    fault_at = z3.Int('fault_at'); fault_who = z3.Int('fault_who'); fault_panic = z3.Bool('fault_panic')
    s.add(fault_who >= 1, fault_who <= 2, fault_at >= 0, fault_at < 3 * (K - R))
    overflow = []
    first_death = z3.Int('first_death_round')
    death_marks = []
    kinds = tabs.kinds

    def notif(table, panicking):
        """(dest, kind) the Context drop sends, as z3-free python (tables are concrete); None when nothing is sent to main"""
        xs = [x for x in table[panicking] if x[0] == cM]
        return xs[0][1] if xs else None
    for t in range(T):
        a = sts[-1]; b = fresh_state(t + 1); sts.append(b)
        who = z3.Int('who_%d' % t)
        s.add(who >= 0, who <= 2)
        if t % 3 == 2:
            w0, w1 = z3.Int('who_%d' % (t - 2)), z3.Int('who_%d' % (t - 1))
            s.add(z3.Distinct(w0, w1, who))
        # ---------------- poller micro-step
        p_fault = z3.And(fault_who == 1, fault_at == t)
        p_acts = z3.And(who == 1, a['pAlive'])
        p_head = a['qP'][0]
        p_has = a['qPn'] > 0
        p_cases = [(k, z3.And(p_has, p_head == k)) for k in kinds] + [('timeout', z3.Not(p_has))]
        p_exit_ok = table_allows(P['on'], p_cases, 'exit'); p_cont_ok = table_allows(P['on'], p_cases, 'continue')
        p_choice = z3.Bool('p_exit_%d' % t)
        s.add(z3.Implies(z3.And(p_acts, z3.Not(p_fault), p_choice), p_exit_ok), z3.Implies(z3.And(p_acts, z3.Not(p_fault), z3.Not(p_choice)), p_cont_ok))
        p_send_fails = z3.And(p_acts, z3.Not(p_fault), z3.Not(a['wAlive']))
        p_dies_panic = z3.Or(z3.And(p_acts, p_fault, fault_panic), z3.And(p_send_fails, z3.BoolVal(P['panics'] > 0)))
        p_dies_ret = z3.Or(z3.And(p_acts, p_fault, z3.Not(fault_panic)), z3.And(p_acts, z3.Not(p_fault), z3.Not(p_dies_panic), p_choice))
        p_dies = z3.Or(p_dies_panic, p_dies_ret)
        # a fault scheduled for a step in which the thread does not act is taken at its next step: model by forcing the fault step to be one of its own
        s.add(z3.Implies(p_fault, p_acts))
        # ---------------- writer micro-step
        w_fault = z3.And(fault_who == 2, fault_at == t)
        w_has = a['qWn'] > 0
        w_acts = z3.And(who == 2, a['wAlive'], z3.Or(w_has, w_fault))
        w_head = a['qW'][0]
        w_cases = [(k, z3.And(w_head == k)) for k in kinds] + [(kinds[0], w_head == DATA)]
        # DATA stands for the (non-abort) messages the poller sends: use the table entries of those kinds
        data_kinds = [k for k in kinds if k not in (A, PN, TM)]
        w_exit_ok = z3.Or([z3.And(w_head == k, z3.BoolVal('exit' in W['on'].get(k, set()))) for k in kinds] + [z3.And(w_head == DATA, z3.BoolVal(any('exit' in W['on'].get(k, set()) for k in data_kinds)))])
        w_cont_ok = z3.Or([z3.And(w_head == k, z3.BoolVal('continue' in W['on'].get(k, set()))) for k in kinds] + [z3.And(w_head == DATA, z3.BoolVal(any('continue' in W['on'].get(k, set()) for k in data_kinds)))])
        w_choice = z3.Bool('w_exit_%d' % t)
        s.add(z3.Implies(z3.And(w_acts, z3.Not(w_fault), w_choice), w_exit_ok), z3.Implies(z3.And(w_acts, z3.Not(w_fault), z3.Not(w_choice)), w_cont_ok))
        w_dies_panic = z3.And(w_acts, w_fault, fault_panic)
        w_dies_ret = z3.Or(z3.And(w_acts, w_fault, z3.Not(fault_panic)), z3.And(w_acts, z3.Not(w_fault), w_choice))
        w_dies = z3.Or(w_dies_panic, w_dies_ret)
        s.add(z3.Implies(w_fault, z3.And(who == 2, a['wAlive'])))
        # ---------------- main micro-step
        m_has = a['qMn'] > 0
        m_loop = z3.And(who == 0, a['m'] == 0, m_has)
        m_head = a['qM'][0]
        m_cases = [(k, m_head == k) for k in kinds]
        m_exit_ok = table_allows(main_on, m_cases, 'exit'); m_cont_ok = table_allows(main_on, m_cases, 'continue')
        m_choice = z3.Bool('m_exit_%d' % t)
        s.add(z3.Implies(z3.And(m_loop, m_choice), m_exit_ok), z3.Implies(z3.And(m_loop, z3.Not(m_choice)), m_cont_ok))
        m_exits = z3.And(m_loop, m_choice)
        # broadcast targets / joins on exit, per popped kind (tables are concrete)
        alt_pick = z3.Int('m_alt_%d' % t)
        alts_all = []
        for k in kinds:
            for i, al in enumerate(tabs.main_alts.get(k, [])):
                alts_all.append((k, al))
        conds = []
        for idx, (k, al) in enumerate(alts_all):
            ok_ = [m_head == k]
            for dest, (can_ok, can_fail) in al['need'].items():
                alive = a['pAlive'] if dest == cP else (a['wAlive'] if dest == cW else z3.BoolVal(True))
                ok_.append(z3.If(alive, z3.BoolVal(can_ok), z3.BoolVal(can_fail)))
            conds.append(z3.And(alt_pick == idx, *ok_))
        if alts_all:
            s.add(z3.Implies(m_exits, z3.Or(conds)))

        def targets(dest):
            return z3.Or([z3.And(alt_pick == idx, z3.BoolVal(dest in al['sends'])) for idx, (k, al) in enumerate(alts_all)]) if alts_all else z3.BoolVal(False)
        m_join = z3.And(who == 0, a['m'] == 1, z3.Not(a['pAlive']), z3.Not(a['wAlive']))
        # ---------------- effects
        # qP: pop by the poller (when it looked at a non-empty mailbox), push Abort by main
        qP, qPn = pop(a['qP'], a['qPn'], z3.And(p_acts, z3.Not(p_fault), p_has, z3.Not(p_send_fails)))
        qP, qPn, of1 = push(qP, qPn, z3.IntVal(A), z3.And(m_exits, targets(cP), a['pAlive']))
        # qW: push DATA by the poller (when the writer's receiver exists), pop by the writer, push Abort by main
        qW, qWn, of2 = push(a['qW'], a['qWn'], z3.IntVal(DATA), z3.And(p_acts, z3.Not(p_fault), a['wAlive'], z3.BoolVal(cW in P['sends'])))
        qW, qWn = pop(qW, qWn, z3.And(w_acts, z3.Not(w_fault)))
        qW, qWn, of3 = push(qW, qWn, z3.IntVal(A), z3.And(m_exits, targets(cW), a['wAlive']))
        # qM: notifications of the dying workers, pop by main
        pn_p, pn_r = notif(Pn, True), notif(Pn, False)
        wn_p, wn_r = notif(Wn, True), notif(Wn, False)
        qM, qMn = pop(a['qM'], a['qMn'], m_loop)
        qM, qMn, of4 = push(qM, qMn, z3.IntVal(pn_p if pn_p is not None else -5), z3.And(p_dies_panic, z3.BoolVal(pn_p is not None)))
        qM, qMn, of5 = push(qM, qMn, z3.IntVal(pn_r if pn_r is not None else -5), z3.And(p_dies_ret, z3.BoolVal(pn_r is not None)))
        qM, qMn, of6 = push(qM, qMn, z3.IntVal(wn_p if wn_p is not None else -5), z3.And(w_dies_panic, z3.BoolVal(wn_p is not None)))
        qM, qMn, of7 = push(qM, qMn, z3.IntVal(wn_r if wn_r is not None else -5), z3.And(w_dies_ret, z3.BoolVal(wn_r is not None)))
        overflow += [of1, of2, of3, of4, of5, of6, of7]
        s.add(b['pAlive'] == z3.And(a['pAlive'], z3.Not(p_dies)), b['wAlive'] == z3.And(a['wAlive'], z3.Not(w_dies)))
        s.add(b['m'] == z3.If(m_exits, 1, z3.If(m_join, 2, a['m'])))
        for i in range(Q):
            s.add(b['qP'][i] == qP[i], b['qW'][i] == qW[i], b['qM'][i] == qM[i])
        s.add(b['qPn'] == qPn, b['qWn'] == qWn, b['qMn'] == qMn)
        death_marks.append((t, z3.Or(p_dies, w_dies)))
    s.add(z3.Not(z3.Or(overflow)))
    # the injected fault happens (at its step the thread is alive and acts)
    # claim: R rounds after the first death main has returned
    bad = []
    for t, dm in death_marks:
        r = t // 3
        if r + R < K:
            earlier = z3.Or([d for tt, d in death_marks if tt < t]) if t > 0 else z3.BoolVal(False)
            bad.append(z3.And(dm, z3.Not(earlier), sts[3 * (r + R + 1)]['m'] != 2))
    s.add(z3.Or(bad))
    t0 = time.time()
    res = s.check()
    stats['queries'] += 1; stats['solver_s'] += time.time() - t0
    if res == z3.sat:
        m = s.model()
        ev = lambda x: m.eval(x, model_completion=True)
        trace = []
        for t in range(T):
            a = sts[t]
            trace.append({'step': t, 'who': ['main', 'poller', 'writer'][ev(z3.Int('who_%d' % t)).as_long()], 'pAlive': z3.is_true(ev(a['pAlive'])), 'wAlive': z3.is_true(ev(a['wAlive'])),
                          'main': ev(a['m']).as_long(), 'qP': [ev(a['qP'][i]).as_long() for i in range(ev(a['qPn']).as_long())], 'qW': [ev(a['qW'][i]).as_long() for i in range(ev(a['qWn']).as_long())],
                          'qM': [ev(a['qM'][i]).as_long() for i in range(ev(a['qMn']).as_long())]})
        info = {'fault_who': ['', 'poller', 'writer'][ev(fault_who).as_long()], 'fault_panic': z3.is_true(ev(fault_panic)), 'fault_step': ev(fault_at).as_long(), 'trace': trace}
        return 'sat', info
    return ('unsat' if res == z3.unsat else 'unknown'), None


def extract_all(M, stats):
    prog = M.prog
    tabs = Tables(M, stats)
    main_outs = M.run_main()
    main_on, main_detail = tabs.main(main_outs, M.main_ex)
    # the other iteration order of the channel map
    M2 = Models(prog); M2.reverse_keys = True
    outs_r = M2.run_main()
    on_r, det_r = tabs.main(outs_r, M2.main_ex)
    for k, v in on_r.items():
        main_on.setdefault(k, set()).update(v)
    for k, v in det_r.items():
        main_detail.setdefault(k, []).extend(v)
    exP, fnP, SP = loop_summary(M, 'run_clock_error_bound_poller', [ctx_value(M, 'ClockErrorBoundPoller'), Opaque('poller'), Enum(z3.If(z3.Bool('phc_cfg'), z3.IntVal(1), z3.IntVal(0)), {'Some': Struct([Struct([z3.Int('cfg_refid'), Opaque('path')])]), 'None': UNIT}), Struct([z3.Int('sleep_ns')])])
    P = tabs.worker(exP, SP, 'poller'); Pn = tabs.exit_notification(exP, P)
    exW, fnW, SW = loop_summary(M, 'process_messages', [ctx_value(M, 'ShmWriter'), Opaque('updater')])
    W = tabs.worker(exW, SW, 'writer'); Wn = tabs.exit_notification(exW, W)
    P['exit_notification_of_the_loop'] = Pn; W['exit_notification_of_the_loop'] = Wn
    # the death notification of a thread is what <Context as Drop>::drop sends (every way out of the thread drops the Context when
    # the ownership walk is clean); a worker function that lets the Context escape is taken to send nothing
    problems, inspected = ownership_walk(prog)
    dt = {'ClockErrorBoundPoller': {False: set(), True: set()}, 'ShmWriter': {False: set(), True: set()}}
    for name, kind, pc, trace, exd in context_drop(M):
        if kind != 'return':
            continue
        pk = [e for e in trace if e.kind == 'panicking']
        sd = [e for e in trace if e.kind == 'send']
        for pv in (False, True):
            conds = [pc] + ([pk[0].ret if pv else z3.Not(pk[0].ret)] if pk else [])
            if tabs.sat(list(exd.side), *conds):
                if not sd:
                    dt[name][pv].add((None, None))
                for e in sd:
                    d = z3.simplify(e.args[0].disc()); k = z3.simplify(e.args[1].disc())
                    dt[name][pv].add((d.as_long() if z3.is_int_value(d) else None, k.as_long() if z3.is_int_value(k) else None))
    esc_p = any(re.search(r'chrony_poller|run_clock_error_bound_poller|closure#0', x) for x in problems)
    esc_w = any(re.search(r'shm_writer|process_messages|closure#1', x) for x in problems)
    Pn2 = {False: set(), True: set()} if esc_p else dt['ClockErrorBoundPoller']
    Wn2 = {False: set(), True: set()} if esc_w else dt['ShmWriter']
    return tabs, main_outs, main_on, main_detail, P, Pn2, W, Wn2, (exP, SP, exW, SW)


# --------------------------------------------------------------------------------------------- entry functions and wiring
def entry_facts(M):
    """what the thread closures and the two entry functions hand on: the Context they received, and the poller's sleep"""
    prog = M.prog
    facts = {}
    caught = {}

    def grab(name):
        def h(ex, st, callee, args, fn):
            caught[name] = [val(ex, st, a) if isinstance(a, Ref) else a for a in args]
            st.trace = st.trace + (Event('enter:' + name, (), None),)
            return UNIT
        return h
    oc = [r'Arguments(::<.*>)?::from_str$', r'Arguments(::<.*>)?::new', r'Argument(::<.*>)?::new_debug', r'Default>::default$', r'Path::new', r'ShmUpdater(::<.*>)?::new$']
    # chrony_poller::run
    ex = Exec(prog, env=[(r'(^|::)run_clock_error_bound_poller(::<.*>)?$', grab('poller_loop')), (r'ClockErrorBoundPoller as Default>::default$', lambda *a: Opaque('poller'))], opaque_calls=oc)
    from .daemon_extract import time_env
    ex.env = time_env(z3.Int('now_unused')) + ex.env
    ex.const_hooks = time_consts()
    ctxp = ctx_value(M, 'ClockErrorBoundPoller')
    outs = ex.run(prog.find1('chrony_poller::run', crate='clock_bound_d'), [ctxp, Enum(0, {'None': UNIT})], State())
    rets = [o for o in outs if o.kind == 'return']
    facts['poller_entry_paths'] = len(rets)
    facts['poller_entry_reaches_loop'] = bool(rets) and all(any(e.kind == 'enter:poller_loop' for e in o.state.trace) for o in rets)
    a = caught.get('poller_loop')
    facts['poller_loop_gets_the_context'] = bool(a) and a[0] is ctxp
    sl = a[3] if a and len(a) > 3 else None
    sl = sl.f[0] if isinstance(sl, Struct) else None
    sl = z3.simplify(sl) if isinstance(sl, z3.ExprRef) else None
    facts['poller_sleep_ns'] = sl.as_long() if sl is not None and z3.is_int_value(sl) else None
    # shm_writer::run
    new_ok = z3.Bool('writer_new_ok')

    def h_new(ex_, st, callee, args, fn):
        st.trace = st.trace + (Event('ShmWriter::new', (), None),)
        return Enum(z3.If(new_ok, z3.IntVal(0), z3.IntVal(1)), {'Ok': Struct([Opaque('writer')]), 'Err': Struct([Opaque('io::Error')])})
    ex2 = Exec(prog, env=[(r'(^|::)process_messages(::<.*>)?$', grab('writer_loop')), (r'(^|::)ShmWriter::new$', h_new), (r'ShmUpdater(::<.*>)?::new$', lambda *a: Opaque('updater'))], opaque_calls=oc)
    ctxw = ctx_value(M, 'ShmWriter')
    outs2 = ex2.run(prog.find1('shm_writer::run', crate='clock_bound_d'), [ctxw, z3.Int('drift')], State())
    rets2 = [o for o in outs2 if o.kind == 'return']
    facts['writer_entry_reaches_loop'] = bool(rets2) and all(any(e.kind == 'enter:writer_loop' for e in o.state.trace) for o in rets2)
    b = caught.get('writer_loop')
    facts['writer_loop_gets_the_context'] = bool(b) and b[0] is ctxw
    facts['writer_start_failure_panics'] = any(o.kind == 'panic' for o in ex2.obligations)
    return facts


def wiring_facts(M):
    """from the prefix of thread_manager::run: each spawned closure owns a Context whose channel id and mailbox are its own"""
    facts = {}
    names = M.prog.struct_fields.get('Context') or []
    sp = [e for e in M.main_prefix if e.kind == 'spawn']
    facts['threads_spawned'] = len(sp)
    ids = []
    for e in sp:
        clo = e.ret
        ctx = next((x for x in (clo.f if isinstance(clo, Struct) else []) if isinstance(x, Struct) and len(x.f) == len(names)), None)
        if ctx is None:
            ids.append(None); continue
        cid = z3.simplify(ctx.f[names.index('channel_id')].disc())
        mb = ctx.f[names.index('mbox')]
        rid = z3.simplify(mb.f[1]) if isinstance(mb, Struct) and len(mb.f) == 2 else None
        ids.append((cid.as_long() if z3.is_int_value(cid) else None, rid.as_long() if rid is not None and z3.is_int_value(rid) else None))
    facts['contexts'] = ids
    facts['each_context_has_its_own_mailbox'] = all(x is not None and x[0] == x[1] for x in ids) and len(ids) == 2 and sorted(x[0] for x in ids) == sorted([M.chan['ClockErrorBoundPoller'], M.chan['ShmWriter']])
    return facts


def closure_facts(M):
    prog = M.prog
    out = {}
    for f in [f for lst in prog.fns.values() for f in lst if re.match(r'thread_manager::run::\{closure#\d+\}$', f.name) and f.kind == 'fn']:
        calls = [s for b in f.blocks.values() for s in b if re.search(r'(chrony_poller|shm_writer)::run\(', s)]
        out[f.name[-12:]] = [re.search(r'(chrony_poller|shm_writer)::run', s).group(0) for s in calls]
    return out


SITES = {('poller', 'start'): 1, ('poller', 'loop'): 2, ('writer', 'start'): 3, ('writer', 'loop'): 4}


def native_spawn_refused(rp, watchdog_ms=10000):
    """the operating system refuses every new thread while the daemon starts (address-space limit): no worker ever runs, so the daemon
    must give up (the supervisor restarts it), not wait for notices that cannot come"""
    cmd = 'threads 0 0 0 %d 0 0 1' % watchdog_ms
    out = rp.ask(cmd)
    refused = 'probe_spawn_refused=true' in out
    return {'cmd': cmd, 'out': out, 'hung': out.startswith('ok hung'), 'returned_ms': None, 'ok': out.startswith('ok'), 'refused': refused or out.startswith('ok hung')}


def native_binary_exit(limit_s=8):
    """the property is about the PROCESS: the real release binary is started as an unprivileged user, so that its writer thread dies at
    start-up (it cannot create /var/run/clockbound/shm); the process must be gone within a few seconds (run() returning is not enough if
    main() then lingers)"""
    import subprocess, os
    try:
        from .drift_cli import load_bin_program
        load_bin_program()          # builds the release binary as a side effect of the MIR dump
    except Exception as e:
        return {'cmd': 'clockbound (as uid 65534)', 'out': 'binary not built: %s' % e, 'hung': False, 'returned_ms': None, 'ok': False}
    b = os.path.join(common.mir_target_dir('dbin'), 'release', 'clockbound')
    if not os.path.exists(b) or os.geteuid() != 0:
        return {'cmd': b, 'out': 'not runnable here (binary missing or not root)', 'hung': False, 'returned_ms': None, 'ok': False}

    def demote():
        os.setgid(65534); os.setuid(65534)
    # the build directory may sit below a directory the unprivileged user cannot traverse (e.g. /root): run a copy from a scratch
    # directory that is removed afterwards
    import tempfile, shutil
    scratch = tempfile.mkdtemp(prefix='verif-c15-bin-')
    try:
        os.chmod(scratch, 0o755)
        b2 = os.path.join(scratch, 'clockbound')
        shutil.copy2(b, b2); os.chmod(b2, 0o755)
        t0 = time.time()
        try:
            p = subprocess.Popen([b2], preexec_fn=demote, stdout=subprocess.PIPE, stderr=subprocess.PIPE, text=True, cwd=scratch)
        except (OSError, subprocess.SubprocessError) as e:
            return {'cmd': b, 'out': 'not runnable here as an unprivileged user: %s' % e, 'hung': False, 'returned_ms': None, 'ok': False}
        try:
            p.wait(timeout=limit_s)
            hung = False
        except subprocess.TimeoutExpired:
            hung = True
            p.kill(); p.wait()
    finally:
        shutil.rmtree(scratch, ignore_errors=True)
    ms = int((time.time() - t0) * 1000)
    tail = ((p.stdout.read() or '') + (p.stderr.read() or ''))[-400:]
    died = 'Failed to create SHM writer' in tail or 'panicked' in tail
    return {'cmd': 'clockbound (release binary, as uid 65534: the writer thread cannot create the segment)', 'out': ('still running after %d s' % limit_s if hung else 'exited code=%s after %d ms' % (p.returncode, ms)) + ('; a worker died' if died else ''),
            'hung': hung and died, 'returned_ms': None if hung else ms, 'ok': True, 'tail': tail[-200:]}


def native_backlog(rp, watchdog_ms=22000):
    """the writer thread is held up (not dead) for 11.5 s from its second loop visit on, while the poller keeps reporting once a second;
    the poller then dies (panic at its 11th visit, ~10 s in).  When the writer comes back it finds the backlog AND main's ThreadAbort in
    its mailbox: the daemon must be gone shortly after (deadline: 10 s after the writer resumes)"""
    cmd = 'threads %d 11 1 %d 0 0 0 %d 2 11500' % (SITES[('poller', 'loop')], watchdog_ms, SITES[('writer', 'loop')])
    out = rp.ask(cmd)
    m = re.search(r'returned_ms=(\d+)', out)
    return {'cmd': cmd, 'out': out, 'hung': out.startswith('ok hung'), 'returned_ms': int(m.group(1)) if m else None, 'ok': out.startswith('ok')}


def native_segment_uncreatable(rp, watchdog_ms=23000):
    """the segment cannot be created for the whole run (its directory is read-only) and the poller dies after ten reports (panic at its
    11th visit, ~10 s in): whatever the writer thread does about a segment it cannot create (die at once, as the unchanged tree does, or
    keep trying), the daemon must be gone shortly after the poller's death (deadline: 13 s after the start of the 11th poll)"""
    cmd = 'threads %d 11 1 %d 0 0 0 0 0 0 1' % (SITES[('poller', 'loop')], watchdog_ms)
    out = rp.ask(cmd)
    m = re.search(r'returned_ms=(\d+)', out)
    return {'cmd': cmd, 'out': out, 'hung': out.startswith('ok hung'), 'returned_ms': int(m.group(1)) if m else None, 'ok': out.startswith('ok') and 'not_isolated' not in out}


def native_fault(rp, who, where, nth, panic, watchdog_ms=10000, notify_delay_ms=0, chrony_answers=0):
    """chrony_answers > 0: a stand-in chronyd answers that many tracking requests and then disappears (a chronyd restart): the polls
    after that are missed polls inside the grace period"""
    site = SITES[(who, where)]
    cmd = 'threads %d %d %d %d %d %d' % (site, nth, 1 if panic else 2, watchdog_ms, notify_delay_ms, chrony_answers)
    out = rp.ask(cmd)
    hung = out.startswith('ok hung')
    m = re.search(r'returned_ms=(\d+)', out)
    return {'cmd': cmd, 'out': out, 'hung': hung, 'returned_ms': int(m.group(1)) if m else None, 'ok': out.startswith('ok')}


# (who, where, visit, panic?, ms the dying thread is held between its notice and the closing of its mailbox)
# last column: tracking requests a stand-in chronyd answers before it disappears (0: no chronyd at all, every poll is a missed poll
# outside the grace period; n: n regular updates, then missed polls INSIDE the grace period)
STANDING = (('poller', 'loop', 1, True, 0, 0), ('writer', 'loop', 1, False, 0, 0), ('writer', 'start', 1, True, 0, 0), ('poller', 'start', 1, False, 0, 0), ('poller', 'loop', 1, True, 1200, 0),
            ('writer', 'start', 1, True, 1200, 0), ('poller', 'loop', 3, True, 0, 1), ('writer', 'loop', 3, False, 0, 2))
STANDING_THOROUGH = (('poller', 'loop', 2, False, 0, 0), ('writer', 'loop', 2, True, 0, 0), ('poller', 'loop', 4, False, 0, 2), ('poller', 'loop', 2, True, 0, 3), ('writer', 'loop', 4, True, 0, 1))


def native_only(ck, why, tier):
    """the step relations could not be extracted (code outside the encodable fragment): the real thread_manager::run is still run with
    each standing fault; a hang is a violation, no hang leaves the check inconclusive (never green)"""
    rp = common.Replay('debug')
    runs = []
    for who, where, nth, panic, delay, answers in STANDING + (STANDING_THOROUGH if tier == 'thorough' else ()):
        for attempt in range(2):
            nat = native_fault(rp, who, where, nth, panic, 10000, delay, answers)
            runs.append(nat)
            if nat['hung']:
                break
        if nat['hung']:
            ck.violation('daemon-lingers', 'the %s thread %s (%s, visit %d%s): the real thread_manager::run had not returned 10000 ms later - the daemon lingers with part of its pipeline dead (the step relations of this tree are outside the encodable fragment: %s)'
                         % (who, 'panics' if panic else 'returns', 'at start-up' if where == 'start' else 'at the top of its loop', nth, ((', held %d ms before its mailbox closes' % delay) if delay else '') + ((', chronyd answered %d polls and then went away' % answers) if answers else ''), why[:160]), {'cmd': nat['cmd'], 'native': nat['out']})
            break
    if not ck.violations:
        nat = native_binary_exit()
        runs.append(nat)
        if nat['hung']:
            ck.violation('daemon-lingers', 'the real clockbound binary, started so that its writer thread dies at start-up (it cannot create the segment): the process is still there 8 s later (%s) - the workers are gone, the process lingers and its supervisor does not restart it' % nat['out'], {'cmd': nat['cmd'], 'native': nat['out'], 'tail': nat.get('tail')})
    if not ck.violations:
        nat = native_backlog(rp)
        runs.append(nat)
        if nat['hung']:
            ck.violation('daemon-lingers', 'the writer thread is held up for 11.5 s while the poller keeps reporting, then the poller dies: %d ms after the start the real thread_manager::run had still not returned - the abort message did not reach the writer behind (or because of) its backlog and the daemon lingers' % 22000, {'cmd': nat['cmd'], 'native': nat['out']})
    if not ck.violations:
        nat = native_segment_uncreatable(rp)
        runs.append(nat)
        if nat['hung']:
            ck.violation('daemon-lingers', 'the segment cannot be created (read-only directory) and the poller dies after ten reports: 23000 ms after the start the real thread_manager::run had still not returned - the writer thread is busy with the segment it cannot create and does not act on the abort', {'cmd': nat['cmd'], 'native': nat['out']})
    if not ck.violations:
        nat = native_spawn_refused(rp)
        runs.append(nat)
        if nat['hung']:
            ck.violation('daemon-lingers', 'the operating system refuses new threads while the daemon starts (pthread_create fails with EAGAIN): the real thread_manager::run had not returned 10000 ms later - the daemon sits there with no (or only part of its) pipeline instead of exiting', {'cmd': nat['cmd'], 'native': nat['out']})
    rp.close()
    ck.cov['native_runs'] = [{'cmd': n['cmd'], 'returned_ms': n['returned_ms'], 'hung': n['hung']} for n in runs]
    ck.cov['traces_validated_against_impl'] = len(runs)
    ck.inconclusive.append('step relations not extracted: ' + why[:300])
    return ck.finish()


def run_check(tier, seed):
    ck = Check('C15', tier, seed)
    prog, mir_wall = load_dlib_program()
    M = Models(prog)
    stats = {'queries': 0, 'solver_s': 0.0}
    t0 = time.time()
    try:
        tabs, main_outs, main_on, main_detail, P, Pn, W, Wn, _x = extract_all(M, stats)
        entry_facts(M)
    except EngineError as e:
        return native_only(ck, str(e), tier)
    extract_s = time.time() - t0
    pr = Prover(seed)
    T = z3.BoolVal(True)
    A, PN, TM = tabs.ABORT, tabs.PANIC, tabs.TERM
    cM, cP, cW = M.chan['MainThread'], M.chan['ClockErrorBoundPoller'], M.chan['ShmWriter']
    rp = common.Replay('debug')
    DEADLINE_MS = 10000
    diag = []      # facts about the pieces: recorded, decisive only through the composition and the native runs

    def fact(name, ok):
        pr.prove(name, T, z3.BoolVal(bool(ok)), need_reach=False)
        if not ok:
            diag.append(name)
        return ok
    # ---- pieces (each is a solver-decided statement about the extracted relation; a failing piece is not yet a violation)
    problems, inspected = ownership_walk(prog)
    wf = wiring_facts(M); ef = entry_facts(M); cf = closure_facts(M)
    ck.cov['pieces'] = {'ownership_flows_inspected': inspected, 'ownership_problems': problems[:4], 'wiring': {k: str(v) for k, v in wf.items()}, 'entry': ef, 'closures': cf,
                        'main_on': {str(k): sorted(v) for k, v in main_on.items()}, 'main_exit_detail': {str(k): [(sorted(tg), j, o) for tg, j, o in v] for k, v in main_detail.items()},
                        'poller_on': {str(k): sorted(v) for k, v in P['on'].items()}, 'writer_on': {str(k): sorted(v) for k, v in W['on'].items()},
                        'poller_blocking_calls': [list(x) for x in P['blocking']], 'writer_blocking_calls': [list(x) for x in W['blocking']],
                        'poller_exit_notification': {str(k): sorted(v, key=str) for k, v in Pn.items()}, 'writer_exit_notification': {str(k): sorted(v, key=str) for k, v in Wn.items()},
                        'panic_sites_in_poller_iteration': P['panics'], 'panic_sites_in_writer_iteration': W['panics']}
    ok_pieces = True
    ok_pieces &= fact('the Context only flows into drop() or the next worker function (%d flows in the thread closures and worker functions)' % inspected, not problems)
    ok_pieces &= fact('each spawned thread owns the Context with its own channel id and mailbox', wf['each_context_has_its_own_mailbox'])
    ok_pieces &= fact('the entry functions hand the Context they received to the worker loops', ef['poller_loop_gets_the_context'] and ef['writer_loop_gets_the_context'] and ef['poller_entry_reaches_loop'] and ef['writer_entry_reaches_loop'])
    for who, tab, nt in (('poller', P, Pn), ('writer', W, Wn)):
        ok_pieces &= fact('%s loop: ThreadAbort leaves the loop (and never continues)' % who, tab['on'].get(A) == {'exit'})
        ok_pieces &= fact('%s: dropping its Context reports ThreadTerminate to the main thread, ThreadPanic when unwinding' % who, nt[False] == {(cM, TM)} and nt[True] == {(cM, PN)})
    for k in (TM, PN, 'disconnected'):
        det = main_detail.get(k, [])
        ok_pieces &= fact('main loop: on %s it broadcasts ThreadAbort to both workers, then joins both, then returns' % ({TM: 'ThreadTerminate', PN: 'ThreadPanic'}.get(k, 'a closed mailbox')),
                          main_on.get(k) == {'exit'} and det and all(tg == frozenset({cP, cW}) and j == 2 and o for tg, j, o in det))
    try:
        chf = channels_facts(M)
        ck.cov['pieces']['channel_web'] = chf
        for nm_, okv in chf.items():
            ok_pieces &= fact('channel web: ' + nm_, okv)
    except EngineError as e:
        ck.inconclusive.append('channel web (channels.rs) not executable: %s' % e)
    sleep_ns = ef.get('poller_sleep_ns')
    # a worker may wait in a mailbox receive (a message wakes it) or sleep for a short, constant time
    blocking_ok = all(b[0] in ('recv', 'recv_timeout') or (b[0] == 'sleep' and isinstance(b[1], int) and b[1] <= 2 * NS) for b in P['blocking'] + W['blocking'])
    ok_pieces &= fact('workers block only in mailbox receives (which a message wakes); the poller\'s receive time-out is %s ns' % sleep_ns, blocking_ok and sleep_ns is not None and sleep_ns <= 2 * NS)
    ck.absorb(pr)
    # ---- time a worker step can be held up besides its (interruptible) mailbox receive and the chronyd query
    BUDGET_NS = 2 * NS
    try:
        bb, mono, bv = blocking_budget(M, stats)
        prb = Prover(seed)

        def confirm_sleep(m):
            # a long outage of chronyd, then the writer dies while the poller sits in its delay: does the daemon still exit promptly?
            nat = native_fault(rp, 'writer', 'loop', 6, True, DEADLINE_MS)
            native_budget.append(nat)
            if nat['hung']:
                ck.violation('daemon-lingers', 'chronyd silent since the daemon started, the writer thread panics at its 6th message: the real thread_manager::run had not returned %d ms later (the poller thread can sit in a delay that no message interrupts: the code allows more than %d s per poll)'
                             % (DEADLINE_MS, BUDGET_NS // NS), {'cmd': nat['cmd'], 'native': nat['out']})
                return 'sleep'
            return None
        native_budget = []
        tot_holder = [None]
        for name, pc, total, exb in bb:
            prb.add(exb.side)
            tot_holder[0] = total
            prb.prove_cegar('ClockErrorBoundPoller::%s: besides the chronyd query the thread is never held up for more than %d s (any outage length)' % (name, BUDGET_NS // NS), z3.And(pc, *mono), total <= BUDGET_NS,
                            confirm_sleep, lambda m: [], need_reach=False)
        ck.absorb(prb, 'blocking: ')
    except EngineError as e:
        ck.inconclusive.append('blocking budget of the poller: %s' % e)
    # ---- composition
    R = 3 if tier == 'quick' else 6
    K = R + 3 if tier == 'quick' else R + 5
    Q = 4 if tier == 'quick' else 6
    res, info = bmc(tabs, P, W, Pn, Wn, main_on, main_detail, M.chan, K, R, Q, seed, stats)
    ck.cov['queries'] += stats['queries']; ck.cov['evaluations'] += stats['queries']; ck.cov['obligations'] += 1
    ck.cov['solver_time_s'] = round(ck.cov['solver_time_s'] + stats['solver_s'], 2)
    ck.cov['samples'].append({'obligation': 'composition: for every schedule of %d rounds and every single worker fault (panic or return, start-up or any iteration), main has returned %d rounds after the first death (queues <= %d)' % (K, R, Q),
                              'verdict': res, 'table_queries': stats['queries']})
    native_runs = []
    if res == 'unsat':
        ck.cov['discharged'] += 1; ck.cov['distinct_nontrivial'] += 1
    elif res == 'unknown':
        ck.inconclusive.append('composition query: solver unknown')
    else:
        # replay: the fault of the model, injected into the real thread_manager::run
        who = info['fault_who']; panic = info['fault_panic']
        iters = len([x for x in info['trace'][:info['fault_step']] if x['who'] == who])
        tried = []
        # the model's messages are kinds, not contents: which kind the poller's last report had (a regular update, a missed poll inside
        # or outside the grace period) is chosen natively through the stand-in chronyd (it answers 0, 1 or 2 polls, then goes away)
        for where, nth, answers in ((('start', 1, 0),) if iters == 0 else ()) + (('loop', max(1, iters), 0), ('loop', 1, 0), ('loop', 2, 0), ('loop', 3, 1), ('loop', 2, 1), ('loop', 3, 2), ('loop', 4, 2)):
            if (where, nth, answers) in tried:
                continue
            tried.append((where, nth, answers))
            for attempt in range(4 if not answers else 2):        # the channel map iterates in a random order and the notification races with the drop of the mailbox
                nat = native_fault(rp, who, where, nth, panic, DEADLINE_MS, 0, answers)
                native_runs.append(nat)
                if nat['hung']:
                    break
            if nat['hung']:
                ck.violation('daemon-lingers', 'the %s thread %s (%s, visit %d%s): the real thread_manager::run had not returned %d ms later - the daemon lingers with part of its pipeline dead; failing pieces: %s'
                             % (who, 'panics' if panic else 'returns', 'at start-up' if where == 'start' else 'at the top of its loop', nth, (', chronyd answered %d polls and then went away' % answers) if answers else '', DEADLINE_MS, '; '.join(diag[:3]) or 'none'),
                             {'cmd': nat['cmd'], 'native': nat['out'], 'model': {k: v for k, v in info.items() if k != 'trace'}, 'trace': info['trace']})
                break
        else:
            ck.inconclusive.append('the composition has a counterexample (%s %s at step %d) that did not reproduce natively: %s' % (who, 'panics' if panic else 'returns', info['fault_step'], [n['out'][:80] for n in native_runs]))
    # ---- standing native runs (also when the model is green): real threads, real channels, real unwinding
    if not ck.violations:
        for who, where, nth, panic, delay, answers in STANDING + (STANDING_THOROUGH if tier == 'thorough' else ()):
            nat = native_fault(rp, who, where, nth, panic, DEADLINE_MS, delay, answers)
            native_runs.append(nat)
            if nat['hung']:
                ck.violation('daemon-lingers', 'the %s thread %s (%s, visit %d%s): the real thread_manager::run had not returned %d ms later (the bounded model had no counterexample: a mechanism outside it)'
                             % (who, 'panics' if panic else 'returns', 'at start-up' if where == 'start' else 'at the top of its loop', nth, ((', held %d ms before its mailbox closes' % delay) if delay else '') + ((', chronyd answered %d polls and then went away' % answers) if answers else ''), DEADLINE_MS), {'cmd': nat['cmd'], 'native': nat['out']})
                break
            if not nat['ok']:
                ck.inconclusive.append('native thread run failed: ' + nat['out'][:100])
    if not ck.violations:
        nat = native_binary_exit()
        native_runs.append(nat)
        if nat['hung']:
            ck.violation('daemon-lingers', 'the real clockbound binary, started so that its writer thread dies at start-up (it cannot create the segment): the process is still there 8 s later (%s) - the workers are gone, the process lingers and its supervisor does not restart it' % nat['out'], {'cmd': nat['cmd'], 'native': nat['out'], 'tail': nat.get('tail')})
    if not ck.violations:
        nat = native_backlog(rp)
        native_runs.append(nat)
        if nat['hung']:
            ck.violation('daemon-lingers', 'the writer thread is held up for 11.5 s while the poller keeps reporting, then the poller dies: %d ms after the start the real thread_manager::run had still not returned - the abort message did not reach the writer behind (or because of) its backlog and the daemon lingers' % 22000, {'cmd': nat['cmd'], 'native': nat['out']})
    if not ck.violations:
        nat = native_segment_uncreatable(rp)
        native_runs.append(nat)
        if nat['hung']:
            ck.violation('daemon-lingers', 'the segment cannot be created (read-only directory) and the poller dies after ten reports: 23000 ms after the start the real thread_manager::run had still not returned - the writer thread is busy with the segment it cannot create and does not act on the abort', {'cmd': nat['cmd'], 'native': nat['out']})
    if not ck.violations:
        nat = native_spawn_refused(rp, DEADLINE_MS)
        native_runs.append(nat)
        if nat['hung']:
            ck.violation('daemon-lingers', 'the operating system refuses new threads while the daemon starts (pthread_create fails with EAGAIN): the real thread_manager::run had not returned %d ms later - the daemon sits there with no (or only part of its) pipeline instead of exiting' % DEADLINE_MS, {'cmd': nat['cmd'], 'native': nat['out']})
    rp.close()
    if diag and not ck.violations and res == 'unsat':
        # a piece differs from the documented mechanism but the composition still exits: reported, not a violation
        ck.cov['pieces_differing_from_the_documented_mechanism'] = diag
        pr.handled = {n for n, m in pr.failed}
        ck.inconclusive = [i for i in ck.inconclusive if not i.startswith('counterexample without native confirmation')]
    ck.cov['native_runs'] = [{'cmd': n['cmd'], 'returned_ms': n['returned_ms'], 'hung': n['hung']} for n in native_runs]
    ck.cov['traces_validated_against_impl'] = len(native_runs)
    ck.cov['functions_encoded'] = ['thread_manager::run (prefix, one iteration of the receive loop, joins)', 'thread_manager::broadcast_abort and its two closures', '<Context as Drop>::drop',
                                   'chrony_poller::run', 'run_clock_error_bound_poller (one iteration)', 'shm_writer::run', 'process_messages (one iteration)', 'thread_manager::run::{closure#0,#1} (ownership walk)']
    ck.cov['mir_dump_s'] = round(mir_wall, 1); ck.cov['extract_s'] = round(extract_s, 1)
    ck.cov['stubs'] = ['std::sync::mpsc: FIFO queues; send succeeds while the receiver exists; recv blocks until a message arrives', 'thread::spawn / JoinHandle::join: a thread is joined once it has left its function',
                       'HashMap of the channel web: an abstract key set {MainThread, ClockErrorBoundPoller, ShmWriter}; DispatchBox::send delivers to the mailbox registered under the key',
                       'iterator adaptors keys/filter/map/collect: their semantics, closures run from their own MIR', 'chronyd query, PHC read, clock read, ShmUpdater calls: environment (arbitrary results; may panic = a fault point)',
                       'unwinding runs drop glue (panic = unwind in the repository\'s profiles); the scheduler is fair (rounds)']
    ck.cov['bounds'] = {'rounds': K, 'deadline_rounds_after_first_death': R, 'queue_length': Q, 'faults': 'one injected worker fault (panic or return) at start-up or any iteration, plus the deaths the code itself produces',
                        'wall_clock': 'a round costs at most one chrony query time-out (environment: chrony-candm default 1 s x 3 tries) since receives wake on a message; natively measured in the runs below (watchdog %d ms)' % DEADLINE_MS,
                        'outside': 'a worker blocked forever inside a system call, signals, the supervisor restarting the daemon, more than one simultaneous fault'}
    ck.cov['rule'] = 'one obligation per piece (solver-decided table entries) and one composition query; violations only from native runs of the real thread_manager::run'
    ck.assumptions += ['std::sync::mpsc FIFO semantics', 'fair scheduling', 'panic = unwind']
    return ck.finish()


# --------------------------------------------------------------------------------------------- C19: the rate's way through the threads
def drift_chain(prog):
    """thread_manager::run(max_drift_ppb, ..) -> closure capture -> shm_writer::run(ctx, rate) -> ShmUpdater::new(writer, rate):
    the value handed on at every link, as a z3 term over run()'s parameter.  returns (param, [(link name, term or None)])"""
    M = Models(prog)
    M.run_main()
    param = z3.Int('max_drift_ppb')
    links = []
    names = prog.struct_fields.get('Context') or []
    sp = [e for e in M.main_prefix if e.kind == 'spawn']
    wclo = None
    for e in sp:
        clo = e.ret
        ctx = next((x for x in (clo.f if isinstance(clo, Struct) else []) if isinstance(x, Struct) and len(x.f) == len(names)), None)
        if ctx is not None and z3.is_int_value(z3.simplify(ctx.f[names.index('channel_id')].disc())) and z3.simplify(ctx.f[names.index('channel_id')].disc()).as_long() == M.chan['ShmWriter']:
            wclo = (e.args[0], clo)
    if wclo is None:
        return param, [('thread_manager::run spawns the writer thread with a closure owning the writer Context', None)]
    loc, clo = wclo
    caught = {}

    def grab(name):
        def h(ex, st, callee, args, fn):
            caught[name] = list(args)
            return UNIT if name != 'updater_new' else Opaque('updater')
        return h
    # the closure body
    cf = [f for lst in prog.fns.values() for f in lst if '{closure#' in f.name and f.kind == 'fn' and f.params and loc in f.ltypes.get(f.params[0], '')]
    if len(cf) != 1:
        return param, [('writer thread closure body found', None)]
    ex = Exec(prog, env=[(r'(^|::)shm_writer::run$', grab('writer_run'))])
    ex.run(cf[0], [clo], State())
    a = caught.get('writer_run')
    v1 = a[1] if a and len(a) > 1 and isinstance(a[1], z3.ExprRef) else None
    links.append(('the writer thread\'s closure passes the captured rate to shm_writer::run', v1))
    # shm_writer::run
    rate = z3.Int('rate_in')

    def h_new(ex_, st, callee, args, fn):
        return Enum(0, {'Ok': Struct([Opaque('writer')])})
    ex2 = Exec(prog, env=[(r'(^|::)ShmWriter::new$', h_new), (r'ShmUpdater(::<.*>)?::new$', grab('updater_new')), (r'(^|::)process_messages(::<.*>)?$', grab('loop'))],
               opaque_calls=[r'Arguments(::<.*>)?::from_str$', r'Arguments(::<.*>)?::new', r'Argument(::<.*>)?::new_debug', r'Path::new'])
    ex2.run(prog.find1('shm_writer::run', crate='clock_bound_d'), [ctx_value(M, 'ShmWriter'), rate], State())
    b = caught.get('updater_new')
    v2 = b[1] if b and len(b) > 1 and isinstance(b[1], z3.ExprRef) else None
    links.append(('shm_writer::run passes its rate to ShmUpdater::new', z3.substitute(v2, (rate, param)) if v2 is not None else None))
    # ShmUpdater::new keeps the rate and the first record it publishes carries it (C08 proves the same field for every later record)
    try:
        from .daemon_updater import UpdaterModel, rec_fields
        um = UpdaterModel(prog)
        st = State(); st.mem[(0, 'u')] = um.fresh_updater(rate)
        outs = [o for o in um.step_missing(st, z3.BoolVal(False)) if o.kind == 'return']
        pubs = [e for o in outs for e in o.state.trace if e.kind == 'publish']
        v3 = rec_fields(pubs[-1].ret)[5] if len(outs) == 1 and pubs else None
        links.append(('ShmUpdater::new keeps the rate it is given: the first record published carries it', z3.substitute(v3, (rate, param)) if isinstance(v3, z3.ExprRef) else None))
    except EngineError:
        links.append(('ShmUpdater::new keeps the rate it is given: the first record published carries it', None))
    return param, links


# --------------------------------------------------------------------------------------------- how long a worker step can block
def blocking_budget(M, stats):
    """the real ClockErrorBoundPoller::{get_tracking, is_within_grace_period}: every way the thread can be held up inside them besides
    the chronyd query itself (whose time-out is the environment's).  returns list of (description, pcond, total sleep term, vars)"""
    prog = M.prog
    L = z3.Int('last_answer_ns'); now = [z3.Int('now_%d' % i) for i in range(6)]
    reply_ok = z3.Bool('uds_reply_ok'); body = z3.Int('reply_body_kind')
    rb = prog.enums.get('ReplyBody')

    def ev(st, kind, args=(), ret=None):
        st.trace = st.trace + (Event(kind, args, ret),)

    def tnow(st):
        i = len([e for e in st.trace if e.kind == 'Instant::now'])
        if i >= len(now):
            raise EngineError('too many clock reads in one poller call')
        ev(st, 'Instant::now', (), now[i])
        return now[i]

    def d(ex, st, v):
        v = val(ex, st, v)
        return v.f[0] if isinstance(v, Struct) else v

    def h_now(ex, st, callee, args, fn):
        return Struct([tnow(st)])

    def h_elapsed(ex, st, callee, args, fn):
        r = tnow(st) - d(ex, st, args[0])
        return Struct([z3.If(r >= 0, r, z3.IntVal(0))])

    def h_sleep(ex, st, callee, args, fn):
        ev(st, 'sleep', (d(ex, st, args[0]),))
        return UNIT

    def h_dur(ex, st, callee, args, fn):
        k = strip_tail(callee)
        a = d(ex, st, args[0])
        if k in ('from_secs',):
            return Struct([args[0] * NS])
        if k == 'from_millis':
            return Struct([args[0] * 10 ** 6])
        b = d(ex, st, args[1]) if len(args) > 1 else None
        if k == 'saturating_sub':
            return Struct([z3.If(a >= b, a - b, z3.IntVal(0))])
        if k == 'saturating_add':
            return Struct([a + b])
        if k == 'min':
            return Struct([z3.If(a <= b, a, b)])
        if k == 'max':
            return Struct([z3.If(a >= b, a, b)])
        if k in ('lt', 'le', 'gt', 'ge'):
            return {'lt': a < b, 'le': a <= b, 'gt': a > b, 'ge': a >= b}[k]
        if k in ('mul', 'saturating_mul') or k == 'checked_mul':
            raise EngineError('Duration multiplication')
        raise EngineError('Duration::' + k)

    def strip_tail(c):
        return c.rsplit('::', 1)[1]

    def h_query(ex, st, callee, args, fn):
        ev(st, 'blocking_query_uds')
        pl = {k: Struct([Opaque('body.' + k)]) for k in (rb or {})}
        pl['Tracking'] = Struct([Struct([z3.Int('wire_ref_id')] + [Opaque('t%d' % i) for i in range(1, 14)])])
        rep = Struct([Opaque('r0'), Opaque('r1'), Opaque('r2'), Enum(body, pl)])
        return Enum(z3.If(reply_ok, z3.IntVal(0), z3.IntVal(1)), {'Ok': Struct([rep]), 'Err': Struct([Opaque('io::Error')])})
    env = [(r'(^|::)Instant::now$', h_now), (r'(^|::)Instant::elapsed$', h_elapsed), (r'(^|::)thread::sleep$|^sleep$|(^|::)sleep$', h_sleep),
           (r'(^|::)Duration::(from_secs|from_millis|saturating_sub|saturating_add)$', h_dur), (r'^<Duration as (Ord|PartialOrd)>::(min|max|lt|le|gt|ge)$', h_dur),
           (r'(^|::)blocking_query_uds$', h_query)]
    res = []
    for name in ('get_tracking', 'is_within_grace_period'):
        ex = Exec(prog, env=env, opaque_calls=[r'^<ClientOptions as Default>::default$', r'Arguments(::<.*>)?::from_str$', r'Arguments(::<.*>)?::new', r'Argument(::<.*>)?::new_debug'])
        ex.const_hooks = time_consts()
        f = prog.find1(name, self_ty='ClockErrorBoundPoller')
        st = State(); st.mem[(0, 'p')] = Struct([Struct([L])])
        outs = ex.run(f, [Ref(0, 'p')], st)
        for o in outs:
            if o.kind != 'return':
                continue
            sl = [e.args[0] for e in o.state.trace if e.kind == 'sleep']
            total = sum(sl[1:], sl[0]) if sl else z3.IntVal(0)
            res.append((name, o.state.pcond(), total, ex))
    mono = [L >= 0, now[0] >= L] + [now[i + 1] >= now[i] for i in range(len(now) - 1)] + [now[-1] < 2 ** 62]
    return res, mono, dict(L=L, now=now)


# --------------------------------------------------------------------------------------------- the channel web (channels.rs)
class PyMap:
    """a HashMap with concrete keys (channel ids) and symbolic values"""
    __slots__ = ('items',)

    def __init__(self, items=()):
        self.items = list(items)

    def __repr__(self):
        return 'PyMap(%r)' % [k for k, v in self.items]


def channels_facts(M):
    """new_channel_web / MailBox::get_mailbox / DispatchBox::send executed over a HashMap model: every id gets one channel whose
    receiving end is filed under that id in the MailBox and whose sending end under the same id in the DispatchBox; send() uses the
    sender filed under the id it is given.  Returns dict of facts (all must be True for the abstract channel web of the composition)."""
    prog = M.prog
    nchan = [0]
    sends = []

    def key_of(ex, st, v):
        v = val(ex, st, v)
        d = z3.simplify(v.disc()) if isinstance(v, Enum) else None
        if d is None or not z3.is_int_value(d):
            raise EngineError('channel id is not a constant')
        return d.as_long()

    def h_with_capacity(ex, st, callee, args, fn):
        return PyMap()

    def h_len(ex, st, callee, args, fn):
        v = val(ex, st, args[0])
        return z3.IntVal(len(v.items)) if isinstance(v, (PyVec, PyMap)) else z3.IntVal(0)

    def h_into_iter(ex, st, callee, args, fn):
        v = val(ex, st, args[0])
        return PyVec(v.items, 0)

    def h_next(ex, st, callee, args, fn):
        r = args[0]; it = val(ex, st, r)
        if not isinstance(it, PyVec) or not isinstance(r, Ref):
            raise EngineError('Iterator::next on %r' % (it,))
        if it.pos >= len(it.items):
            return Enum(0, {'None': UNIT})
        ex.store(st, r.frame, (r.local, list(r.path)), PyVec(it.items, it.pos + 1))
        return Enum(1, {'Some': Struct([it.items[it.pos]]), 'None': UNIT})

    def h_channel(ex, st, callee, args, fn):
        nchan[0] += 1
        return Struct([Struct([Opaque('sender'), z3.IntVal(nchan[0])]), Struct([Opaque('receiver'), z3.IntVal(nchan[0])])])

    def h_clone(ex, st, callee, args, fn):
        return val(ex, st, args[0])

    def h_insert(ex, st, callee, args, fn):
        r = args[0]; mp = val(ex, st, r)
        k = key_of(ex, st, args[1])
        old = [v for kk, v in mp.items if kk == k]
        ex.store(st, r.frame, (r.local, list(r.path)), PyMap([(kk, v) for kk, v in mp.items if kk != k] + [(k, args[2])]))
        return Enum(1, {'Some': Struct([old[0]]), 'None': UNIT}) if old else Enum(0, {'None': UNIT})

    def h_get(ex, st, callee, args, fn):
        mp = val(ex, st, args[0]); k = key_of(ex, st, args[1])
        hit = [v for kk, v in mp.items if kk == k]
        if not hit:
            return Enum(0, {'None': UNIT})
        M.n += 1
        st.mem[('mapv', M.n)] = hit[0]
        return Enum(1, {'Some': Struct([Ref('mapv', M.n)]), 'None': UNIT})

    def h_remove(ex, st, callee, args, fn):
        r = args[0]; mp = val(ex, st, r); k = key_of(ex, st, args[1])
        hit = [v for kk, v in mp.items if kk == k]
        ex.store(st, r.frame, (r.local, list(r.path)), PyMap([(kk, v) for kk, v in mp.items if kk != k]))
        return Enum(1, {'Some': Struct([hit[0]]), 'None': UNIT}) if hit else Enum(0, {'None': UNIT})

    def h_sender_send(ex, st, callee, args, fn):
        sd = val(ex, st, args[0])
        cid = z3.simplify(sd.f[1]).as_long() if isinstance(sd, Struct) and len(sd.f) == 2 else None
        sends.append(cid)
        st.trace = st.trace + (Event('chan_send', (cid,), None),)
        return Enum(0, {'Ok': Struct([UNIT])})
    env = [(r'HashMap::<.*>::with_capacity$|HashMap::<.*>::new$', h_with_capacity), (r'Vec::<\w+>::len$', h_len), (r'as IntoIterator>::into_iter$', h_into_iter),
           (r'IntoIter<\w+> as Iterator>::next$', h_next), (r'mpsc::channel::<.*>$|(^|::)channel::<\w+>$', h_channel), (r'^<\w+ as Clone>::clone$', h_clone),
           (r'HashMap::<.*>::insert$', h_insert), (r'HashMap::<.*>::get::<.*>$|HashMap::<.*>::get$', h_get), (r'HashMap::<.*>::remove::<.*>$|HashMap::<.*>::remove$', h_remove),
           (r'mpsc::Sender::<.*>::send$|Sender::<\w+>::send$', h_sender_send)]
    ex = Exec(prog, env=env)
    ex.loop_bound = 8
    facts = {}
    ids = [M.chan['ClockErrorBoundPoller'], M.chan['MainThread'], M.chan['ShmWriter']]
    fn = prog.find1('new_channel_web', crate='clock_bound_d')
    outs = [o for o in ex.run(fn, [PyVec([Enum(d, {}) for d in ids])], State()) if o.kind == 'return']
    if len(outs) != 1:
        raise EngineError('new_channel_web: %d returning paths' % len(outs))
    web = outs[0].value
    mb, db = web.f[0], web.f[1]
    mbm = mb.f[0] if isinstance(mb, Struct) else mb; dbm = db.f[0] if isinstance(db, Struct) else db
    if not isinstance(mbm, PyMap) or not isinstance(dbm, PyMap):
        raise EngineError('new_channel_web does not return two maps')
    ch = lambda v: z3.simplify(v.f[1]).as_long() if isinstance(v, Struct) and len(v.f) == 2 and isinstance(v.f[1], z3.ExprRef) else None
    rcv = {k: ch(v) for k, v in mbm.items}; snd = {k: ch(v) for k, v in dbm.items}
    facts['every id has a mailbox and a sender'] = sorted(rcv) == sorted(ids) and sorted(snd) == sorted(ids)
    facts['the two ends filed under an id belong to the same channel'] = all(rcv.get(k) is not None and rcv.get(k) == snd.get(k) for k in ids)
    facts['different ids have different channels'] = len({rcv.get(k) for k in ids}) == len(ids)
    # DispatchBox::send
    f_send = [f for f in prog.find('send', crate='clock_bound_d') if 'channels.rs' in f.name and len(f.params) == 3]
    ok_send = True
    for k in ids:
        del sends[:]
        st = State(); st.mem[(0, 'db')] = db; st.mem[(0, 'k')] = Enum(k, {})
        o2 = [o for o in ex.run(f_send[0], [Ref(0, 'db'), Ref(0, 'k'), Enum(M.msg['ThreadAbort'], {'ThreadAbort': UNIT})], st) if o.kind == 'return'] if len(f_send) == 1 else []
        ok_send &= len(o2) == 1 and sends == [snd.get(k)]
    facts['DispatchBox::send uses the sender filed under the id it is given'] = bool(ok_send)
    # MailBox::get_mailbox
    f_get = [f for f in prog.find('get_mailbox', crate='clock_bound_d')]
    ok_get = len(f_get) == 1
    if ok_get:
        st = State(); st.mem[(0, 'mb')] = mb
        for k in ids:
            st.mem[(0, 'k')] = Enum(k, {})
            o3 = [o for o in ex.run(f_get[0], [Ref(0, 'mb'), Ref(0, 'k')], st) if o.kind == 'return']
            if len(o3) != 1 or 'Some' not in o3[0].value.p or ch(o3[0].value.p['Some'].f[0]) != rcv.get(k):
                ok_get = False; break
            st = o3[0].state
    facts['MailBox::get_mailbox hands out the receiving end filed under the id'] = bool(ok_get)
    return facts
