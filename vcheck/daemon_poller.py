"""C12 (order of clock reads) and C13 (outages and PHC failures degrade on schedule):
one iteration of `run_clock_error_bound_poller` and the grace-period arithmetic of `ClockErrorBoundPoller`,
executed symbolically from the daemon's MIR; client half of C12 from `ClockErrorBound::now()`'s MIR."""
import re
import time

import z3

from mirsym.exec import Exec, State, Event
from mirsym.seqlock import summarise
from mirsym.values import Struct, Enum, Ref, Opaque, UNIT, EngineError
from . import common
from .common import Prover, Check, mval
from .daemon_extract import load_dlib_program, time_consts, NS

GRACE_NS = 5 * NS


class PollerModel:
    """one iteration of the poller loop over a symbolic environment"""

    def __init__(self, prog):
        self.prog = prog
        self.msg = prog.enums.get('Message')
        self.chan = prog.enums.get('ChannelId')
        if not self.msg or not self.chan:
            raise EngineError('Message / ChannelId enums not found in the sources')
        B = z3.Bool; I = z3.Int
        self.clock_ok, self.tracking_some, self.phc_cfg, self.phc_ok, self.grace, self.send_ok = B('clock_ok'), B('tracking_some'), B('phc_configured'), B('phc_read_ok'), B('within_grace'), B('send_ok')
        self.grace_before = B('within_grace_before_the_query')
        self.as_s, self.as_n = I('mono_s'), I('mono_n')
        self.t_refid, self.cfg_refid, self.phc_val = I('tracking_ref_id'), I('configured_ref_id'), I('phc_error_bound')
        self.recv_ok, self.recv_msg, self.recv_err = B('recv_ok'), I('recv_msg'), I('recv_err')
        self.t_ref_ns = I('tracking_ref_time_ns')
        self.t_stratum, self.t_leap = I('tracking_stratum'), I('tracking_leap_status')
        # fields: 0 ref_id, 2 stratum, 3 leap_status, 4 ref_time are symbolic; the address and the float fields are opaque
        special = {2: self.t_stratum, 3: self.t_leap, 4: Struct([self.t_ref_ns])}
        self.tracking = Struct([self.t_refid] + [special.get(i, Opaque('tracking.%d' % i)) for i in range(1, 14)])
        self.ngrace = 0

    def env(self):
        def ev(st, kind, args=(), ret=None):
            st.trace = st.trace + (Event(kind, args, ret),)

        def clock(ex, st, callee, args, fn):
            ts = Struct([self.as_s, self.as_n])
            ev(st, 'clock_gettime', (args[0],), ts)
            return Enum(z3.If(self.clock_ok, z3.IntVal(0), z3.IntVal(1)), {'Ok': Struct([ts]), 'Err': Struct([Enum(0, {'SyscallError': Struct([Opaque('errno'), Opaque('origin')])})])})

        def get_tracking(ex, st, callee, args, fn):
            ev(st, 'get_tracking')
            return Enum(z3.If(self.tracking_some, z3.IntVal(1), z3.IntVal(0)), {'Some': Struct([self.tracking]), 'None': UNIT})

        def grace(ex, st, callee, args, fn):
            # the grace period can run out while the query to chronyd is pending: the answer before the query and the answer
            # after it are independent; the documented outcome is the one for the moment chronyd's silence is known
            asked_before = not any(e.kind == 'get_tracking' for e in st.trace)
            ev(st, 'is_within_grace_period', ('before the query' if asked_before else 'after the query',))
            return self.grace_before if asked_before else self.grace

        def phc(ex, st, callee, args, fn):
            ev(st, 'get_phc_error_bound_from_path', (args[0],))
            return Enum(z3.If(self.phc_ok, z3.IntVal(0), z3.IntVal(1)), {'Ok': Struct([self.phc_val]), 'Err': Struct([Opaque('io::Error')])})

        def send(ex, st, callee, args, fn):
            ch = ex.deref(st, args[1]) if isinstance(args[1], Ref) else args[1]
            ev(st, 'send', (ch, args[2]))
            return Enum(z3.If(self.send_ok, z3.IntVal(0), z3.IntVal(1)), {'Ok': Struct([UNIT]), 'Err': Struct([Opaque('SendError')])})

        def recv(ex, st, callee, args, fn):
            ev(st, 'recv_timeout', (args[1],))
            return Enum(z3.If(self.recv_ok, z3.IntVal(0), z3.IntVal(1)), {'Ok': Struct([Enum(self.recv_msg, {})]), 'Err': Struct([Enum(self.recv_err, {})])})
        def instant_now(ex, st, callee, args, fn):
            # std::time::Instant inside the loop (timing a poll for a log line): an opaque, non-decreasing reading of some clock that is
            # NOT the clock of the segment's timestamps; no relation to the as-of reading is assumed
            prev = st.mem.get(('env', 'instant_last'))
            n = ex.fresh('instant_ns')
            ex.side.append(n >= (prev if prev is not None else 0))
            st.mem[('env', 'instant_last')] = n
            return Struct([n])

        def instant_elapsed(ex, st, callee, args, fn):
            t = ex.deref(st, args[0]) if isinstance(args[0], Ref) else args[0]
            now = instant_now(ex, st, callee, args, fn).f[0]
            ex.side.append(now >= t.f[0])
            return Struct([now - t.f[0]])
        return [(r'(^|::)Instant::now$', instant_now), (r'(^|::)Instant::elapsed$', instant_elapsed),
                (r'(^|::)clock_gettime_safe$', clock), (r'ChronyOperations>::get_tracking$', get_tracking), (r'ChronyOperations>::is_within_grace_period$', grace),
                (r'(^|::)get_phc_error_bound_from_path$', phc), (r'(^|::)DispatchBox(::<.*>)?::send$', send), (r'Receiver(::<.*>)?::recv_timeout$', recv)]

    def run(self):
        prog = self.prog
        ex = Exec(prog, env=self.env(), opaque_calls=[r'Arguments(::<.*>)?::from_str$', r'Arguments(::<.*>)?::new'])
        ex.const_hooks = time_consts()
        ex.side += [self.recv_msg >= 0, self.recv_msg < len(self.msg), self.recv_err >= 0, self.recv_err <= 1, self.t_stratum >= 0, self.t_stratum < 65536, self.t_leap >= 0, self.t_leap < 65536,
                    self.t_ref_ns >= 0]
        fn = prog.find1('run_clock_error_bound_poller', crate='clock_bound_d')
        ctx = Struct([Opaque('channel_id'), Opaque('mbox'), Opaque('dbox')])
        phc_info = Enum(z3.If(self.phc_cfg, z3.IntVal(1), z3.IntVal(0)), {'Some': Struct([Struct([self.cfg_refid, Opaque('sysfs_path')])]), 'None': UNIT})
        st = State()
        S = summarise(ex, fn, [ctx, Opaque('poller'), phc_info, Struct([z3.Int('sleep_ns')])], st)
        self.ex, self.fn, self.S = ex, fn, S
        return S


def msg_disc(v):
    if isinstance(v, Enum):
        return v.disc()
    raise EngineError('sent message is not a Message value')


def check_c13(tier, seed):
    ck = Check('C13', tier, seed)
    prog, mir_wall = load_dlib_program()
    return poller_table(ck, prog, mir_wall, tier, seed)


def poller_table(ck, prog, mir_wall, tier, seed, only_phc=False, only_kind=False):
    """the message table of one poller iteration (C13); with only_phc: just the clauses about the PHC term of the messages (C07);
    with only_kind: just the message-kind clause (C10: every report chronyd gives reaches the classifier, whatever its content)"""
    pm = PollerModel(prog)
    S = pm.run()
    M = pm.msg
    pr = Prover(seed)
    pr.add(pm.ex.side)
    dom = [pm.as_s >= 0, pm.as_s < 2 ** 40, pm.as_n >= 0, pm.as_n < NS, pm.t_refid >= 0, pm.t_refid < 2 ** 32, pm.cfg_refid >= 0, pm.cfg_refid < 2 ** 32,
           pm.phc_val >= -2 ** 63, pm.phc_val < 2 ** 63]
    pr.add(dom)
    # without an answer the age of the last good answer only grows while the query is pending: inside afterwards => inside before
    pr.add(z3.Implies(z3.Not(pm.tracking_some), z3.Implies(pm.grace, pm.grace_before)))
    if S.head is None:
        ck.inconclusive.append('the poller function has no loop')
        return ck.finish()
    alts = [(g, a) for g in S.iteration for a in g.alts]
    # expected message as a function of the environment's answers (README / source table)
    match = z3.And(pm.phc_cfg, pm.cfg_refid == pm.t_refid)
    exp = z3.If(z3.Not(pm.tracking_some), z3.If(pm.grace, M['ChronyNotRespondingGracePeriod'], M['ChronyNotResponding']),
                z3.If(z3.Not(match), M['ClockErrorBoundData'],
                      z3.If(pm.phc_ok, M['ClockErrorBoundData'], z3.If(pm.grace, M['PhcErrorBoundRetrievalFailedGracePeriod'], M['PhcErrorBoundRetrievalFailed']))))
    exp_phc = z3.If(match, pm.phc_val, z3.IntVal(0))
    n = 0
    shapes = set()
    rp = common.Replay('debug')
    stats = [0, 0]

    def expected_msg(some, grace, cfg, cfg_id, t_id, phc_ok, phc_val):
        if not some:
            return 'ChronyNotRespondingGracePeriod' if grace else 'ChronyNotResponding'
        if not (cfg and cfg_id == t_id):
            return 'ClockErrorBoundData:refid=%d:phc=0' % t_id
        if phc_ok:
            return 'ClockErrorBoundData:refid=%d:phc=%d' % (t_id, phc_val)
        return 'PhcErrorBoundRetrievalFailedGracePeriod' if grace else 'PhcErrorBoundRetrievalFailed'

    def confirm(m):
        stats[0] += 1
        if not mval(m, pm.clock_ok) or not mval(m, pm.send_ok):
            return None
        some, grace, cfg, phc_ok = [bool(mval(m, x)) for x in (pm.tracking_some, pm.grace, pm.phc_cfg, pm.phc_ok)]
        gb = bool(mval(m, pm.grace_before))
        cfg_id, t_id, phc_val = mval(m, pm.cfg_refid), mval(m, pm.t_refid), mval(m, pm.phc_val)
        strat = mval(m, pm.t_stratum)
        strat_arg = '' if strat in (None, 1) else ' - stratum=%d' % strat
        leap = mval(m, pm.t_leap)
        if leap not in (None, 0):
            strat_arg = (strat_arg or ' -') + ' leap=%d' % leap
        out = rp.ask('poller %d %s %d %d %d %s%s' % (some, '%d' % grace if gb == grace else ('10' if gb else '01'), cfg, cfg_id, t_id, ('ok:%d' % phc_val) if phc_ok else 'missing', strat_arg))
        if not out.startswith('ok'):
            return None
        f = dict(x.split('=', 1) for x in out.split()[1:] if '=' in x)
        want = expected_msg(some, grace, cfg, cfg_id, t_id, phc_ok, phc_val)
        got = f.get('msgs', '')
        if f.get('n') == '1' and got.startswith(want) and getattr(S, 'carried_struct', None) and some:
            # the loop keeps structured state from one poll to the next (a cache): two polls with the same report, the PHC file
            # holds another value at the first one; the second message must be the documented one for the second poll
            first = ('ok:%d' % (phc_val + 7919)) if phc_ok else 'ok:7919'
            out2 = rp.ask('poller %d %s %d %d %d %s second=%s' % (some, '%d' % grace if gb == grace else ('10' if gb else '01'), cfg, cfg_id, t_id, first, ('ok:%d' % phc_val) if phc_ok else 'missing'))
            f2 = dict(x.split('=', 1) for x in out2.split()[1:] if '=' in x) if out2.startswith('ok') else {}
            msgs2 = f2.get('msgs', '').split('|')
            if f2.get('n') == '2' and not msgs2[1].startswith(want):
                stats[1] += 1
                ck.violation('poller-message', 'two successive polls of the real poller loop with the same report (PHC configured=%s, configured ref id=%d, report ref id=%d); the PHC error-bound file held %s at the first poll and %s at the second: the second message is %s ; documented: %s'
                             % (cfg, cfg_id, t_id, first, ('%d' % phc_val) if phc_ok else 'nothing readable', msgs2[1], want), {'cmd': 'poller', 'native': out2})
                return 'message'
        if f.get('n') == '1' and got.startswith(want) and getattr(S, 'carried_struct', None):
            # cached state again: an answered poll, then a poll chronyd does not answer
            out3 = rp.ask('poller 1 %s %d %d %d %s second=silent' % ('%d' % grace if gb == grace else ('10' if gb else '01'), cfg, cfg_id, t_id, ('ok:%d' % phc_val) if phc_ok else 'missing'))
            f3 = dict(x.split('=', 1) for x in out3.split()[1:] if '=' in x) if out3.startswith('ok') else {}
            msgs3 = f3.get('msgs', '').split('|')
            want3 = expected_msg(False, grace, cfg, cfg_id, t_id, phc_ok, phc_val)
            if f3.get('n') == '2' and not msgs3[1].startswith(want3):
                stats[1] += 1
                ck.violation('poller-message', 'an answered poll followed by a poll chronyd does not answer (within grace=%s): the second message of the real poller loop is %s ; documented: %s' % (grace, msgs3[1], want3),
                             {'cmd': 'poller', 'native': out3})
                return 'message'
        if f.get('n') != '1' or not got.startswith(want):
            stats[1] += 1
            ck.violation('poller-message', 'one iteration of the real poller loop with (chronyd answered=%s, within grace=%s%s, PHC configured=%s, configured ref id=%d, report ref id=%d%s, PHC read ok=%s) sent %s message(s): %s ; documented: %s'
                         % (some, grace, '' if gb == grace else ' once the query has returned (%s before it)' % gb, cfg, cfg_id, t_id, strat_arg.replace(' - ', ', report ').replace('=', ' '), phc_ok, f.get('n'), got, want), {'cmd': 'poller', 'native': out})
            return 'message'
        return None
    for g, a in alts:
        n += 1
        evs = g.events
        kinds = [e.kind for e in evs]
        shapes.add(tuple(kinds))
        label = 'iteration path %d [%s]' % (n, ' '.join(k.replace('is_within_grace_period', 'grace?').replace('get_phc_error_bound_from_path', 'phc') for k in kinds))
        pc = a.guard
        if a.kind == 'return' and not evs:
            continue       # loop exit (keep_running false)
        sends = [e for e in evs if e.kind == 'send']
        clocks = [e for e in evs if e.kind == 'clock_gettime']
        # exactly one message per iteration whose clock read succeeded, none otherwise
        if only_kind:
            if sends:
                pr.prove_cegar(label + ': message kind is the documented one for (answer?, PHC configured?, ref ids equal?, PHC read ok?, within grace?)', pc, msg_disc(sends[0].args[1]) == exp, confirm, lambda m: [])
            continue
        pr.prove_cegar(label + ': one send iff the clock read succeeded', pc, z3.BoolVal(len(sends) == 1) == pm.clock_ok if len(sends) <= 1 else z3.BoolVal(False), confirm, lambda m: [])
        if len(clocks) != 1:
            pr.prove(label + ': exactly one monotonic clock read per iteration', pc, z3.BoolVal(False), need_reach=False)
        if not sends:
            continue
        ch, msg = sends[0].args
        d = msg_disc(msg)
        chd = ch.disc() if isinstance(ch, Enum) else None
        if not only_phc:
            pr.prove(label + ': message goes to the ShmWriter mailbox', pc, (chd == pm.chan['ShmWriter']) if chd is not None else z3.BoolVal(False))
            pr.prove_cegar(label + ': message kind is the documented one for (answer?, PHC configured?, ref ids equal?, PHC read ok?, within grace?)', pc, d == exp, confirm, lambda m: [])
        if 'ClockErrorBoundData' in msg.p:
            tup = msg.p['ClockErrorBoundData'].f[0]
            pr.prove_cegar(label + ': the PHC error bound is added exactly when the configured reference id matches the report\'s', z3.And(pc, d == M['ClockErrorBoundData']),
                           z3.And(tup.f[1] == exp_phc, tup.f[0].f[0] == pm.t_refid), confirm, lambda m: [])
            pr.prove_cegar(label + ': a report whose PHC error bound could not be read is never used as a measurement', z3.And(pc, match, z3.Not(pm.phc_ok)), d != M['ClockErrorBoundData'], confirm, lambda m: [], need_reach=False)
        # a failed send must not be swallowed (the daemon has to die so that its supervisor restarts it)
        if a.kind == 'stop' and not only_phc:
            pr.prove(label + ': the loop continues only after a successful send', pc, z3.Or(pm.send_ok, z3.Not(pm.clock_ok)), need_reach=False)
    # every combination of answers is handled by some path
    allg = z3.Or([a.guard for g, a in alts])
    keepv = [v for l, (v, ty) in S.carried.items() if ty == 'bool']
    if not only_phc and not only_kind:
        pr.prove('the iteration paths cover every combination of environment answers (no panic except on a broken channel)', z3.And(*( [keepv[0]] if keepv else [])), z3.Or(allg, z3.And(pm.clock_ok, z3.Not(pm.send_ok))), need_reach=False)
    rp.close()
    if only_kind:
        ck.absorb(pr, 'poller: ')
        ck.cov['poller_message_kind'] = {'iteration_paths': len(alts), 'counterexamples_replayed': stats[0], 'confirmed': stats[1]}
        return None
    if only_phc:
        ck.absorb(pr, 'poller: ')
        ck.cov['poller_phc_term'] = {'iteration_paths': len(alts), 'counterexamples_replayed': stats[0], 'confirmed': stats[1]}
        return None
    ck.cov['counterexamples_replayed'], ck.cov['counterexamples_confirmed'] = stats
    ck.cov['iteration_paths'] = len(alts); ck.cov['event_shapes'] = sorted(' '.join(s) for s in shapes)
    # ---- grace-period arithmetic over a symbolic monotone Instant clock
    grace_part(ck, prog, pr, seed)
    ck.absorb(pr)
    refid_part(ck, tier)
    fin(ck, pm, mir_wall)
    ck.cov['bounds'] = {'poller loop': 'one arbitrary iteration (the only loop-carried state is the keep-running flag: induction over iterations is immediate)',
                        'environment answers': 'all combinations of (clock read, chronyd answer, PHC configured, reference ids, PHC read, grace period, channel)',
                        'grace period': 'all instants (integer ns) of a non-decreasing monotonic clock that reads >= 5 s at daemon start',
                        'outside': 'ClockErrorBoundPoller::get_tracking\'s socket I/O (chrony_candm::blocking_query_uds is environment); the whole-process variant with a fake chronyd'}
    return ck.finish()


def refid_part(ck, tier):
    """the configured reference id (refid_to_u32, iterator/Vec/closure code): engine K, all strings of <= 5 ASCII bytes"""
    from .kani_run import run_kani
    h = 'refid_is_the_big_endian_packing_of_its_ascii_bytes'
    r = run_kani(h)
    ck.cov['kani'] = {h: {k: v for k, v in r.items() if k != 'out'}}
    ck.cov['queries'] += 1; ck.cov['evaluations'] += 1; ck.cov['obligations'] += 1
    ck.cov['solver_time_s'] = round(ck.cov['solver_time_s'] + r.get('solver_s', 0), 2)
    ck.cov['samples'].append({'obligation': 'Kani: refid_to_u32(s) is the big-endian packing of the bytes of s for every ASCII string of at most 4 bytes, an error for 5 bytes (unwind 6, %s CBMC checks)' % r.get('checks'),
                              'verdict': r['verdict'], 'solver_s': r.get('solver_s')})
    if r['verdict'] == 'successful':
        if r.get('covers') and r['covers'][0] < r['covers'][1]:
            ck.inconclusive.append('Kani harness %s: a cover property is unsatisfiable (vacuity)' % h)
        else:
            ck.cov['discharged'] += 1; ck.cov['distinct_nontrivial'] += 1
        return
    if r['verdict'] != 'failed':
        ck.inconclusive.append('Kani harness %s: %s %s' % (h, r['verdict'], r.get('out', '')[-300:]))
        return
    # counterexample: concrete playback -> native replay through the real function
    r2 = run_kani(h, playback=True)
    pb = r2.get('playback_bytes') or []
    rp = common.Replay('debug')
    tried = []
    cands = []
    if len(pb) >= 2 and len(pb[0]) == 8:
        ln = int.from_bytes(bytes(pb[0]), 'little')
        cands.append(bytes(pb[1][:min(ln, 5)]))
    # also the obvious representatives of the input classes (cheap, native)
    cands += [b'PHC0', b'phc0', b'Phc0', b'a', b'zz', b'GPS', b'gps', b'', b'abcde']
    for s_ in cands:
        if any(x >= 128 for x in s_):
            continue
        out = rp.ask('refid ' + s_.hex())
        want = 'ok value=%d' % int.from_bytes(s_, 'big') if len(s_) <= 4 else 'ok refused'
        tried.append((s_.decode('ascii', 'replace'), out))
        if out != want:
            rp.close()
            ck.violation('configured-refid', 'refid_to_u32(%r) returns "%s", the reference id chronyd uses for that name is %s: the PHC error bound would be added for the wrong reports' % (
                s_.decode('ascii', 'replace'), out, want), {'cmd': 'refid ' + s_.hex(), 'native': out, 'kani': r})
            return
    rp.close()
    ck.inconclusive.append('Kani harness %s failed (%s) but no native input reproduced: %s' % (h, r.get('failed_checks'), tried[:4]))


def grace_part(ck, prog, pr, seed):
    """ClockErrorBoundPoller::{default, is_within_grace_period, get_tracking} with Instant as integer ns"""
    t = [z3.Int('t_now_%d' % i) for i in range(4)]
    calls = [0]

    def now(ex, st, callee, args, fn):
        i = len([e for e in st.trace if e.kind == 'Instant::now'])
        if i >= len(t):
            raise EngineError('too many Instant::now() calls')
        st.trace = st.trace + (Event('Instant::now', (), t[i]),)
        return Struct([t[i]])

    def checked_sub(ex, st, callee, args, fn):
        a = ex.deref(st, args[0]) if isinstance(args[0], Ref) else args[0]
        d = args[1]
        r = a.f[0] - d.f[0]
        return Enum(z3.If(r >= 0, z3.IntVal(1), z3.IntVal(0)), {'Some': Struct([Struct([r])]), 'None': UNIT})

    def elapsed(ex, st, callee, args, fn):
        a = ex.deref(st, args[0]) if isinstance(args[0], Ref) else args[0]
        i = len([e for e in st.trace if e.kind == 'Instant::now'])
        st.trace = st.trace + (Event('Instant::now', (), t[i]),)
        r = t[i] - a.f[0]
        return Struct([z3.If(r >= 0, r, z3.IntVal(0))])       # Instant::elapsed saturates at zero

    def from_secs(ex, st, callee, args, fn):
        return Struct([args[0] * NS])

    def dur_cmp(ex, st, callee, args, fn):
        a = ex.deref(st, args[0]) if isinstance(args[0], Ref) else args[0]
        b = ex.deref(st, args[1]) if isinstance(args[1], Ref) else args[1]
        k = callee.rsplit('::', 1)[1]
        x, y = a.f[0], b.f[0]
        return {'gt': x > y, 'ge': x >= y, 'lt': x < y, 'le': x <= y}[k]
    def dur_get(ex, st, callee, args, fn):
        a = ex.deref(st, args[0]) if isinstance(args[0], Ref) else args[0]
        k = callee.rsplit('::', 1)[1]
        ns = a.f[0]
        return {'as_nanos': ns, 'as_micros': ns / 1000, 'as_millis': ns / 10 ** 6, 'as_secs': ns / NS, 'subsec_nanos': ns % NS}[k]
    reply_ok = z3.Bool('uds_reply_ok'); body = z3.Int('reply_body_kind')
    rb = prog.enums.get('ReplyBody')

    def query(ex, st, callee, args, fn):
        st.trace = st.trace + (Event('blocking_query_uds', (), None),)
        pl = {k: Struct([Opaque('body.' + k)]) for k in (rb or {})}
        pl['Tracking'] = Struct([Struct([z3.Int('wire_ref_id')] + [Opaque('t%d' % i) for i in range(1, 14)])])
        rep = Struct([Opaque('r0'), Opaque('r1'), Opaque('r2'), Enum(body, pl)])
        return Enum(z3.If(reply_ok, z3.IntVal(0), z3.IntVal(1)), {'Ok': Struct([rep]), 'Err': Struct([Opaque('io::Error')])})
    env = [(r'(^|::)Instant::now$', now), (r'(^|::)Instant::checked_sub$', checked_sub), (r'(^|::)Instant::elapsed$', elapsed), (r'(^|::)Duration::from_secs$', from_secs),
           (r'^<Duration as PartialOrd>::(gt|ge|lt|le)$', dur_cmp), (r'(^|::)blocking_query_uds$', query),
           (r'(^|::)Duration::(as_nanos|as_micros|as_millis|as_secs|subsec_nanos)$', dur_get)]
    ex = Exec(prog, env=env, opaque_calls=[r'^<ClientOptions as Default>::default$'])
    ex.const_hooks = time_consts()
    mono = [t[0] >= 0] + [t[i + 1] >= t[i] for i in range(len(t) - 1)]
    f_default = prog.find1('default', self_ty='ClockErrorBoundPoller')
    f_grace = prog.find1('is_within_grace_period', self_ty='ClockErrorBoundPoller')
    f_get = prog.find1('get_tracking', self_ty='ClockErrorBoundPoller')
    # (g1) right after default(): never within the grace period (uptime >= 5 s assumed; below that default() panics: observation O1)
    outs = ex.run(f_default, [], State())
    pr2 = Prover(seed)
    rpg = common.Replay('debug')

    def confirm_default(m):
        out = rpg.ask('grace -1 0')
        if out.startswith('ok') and 'within=true' in out:
            ck.violation('grace-after-start', 'a freshly created ClockErrorBoundPoller (no answer ever received) reports is_within_grace_period() = true: a silent chronyd right after daemon start yields a FreeRunning-class outcome',
                         {'cmd': 'grace -1', 'native': out})
            return 'grace-after-start'
        return None

    def confirm_elapsed(L_, t0_):
        def confirm(m):
            el = mval(m, t0_) - mval(m, L_)
            if el < 0 or abs(el - GRACE_NS) < 50_000_000:
                return None
            out = rpg.ask('grace %d 0' % el)
            within = 'within=true' in out
            if out.startswith('ok') and within != (el < GRACE_NS):
                ck.violation('grace-period', 'real ClockErrorBoundPoller::is_within_grace_period() %.3f s after the last good answer returns %s' % (el / 1e9, within), {'cmd': 'grace %d' % el, 'native': out})
                return 'grace-period'
            return None
        return confirm
    for o in outs:
        if o.kind != 'return':
            continue
        st = o.state; st.mem[(0, 'p')] = o.value
        outs2 = ex.run(f_grace, [Ref(0, 'p')], st)
        for o2 in outs2:
            pr2.add(ex.side)
            pr2.prove_cegar('right after daemon start (no answer ever received) the poller is outside the grace period at every later instant', z3.And(o2.state.pcond(), *mono, t[0] >= GRACE_NS), z3.Not(o2.value),
                            confirm_default, lambda m: [])
    # O1: default() panics when the monotonic clock reads less than 5 s
    o1 = [ob for ob in ex.obligations if 'unwrap' in ob.desc or 'None' in ob.desc]
    ck.cov['observation_O1'] = 'ClockErrorBoundPoller::default() panics (Option::unwrap on None) when Instant::now() is less than 5 s after the Instant epoch: %d such obligation(s); assumed away (uptime >= 5 s)' % len(o1)
    # (g2) with last_tracking_data = L: within <=> now - L < 5 s (exact, so +-1 ns is covered)
    L = z3.Int('last_tracking_ns')
    ex2 = Exec(prog, env=env); ex2.const_hooks = time_consts()
    st = State(); st.mem[(0, 'p')] = Struct([Struct([L])])
    for o2 in ex2.run(f_grace, [Ref(0, 'p')], st):
        pr2.add(ex2.side)
        pr2.prove_cegar('is_within_grace_period() <=> less than 5 s since the last good answer', z3.And(o2.state.pcond(), *mono, L >= 0, L <= t[0]), o2.value == (t[0] - L < GRACE_NS),
                        confirm_elapsed(L, t[0]), lambda m: [], hints=[[t[0] - L >= GRACE_NS + 10 ** 8, t[0] - L < 100 * NS], [t[0] - L <= GRACE_NS - 10 ** 8]])
    # (g3) get_tracking records the instant of a good answer, and only of a good answer
    ex3 = Exec(prog, env=env, opaque_calls=[r'^<ClientOptions as Default>::default$']); ex3.const_hooks = time_consts()
    st = State(); st.mem[(0, 'p')] = Struct([Struct([L])])
    trk = (rb or {}).get('Tracking')
    if trk is None:
        ck.inconclusive.append('ReplyBody enum of chrony-candm not found: the get_tracking clause is not checked')
    else:
        for o3 in ex3.run(f_get, [Ref(0, 'p')], st):
            pr2.add(ex3.side); pr2.add(body >= 0, body < len(rb))
            p_after = o3.state.mem[(0, 'p')].f[0].f[0]
            good = z3.And(reply_ok, body == trk)
            nows = [e for e in o3.state.trace if e.kind == 'Instant::now']
            pr2.prove('get_tracking: a tracking reply is returned and its instant recorded; anything else returns None and leaves the instant unchanged',
                      z3.And(o3.state.pcond(), *mono, L >= 0, L <= t[0]),
                      z3.If(good, z3.And(o3.value.disc() == 1, p_after == (nows[-1].ret if nows else L)), z3.And(o3.value.disc() == 0, p_after == L)))
    # natively, always: the REAL get_tracking against a stand-in chronyd that answers without tracking data (a Null body with an error
    # status, undecodable bytes) or with tracking data; a freshly started poller must stay outside the grace period unless it got
    # tracking data
    bad = []
    runs = {}
    for modes, want in (('null', (False, False)), ('garbage', (False, False)), ('tracking', (True, True)), ('none', (False, False))):
        out = rpg.ask('gettracking ' + modes)
        runs[modes] = out[:160]
        ck.cov['evaluations'] += 1
        f = dict(x.split('=', 1) for x in out.split()[1:] if '=' in x) if out.startswith('ok') else {}
        if 'call1_some' not in f or f.get('isolated') != 'true':
            continue
        got = (f['call1_some'] == 'true', f['call1_within_grace'] == 'true')
        if got != want:
            bad.append('a freshly started poller asks a chronyd that %s: the real get_tracking() returns %s and is_within_grace_period() is then %s (expected %s / %s)'
                       % ({'null': 'answers with a Null body and status BadPktVersion (no tracking data)', 'garbage': 'answers with undecodable bytes', 'tracking': 'answers with tracking data', 'none': 'is not there'}[modes],
                          'Some(tracking)' if got[0] else 'None', got[1], 'Some' if want[0] else 'None', want[1]))
    ck.cov['native_get_tracking'] = runs
    # natively, always: the PHC is chronyd's reference and its error-bound attribute OPENS but cannot be READ (a directory stands in for a
    # sysfs attribute whose driver fails the read): the report is not used as a measurement
    for gr, want_msg in (('0', 'PhcErrorBoundRetrievalFailed'), ('1', 'PhcErrorBoundRetrievalFailedGracePeriod')):
        out = rpg.ask('poller 1 %s 1 7 7 dir' % gr)
        ck.cov['evaluations'] += 1
        f = dict(x.split('=', 1) for x in out.split()[1:] if '=' in x) if out.startswith('ok') else {}
        runs['phc attribute unreadable, grace=' + gr] = out[:160]
        msgs_ = (f.get('msgs') or '').split('|')
        if out.startswith('ok') and f.get('n') == '1' and not msgs_[0] == want_msg and not bad:
            bad.append('the PHC is chronyd\'s reference (ids match) and its error-bound attribute opens but every read fails: the real poller loop sends %s, documented: %s (the report must not be used as a measurement)' % (msgs_[0], want_msg))
    # natively, always: during an outage the polls keep their period (the grace period is evaluated at a poll only: polls spaced out
    # during silence delay the Unknown-class outcome beyond the 5 s the property names)
    out = rpg.ask('pollertiming 40 640')
    ck.cov['evaluations'] += 1
    runs['polls during an outage (period 40 ms, 640 ms)'] = out[:160]
    f = dict(x.split('=', 1) for x in out.split()[1:] if '=' in x) if out.startswith('ok') else {}
    if f.get('messages') and int(f['messages']) < 8 and not bad:
        bad.append('chronyd silent, polling period 40 ms: in 640 ms the real poller loop reported %s outcomes (16 polls fit; at least 8 expected) - the polls are spaced out while chronyd is silent, so the end of the grace period is reported late' % f['messages'])
    if bad and 'spaced out' in bad[0]:
        ck.violation('outage-polls-spaced-out', bad[0], {'cmd': 'pollertiming 40 640', 'native': runs})
    elif bad and 'error-bound attribute' in bad[0]:
        ck.violation('phc-unreadable-used-as-measurement', bad[0], {'cmd': 'poller 1 0 1 7 7 dir', 'native': runs, 'all': bad})
    elif bad:
        ck.violation('grace-after-non-tracking-answer', bad[0] + ': an answer without tracking data counts as a good answer, the grace period (re)starts', {'cmd': 'gettracking', 'native': runs, 'all': bad})
        pr2.handled = getattr(pr2, 'handled', set()) | {n for n, m_ in pr2.failed if n.startswith('get_tracking:')}
    rpg.close()
    ck.absorb(pr2, 'grace: ')


def confirm_grace(ck, name, m, L, t):
    rp = common.Replay('debug')
    el = mval(m, t[0]) - mval(m, L)
    out = rp.ask('grace %d 0' % max(el, 0))
    rp.close()
    within = 'within=true' in out
    want = el < GRACE_NS
    if out.startswith('ok') and within != want and abs(el - GRACE_NS) > 2000000:
        ck.violation('grace-period', 'real ClockErrorBoundPoller::is_within_grace_period() %d ns after the last good answer returns %s' % (el, within), {'cmd': 'grace %d' % el, 'native': out})
    else:
        ck.inconclusive.append('grace-period clause failed in the encoding but did not reproduce natively (%s): %s' % (out, name[:80]))


def fin(ck, pm, mir_wall):
    ck.cov['functions_encoded'] = sorted({n.split('>::')[-1] if '>::' in n else n for n in pm.ex.inlined})
    ck.cov['mir_dump_s'] = round(mir_wall, 1)
    ck.cov['stubs'] = ['clock_gettime_safe, ChronyOperations::{get_tracking, is_within_grace_period}, get_phc_error_bound_from_path, DispatchBox::send, Receiver::recv_timeout: environment events with arbitrary results',
                       'Instant::{now, checked_sub, elapsed}, Duration: std, exact integer nanoseconds over a symbolic non-decreasing clock', 'blocking_query_uds: environment (arbitrary reply or error)', 'tracing: empty shim']
    ck.cov['rule'] = 'one obligation per (path of one loop iteration, clause)'
    ck.assumptions += ['the monotonic clock reads at least 5 s when the daemon starts (otherwise ClockErrorBoundPoller::default() panics: observation O1, not part of any listed property)']


# ------------------------------------------------------------------------------------------ C12
def poller_order_half(ck, prog, seed):
    """daemon half of C12 (also an interface fact of C01): the as-of reading precedes the query to chronyd"""
    pm = PollerModel(prog)
    rpo = common.Replay('debug')

    def confirm_order(m):
        """one iteration of the real poller loop under a virtual monotonic clock that advances by 1 s on every read"""
        some, grace, cfg, phc_ok = [bool(mval(m, x)) for x in (pm.tracking_some, pm.grace, pm.phc_cfg, pm.phc_ok)]
        cfg_id, t_id, phc_val = mval(m, pm.cfg_refid), mval(m, pm.t_refid), mval(m, pm.phc_val)
        return native_order(some, grace, cfg, phc_ok, cfg_id, t_id, phc_val)

    def native_order(some, grace, cfg, phc_ok, cfg_id, t_id, phc_val):
        out = rpo.ask('poller %d %d %d %d %d %s' % (some, grace, cfg, cfg_id, t_id, ('ok:%d' % phc_val) if phc_ok else 'missing'))
        f = dict(x.split('=', 1) for x in out.split()[1:] if '=' in x) if out.startswith('ok') else {}
        bad = []
        ids = [x for x in f.get('clock_ids', '').split(',') if x.strip()]
        rb0 = f.get('clock_reads_before_query', '0').split(',')[0]
        before = ids[:int(rb0)] if rb0.isdigit() else []
        if some and rb0 in ('', '0'):
            bad.append('chronyd was queried before the monotonic clock was read')
        elif f and '6' not in (before if rb0.isdigit() and int(rb0) > 0 else ids):
            # other clocks may be read as well (an Instant for a log line): what matters is that a reading of the clock the clients
            # compare as-of with exists before the request goes out
            bad.append('no reading of CLOCK_MONOTONIC_COARSE (id 6, the clock PROTOCOL.md names for the as-of timestamp) is taken before chronyd is queried: clock ids read before the query: %s; during the whole iteration: %s'
                       % (','.join(before) or 'none', ','.join(ids) or 'none'))
        ma = re.search(r'asof=(-?\d+)\.(-?\d+)(?::q=(\d+))?', f.get('msgs', '')) if 'ClockErrorBoundData' in f.get('msgs', '') else None
        if ma:
            a_s, a_n = int(ma.group(1)), int(ma.group(2))
            # the report answers query #q of the iteration (the stand-in chronyd numbers its replies); the clock returns 123.000000456 s
            # at its first read and 1 s more at each further read: the last reading before query #q is the latest admissible as-of
            q = int(ma.group(3)) if ma.group(3) else 1
            rbq = [int(x) for x in f.get('clock_reads_before_query', '').split(',') if x.strip().isdigit()]
            nread = rbq[q - 1] if 1 <= q <= len(rbq) else 1
            nread = max(1, len([x for x in ids[:nread] if x == '6'])) if nread >= 1 else nread      # the virtual clock advances at reads of id 6
            limit = 123 * NS + 456 + max(0, nread - 1) * NS
            if not (0 <= a_n < NS) or a_s * NS + a_n > limit or nread < 1:
                bad.append('the as-of instant of the message (%s) is later than the last clock reading taken before the query it answers (query #%d, issued after %d clock read(s): reading %d.%09d; the virtual clock advances 1 s per read), or malformed'
                           % (f.get('msgs'), q, nread, limit // NS, limit % NS))
        elif 'ClockErrorBoundData' in f.get('msgs', ''):
            bad.append('the message carries no as-of instant: %s' % f.get('msgs'))
        if bad:
            ck.violation('poller-read-order', 'real poller loop (chronyd answered=%s, PHC configured=%s, ids %d/%d, PHC read ok=%s): %s' % (some, cfg, cfg_id, t_id, phc_ok, '; '.join(bad)), {'cmd': 'poller', 'native': out})
            return bad[0]
        return None
    def confirm_stale_report(m):
        """an answered poll, then a poll chronyd does not answer: no report may be sent for the second one"""
        for gr in ('1', '0'):
            out = rpo.ask('poller 1 %s 0 0 7 missing second=silent' % gr)
            f = dict(x.split('=', 1) for x in out.split()[1:] if '=' in x) if out.startswith('ok') else {}
            msgs = f.get('msgs', '').split('|')
            if f.get('n') == '2' and msgs[1].startswith('ClockErrorBoundData'):
                ck.violation('poller-read-order', 'an answered poll followed by a poll chronyd does not answer (within grace=%s): the real poller loop sends %s for the second poll - a report obtained by the first poll\'s request, published under an as-of instant read after that request'
                             % (gr, msgs[1]), {'cmd': 'poller', 'native': out})
                return 'stale-report'
        return None
    try:
        S = pm.run()
    except EngineError:
        # the loop is not executable symbolically on this tree: the native judge still runs on the standing combinations of answers
        # (a violation it demonstrates is a violation; otherwise the check stays undecided)
        for comb in ((True, True, False, False, 0, 7, 0), (True, False, True, True, 7, 7, 5000), (False, True, False, False, 0, 0, 0)):
            if native_order(*comb):
                break
        rpo.close()
        raise
    pr = Prover(seed); pr.add(pm.ex.side)
    # what clock_gettime returns: a well-formed timespec
    pr.add(pm.as_s >= 0, pm.as_s < 2 ** 40, pm.as_n >= 0, pm.as_n < NS)
    M = pm.msg
    n = 0
    for g in S.iteration:
        for a in g.alts:
            n += 1
            kinds = [e.kind for e in g.events]
            label = 'poller path %d [%s]' % (n, ' '.join(kinds))
            if 'get_tracking' not in kinds:
                continue
            ok_order = 'clock_gettime' in kinds and kinds.index('clock_gettime') < kinds.index('get_tracking') and kinds.count('clock_gettime') == 1
            pr.prove_cegar(label + ': the monotonic clock is read once, before chronyd is queried', a.guard, z3.BoolVal(ok_order), confirm_order, lambda m: [])
            clk = [e for e in g.events if e.kind == 'clock_gettime']
            if clk:
                cid = clk[0].args[0]
                # a constant of another crate (libc::CLOCK_...) that the executor could not evaluate is still "not provably id 6": the native run decides
                cid = z3.simplify(cid) if z3.is_expr(cid) else (z3.IntVal(cid) if isinstance(cid, int) else z3.Int('clock_id_unresolved'))
                pr.prove_cegar(label + ': the clock read is CLOCK_MONOTONIC_COARSE (id 6), as PROTOCOL.md says', a.guard, z3.BoolVal(z3.is_int_value(cid) and cid.as_long() == 6), confirm_order, lambda m: [], need_reach=False)
            for e in g.events:
                if e.kind == 'send' and isinstance(e.args[1], Enum) and 'ClockErrorBoundData' in e.args[1].p:
                    tup = e.args[1].p['ClockErrorBoundData'].f[0]
                    ts = tup.f[2]
                    # "a reading taken before the request": not later than the value the clock returned before the query, and a
                    # well-formed timespec (an implementation that back-dates the reading stays on the pessimistic side)
                    pr.prove_cegar(label + ': the as-of instant attached to the report is not later than that earlier clock reading (and well formed)', z3.And(a.guard, e.args[1].disc() == M['ClockErrorBoundData']),
                                   z3.And(ts.f[0] * NS + ts.f[1] <= pm.as_s * NS + pm.as_n, ts.f[1] >= 0, ts.f[1] < NS), confirm_order, lambda m: [])
                    # the report that travels with this as-of is the one chronyd gave in answer to THIS poll's query (a remembered report
                    # from an earlier poll would be published under an as-of read after the request that produced it)
                    rep = tup.f[0]
                    same_report = z3.And(pm.tracking_some, rep.f[0] == pm.t_refid) if isinstance(rep, Struct) and isinstance(rep.f[0], z3.ExprRef) else z3.BoolVal(False)
                    pr.prove_cegar(label + ': the report sent with that as-of is the answer to this poll\'s query', z3.And(a.guard, e.args[1].disc() == M['ClockErrorBoundData']), same_report, confirm_stale_report, lambda m: [])
    rpo.close()
    ck.absorb(pr, 'daemon: ')
    return pm


def check_c12(tier, seed):
    ck = Check('C12', tier, seed)
    prog, mir_wall = load_dlib_program()
    try:
        pm = poller_order_half(ck, prog, seed)
    except EngineError as e:
        if not ck.violations:
            raise
        # not executable symbolically, but the standing native run on the real loop showed the violation
        ck.inconclusive.append('poller loop not executable symbolically: %s' % e)
        ck.cov['evaluations'] = ck.cov.get('evaluations', 0) + 1
        return ck.finish()
    client_order_half(ck, seed)
    # the as-of instant stays attached to ITS report all the way into the published record: bound and as_of of every record are those of
    # the same (latest synchronised) report - an as_of refreshed from a later, discarded answer would un-age the frozen bound
    if not ck.violations:
        try:
            from . import daemon_updater
            sub = daemon_updater.run_check('C08', tier, seed, owner='C12', only_clauses=['bound and as_of are those of the latest synchronised report'])
            for key, desc, path in sub.violations:
                ck.violations.append(('record:' + key, 'as-of and bound of a published record belong to different reports: ' + desc, path))
            ck.inconclusive += ['record pairing: ' + i for i in sub.inconclusive]
            for k_ in ('obligations', 'discharged', 'queries', 'evaluations', 'distinct_nontrivial'):
                ck.cov[k_] = ck.cov.get(k_, 0) + sub.cov.get(k_, 0)
        except EngineError as e:
            ck.inconclusive.append('record pairing (updater): %s' % e)
    fin(ck, pm, mir_wall)
    ck.cov['bounds'] = {'poller': 'all paths of one loop iteration', 'client': 'all return paths of ClockErrorBound::now() over the C05 domain', 'delays': 'the order is structural: it holds for every delay between the steps'}
    return ck.finish()


def client_order_half(ck, seed):
    """client half of C12 (also an interface fact of C01), stated on what the answer is computed from rather than on the order of the
    system calls: on every path of ClockErrorBound::now() that returns an interval, the interval is centred on one of the
    CLOCK_REALTIME readings of that path (index k), and every monotonic reading the answer depends on was taken AFTER that reading -
    or is, by the path condition, interchangeable with one that was (a tick detector that compares an earlier sample with a later one
    and found them equal).  Then any delay between the steps can only age the record further."""
    from .client_now import load_shm_program, NowModel, ts_ns
    prog2, w2 = load_shm_program()
    nm = NowModel(prog2, by_clock_id=False)
    outs = nm.run()
    pr2 = Prover(seed); pr2.add(nm.domain()); pr2.add(nm.ex.side)
    base = list(nm.domain()) + list(nm.ex.side)

    def valid(pc, claim):
        sv = z3.Solver(); sv.set('timeout', 60000); sv.add(base); sv.add(pc, z3.Not(claim))
        return sv.check() == z3.unsat

    def vars_of(e, acc):
        seen = set(); stack = [e]
        while stack:
            x = stack.pop()
            if x.get_id() in seen:
                continue
            seen.add(x.get_id())
            if z3.is_const(x) and x.decl().kind() == z3.Z3_OP_UNINTERPRETED:
                acc.add(str(x))
            stack.extend(x.children())
        return acc
    for i, o in enumerate(outs):
        rv = o.value
        if not ('Ok' in rv.p and 'Err' not in rv.p):
            continue
        evs = [e for e in o.state.trace if e.kind == 'clock_gettime']
        ids = []
        for e in evs:
            x = z3.simplify(e.args[0])
            ids.append(x.as_long() if z3.is_int_value(x) else None)
        pc = o.state.pcond()
        tup = rv.p['Ok'].f[0]
        e_ns, e = ts_ns(tup.f[0]); l_ns, l = ts_ns(tup.f[1])
        stt = tup.f[2].disc() if hasattr(tup.f[2], 'disc') else z3.IntVal(0)
        outs_terms = [e_ns, l_ns, stt]
        rd = lambda j: nm.readings[j].f[0] * NS + nm.readings[j].f[1]
        k = None
        for j, cid in enumerate(ids):
            if cid == 0 and valid(pc, e_ns + l_ns == 2 * rd(j)):
                k = j; break
        name = 'client path %d (clock reads %s): ' % (i, ','.join(str(x) for x in ids))
        if k is None:
            pr2.prove(name + 'the interval is centred on a CLOCK_REALTIME reading of the call', pc, z3.BoolVal(False))
            continue
        pr2.prove(name + 'the interval is centred on its CLOCK_REALTIME reading #%d' % k, pc, e_ns + l_ns == 2 * rd(k))
        used = set()
        for t in outs_terms:
            vars_of(t, used)
        dep = [j for j, cid in enumerate(ids) if cid != 0 and (str(nm.readings[j].f[0]) in used or str(nm.readings[j].f[1]) in used)]
        ok = True; how = []
        for d in dep:
            if d > k:
                continue
            found = None
            for u in range(k + 1, len(ids)):
                if ids[u] != 0 and ids[u] == ids[d]:
                    sub = [(nm.readings[d].f[0], nm.readings[u].f[0]), (nm.readings[d].f[1], nm.readings[u].f[1])]
                    same = z3.And([t == z3.substitute(t, *sub) for t in outs_terms])
                    if valid(pc, same):
                        found = u; break
            if found is None:
                ok = False; how.append('reading #%d (taken before the realtime reading #%d) decides the answer' % (d, k))
            else:
                how.append('#%d == #%d on this path' % (d, found))
        pr2.prove(name + 'every monotonic reading the answer depends on (%s) was taken after the realtime reading #%d, or equals one that was %s' % (dep, k, how),
                  pc, z3.BoolVal(ok))
    ck.absorb(pr2, 'client: ')
    ck.cov['client_paths'] = len(outs)
    # native: a virtual clock in which every read takes time (2 ms, 30 s, 7 s, 0): whatever the order of the reads, the interval must be
    # centred on one of the realtime readings and at least as wide as the record aged up to THAT instant requires
    rp = common.Replay('debug')
    found = False
    as_of, bound, drift, real0, mono0 = 0, 10000, 1000, 100 * NS, 2 * NS
    for adv in (2_000_000, 30 * NS, 7 * NS, 0):
        cmd = 'now 0 0 1000 0 %d %d 1 100 0 2 0 %d' % (bound, drift, adv)
        out = rp.ask(cmd)
        ck.cov['evaluations'] += 1
        reads = out.split('reads=')[-1] if 'reads=' in out else ''
        rl = reads.split(',')
        if not out.startswith('ok'):
            continue
        t = out.split()
        e_ns = int(t[1]) * NS + int(t[2]); l_ns = int(t[3]) * NS + int(t[4])
        centre2 = e_ns + l_ns
        ks = [j for j, c in enumerate(rl) if c == '0' and 2 * (real0 + j * adv) == centre2]
        if not ks:
            ck.violation('client-read-order', 'with %d ns passing at every clock read, ClockErrorBound::now() (reads %s) returns an interval centred on %d ns, which is none of its realtime readings'
                         % (adv, reads, centre2 // 2), {'cmd': cmd, 'native': out})
            found = True; break
        kk = ks[0]
        need = bound + (drift * (mono0 + kk * adv - as_of)) // NS
        hw = (l_ns - e_ns) // 2
        if hw < need - 1:
            ck.violation('client-read-order', 'with %d ns passing at every clock read, ClockErrorBound::now() (reads %s) centres the interval on its realtime reading #%d but ages the record only up to a monotonic reading taken before it: half-width %d ns < %d ns (bound + drift up to the instant of that realtime reading); the delay shrinks the interval instead of widening it'
                         % (adv, reads, kk, hw, need), {'cmd': cmd, 'native': out})
            found = True; break
    # the calls clients make (ClockBoundClient::now, clockbound_now): the record is obtained BEFORE the clocks are read.  The daemon
    # publishes a new record at the first clock read of a call: the answer must be the one computed from the record held before.
    if not found:
        out = rp.ask('abi3')
        ck.cov['evaluations'] += 1
        f = dict(x.split('=', 1) for x in out.split()[1:] if '=' in x) if out.startswith('ok') else {}
        want = 'now_ok:1699999999.999994000:1700000000.6000:1'
        for who in ('rust', 'c'):
            if f.get(who) and f[who].startswith('now_ok') and f[who] != want:
                ck.violation('client-read-order', 'the daemon publishes a record (bound 5 s, as_of 0.5 s later) at the first clock read of one %s call: the call returns %s - the interval of the NEW record around a realtime reading taken before that record existed (it read the clock before it took its snapshot); expected the answer from the record held before the clock reads: %s'
                             % ('ClockBoundClient::now()' if who == 'rust' else 'clockbound_now()', f[who][7:], want[7:]), {'cmd': 'abi3', 'native': out})
                found = True; break
        ck.cov['native_publication_at_first_clock_read'] = out[:200]
    rp.close()
    if pr2.failed and not found:
        ck.inconclusive.append('client-side clause failed in the encoding but the native runs (advancing virtual clock) are centred on a realtime reading and wide enough')
