"""C08 and C09: the daemon's ShmUpdater (process_clock_update / process_missing_clock_update /
write_clock_error_bound) and the status FSM (through its vtable), executed symbolically from the daemon's MIR.

`extract_bound_from_tracking` is environment here (C07/C10 decide it): it returns an arbitrary bound and an
arbitrary class, so the updater's bookkeeping is checked for every outcome of it.  `ShmWrite::write` is the
observation point: the record handed to it after every step."""
import os
import time

import z3

from mirsym.exec import Exec, State, Event
from mirsym.values import Struct, Enum, Ref, Opaque, Dyn, IteDyn, UNIT, EngineError, ite
from . import common
from .common import Prover, Check, mval
from .daemon_extract import load_dlib_program, time_env, time_consts, f64_hex, TRACKING_FIELDS

CLS = {0: 'Unknown', 1: 'Synchronized', 2: 'FreeRunning'}
NS = 10 ** 9
REF_BASE = 10 ** 18        # reference times of the reports: REF_BASE - age, age in [0, 10 ms] (always fresh; the class is the oracle's)


class UpdaterModel:
    def __init__(self, prog, ref_span_ns=10 ** 7):
        self.prog = prog
        self.n = 0
        self.ref_span_ns = ref_span_ns
        # std::time inside the updater (should it look at the report's reference time itself): exact integer ns, "now" = REF_BASE (the
        # instant the native replay's virtual realtime clock shows)
        self.ex = Exec(prog, env=[(r'(^|::)extract_bound_from_tracking$', self.h_extract), (r'^<W as ShmWrite>::write$', self.h_publish),
                                  (r'^<W as ShmWrite>::(?!write$)\w+$', self.h_writer_other)] + time_env(z3.IntVal(REF_BASE)))
        self.writer_queries = []
        self.ex.const_hooks = time_consts()
        names = prog.struct_fields.get('ShmUpdater') or []
        want = ['writer', 'max_drift_ppb', 'shm_clock_state', 'bound_nsec', 'as_of', 'reserved1']
        if any(w not in names for w in want):
            raise EngineError('ShmUpdater fields changed: %r' % (names,))
        self.idx = {n: names.index(n) for n in names}
        self.extra = [n for n in names if n not in want]
        if prog.struct_fields.get('Tracking') != TRACKING_FIELDS:
            raise EngineError('chrony_candm::reply::Tracking has unexpected fields')
        self.cur = None
        self.f_new = prog.find1('new', self_ty='ShmUpdater')
        self.f_update = prog.find1('process_clock_update', self_ty='ShmUpdater')
        self.f_missing = prog.find1('process_missing_clock_update', self_ty='ShmUpdater')
        self.extracts = []
        self.dom_vars = []
        self.asof_vars = []

    def new_report(self):
        """a new chrony report: its (bound, class) as extract_bound_from_tracking would compute them - a function of the
        report, fixed before the code runs, whether or not the code asks for it - and its reference time"""
        self.n += 1
        b = z3.Int('ext_bound_%d' % self.n); c = z3.Int('ext_class_%d' % self.n); ref = z3.Int('ref_ns_%d' % self.n)
        self.ex.side.append(z3.And(c >= 0, c <= 2, b >= -2 ** 63, b < 2 ** 63, ref >= REF_BASE - self.ref_span_ns, ref <= REF_BASE))
        self.dom_vars.append(b)
        self.cur = (b, c, ref)
        f = {n: Opaque('tracking.' + n) for n in TRACKING_FIELDS}
        f['ref_time'] = Struct([ref])
        # the leap status of the report, should the updater look at it itself: any value consistent with the class (a class-1 report
        # has leap <= 2; leap > 3 is class 0; leap 3 is never class 1)
        # its other float fields (skew, frequency, offsets ...): arbitrary reals, should the updater look at them itself
        from mirsym.values import FLin as _FLin
        self.last_floats = {}
        for fld in ('current_correction', 'last_offset', 'rms_offset', 'freq_ppm', 'resid_freq_ppm', 'skew_ppm', 'root_delay', 'root_dispersion', 'last_update_interval'):
            if fld in f:
                v_ = z3.Real('trk%d_%s' % (self.n, fld))
                self.ex.side.append(z3.And(v_ >= -2 ** 20, v_ <= 2 ** 20))
                f[fld] = _FLin(v_)
                self.last_floats[fld] = v_
        leap = z3.Int('ext_leap_%d' % self.n)
        self.ex.side.append(z3.And(leap >= 0, leap < 65536, z3.Implies(c == 1, leap <= 2), z3.Implies(leap > 3, c == 0), z3.Implies(leap == 3, c != 1)))
        f['leap_status'] = leap
        self.last_leap = leap
        return Struct([f[n] for n in TRACKING_FIELDS]), (b, c), ref

    def h_extract(self, ex, st, callee, args, fn):
        b, c, ref = self.cur
        st.trace = st.trace + (Event('extract', (args[0],), (b, c)),)
        return Struct([b, Enum(c, {})])

    def h_writer_other(self, ex, st, callee, args, fn):
        # any other method of the ShmWrite trait: the writer is the environment (the real ShmWriter sits on a segment a previous daemon
        # may have left in any state), so the call returns an arbitrary value of its declared type
        from mirsym.seqlock import symbolic_of_type
        name = callee.strip().rsplit('::', 1)[-1]
        impls = [f for f in self.prog.find(name, self_ty='ShmWriter')] or [f for lst in self.prog.fns.values() for f in lst if f.name.endswith('::' + name) and 'ShmWrite' in f.name]
        ret = impls[0].ret if impls else None
        v = symbolic_of_type(ex, ret, 'writer_%s_%d' % (name, len(self.writer_queries))) if ret else None
        if v is None:
            raise EngineError('ShmWrite::%s: return type %r not modelled' % (name, ret))
        self.writer_queries.append(name)
        st.trace = st.trace + (Event('writer_query', (name,), v),)
        return v

    def h_publish(self, ex, st, callee, args, fn):
        rec = ex.deref(st, args[1])
        st.trace = st.trace + (Event('publish', (), rec),)
        return UNIT

    def fresh_updater(self, drift):
        outs = self.ex.run(self.f_new, [Opaque('writer'), drift], State())
        if len(outs) != 1:
            raise EngineError('ShmUpdater::new has %d paths' % len(outs))
        return outs[0].value

    def fresh_updaters(self, drift):
        """every returning path of ShmUpdater::new (it may ask its writer about the segment): [(state carrying the path condition, updater)]"""
        outs = [o for o in self.ex.run(self.f_new, [Opaque('writer'), drift], State()) if o.kind == 'return']
        if not outs:
            raise EngineError('ShmUpdater::new has no returning path')
        res = []
        for o in outs:
            st = State(); st.pc = list(o.state.pc); st.trace = tuple(e for e in o.state.trace if e.kind == 'writer_query')
            res.append((st, o.value))
        return res

    def arbitrary_updater(self, drift, tag=''):
        """an updater in an arbitrary state: any bound, any as_of, FSM in any of its three states.
        Built from the real constructor's value with the three fields replaced (the FSM states are obtained by running
        the real transition function from the default state)."""
        u = self.fresh_updater(drift)
        fsm0 = u.f[self.idx['shm_clock_state']]
        states = {}
        tr = self.prog
        for k in (0, 1, 2):
            st = State(); st.mem[(0, 'f')] = fsm0
            outs = self.ex.call('<dyn FSMState as FSMState>::apply_chrony', [fsm0, Enum(k, {})], st, 0, self.f_new)
            if len(outs) != 1:
                raise EngineError('apply_chrony from the default state: %d outcomes' % len(outs))
            states[k] = outs[0][1]
        sel = z3.Int('fsm_state' + tag)
        self.ex.side.append(z3.And(sel >= 0, sel <= 2))
        fsm = ite(sel == 0, states[0], ite(sel == 1, states[1], states[2]))
        bound = z3.Int('st_bound' + tag); as_s, as_n = z3.Int('st_asof_s' + tag), z3.Int('st_asof_n' + tag)
        f = list(u.f); f[self.idx['shm_clock_state']] = fsm; f[self.idx['bound_nsec']] = bound; f[self.idx['as_of']] = Struct([as_s, as_n])
        # any further private state of the updater (fields this check does not know) is arbitrary too
        for n in self.extra:
            v0 = u.f[self.idx[n]]
            if isinstance(v0, z3.ExprRef) and z3.is_bool(v0):
                f[self.idx[n]] = z3.Bool('st_%s%s' % (n, tag))
            elif isinstance(v0, z3.ExprRef) and z3.is_int(v0):
                f[self.idx[n]] = z3.Int('st_%s%s' % (n, tag))
        return Struct(f), dict(sel=sel, bound=bound, as_s=as_s, as_n=as_n)

    def step_report(self, st, phc, asof, tracking=None):
        """process_clock_update on the updater stored at (0,'u'); returns outcomes"""
        if tracking is None:
            tracking, _, _ = self.new_report()
        return self.ex.run(self.f_update, [Ref(0, 'u'), tracking, phc, asof], st)

    def step_missing(self, st, grace):
        return self.ex.run(self.f_missing, [Ref(0, 'u'), grace], st)


def rec_fields(rec):
    """(as_of_s, as_of_n, void_s, void_n, bound, drift, reserved, status)"""
    return rec.f[0].f[0], rec.f[0].f[1], rec.f[1].f[0], rec.f[1].f[1], rec.f[2], rec.f[3], rec.f[4], rec.f[5].disc()


def run_history(um, H, drift):
    """symbolic history of H steps from a fresh updater. Each step is chosen by a symbolic kind:
    0 = report, 1 = missing within grace, 2 = missing beyond grace.  returns list of step descriptions"""
    states = []                  # (state, list of per-step dicts)
    for st, u0 in um.fresh_updaters(drift):
        st.mem[(0, 'u')] = u0
        states.append((st, []))
    steps = []
    for i in range(H):
        nxt = []
        for st, hist in states:
            for kind in (0, 1, 2):
                s2 = st.fork()
                if kind == 0:
                    phc = z3.Int('phc_%d' % i); as_s, as_n = z3.Int('asof_s_%d' % i), z3.Int('asof_n_%d' % i)
                    um.dom_vars.append(phc); um.asof_vars += [as_s, as_n]
                    trk, ext, ref = um.new_report()
                    outs = um.step_report(s2, phc, Struct([as_s, as_n]), trk)
                    info = dict(kind=0, phc=phc, as_s=as_s, as_n=as_n, ext=ext, ref=ref, leap=getattr(um, 'last_leap', None), floats=dict(getattr(um, 'last_floats', {})))
                else:
                    outs = um.step_missing(s2, z3.BoolVal(kind == 1))
                    info = dict(kind=kind)
                for o in outs:
                    if o.kind != 'return':
                        continue
                    pubs = [e for e in o.state.trace if e.kind == 'publish']
                    exts = [e for e in o.state.trace if e.kind == 'extract']
                    d = dict(info); d['npub'] = len(pubs); d['rec'] = pubs[-1].ret if pubs else None
                    if kind == 0:
                        d['classified'] = len(exts)
                    nxt.append((o.state, hist + [d]))
        states = nxt
    return states


def spec_after(hist, drift):
    """reference model: what the record published after the last step of `hist` must be.
    returns (bound, as_s, as_n, status, seen_sync, domain constraints)"""
    bound, as_s, as_n = z3.IntVal(0), z3.IntVal(0), z3.IntVal(0)
    seen = z3.BoolVal(False)
    cls = z3.IntVal(0)
    for d in hist:
        if d['kind'] == 0:
            b, c = d['ext']
            is_sync = c == 1
            bound = z3.If(is_sync, b + d['phc'], bound)
            as_s = z3.If(is_sync, d['as_s'], as_s); as_n = z3.If(is_sync, d['as_n'], as_n)
            seen = z3.Or(seen, is_sync)
            cls = c
        elif d['kind'] == 1:
            cls = z3.IntVal(2)
        else:
            cls = z3.IntVal(0)
    return bound, as_s, as_n, cls, seen


def hist_domain(hist, phc_any_sign=False):
    dom = []
    for d in hist:
        if d['kind'] == 0:
            b, c = d['ext']
            dom += [b >= 0, b < 2 ** 61, d['phc'] >= (-2 ** 61 if phc_any_sign else 0), d['phc'] < 2 ** 61, d['as_s'] >= 0, d['as_s'] < 2 ** 40, d['as_n'] >= 0, d['as_n'] < 10 ** 9]
    return dom


def native_history(rp, m, hist, drift_val, stale_variant=False, prefix=(), cmd='history'):
    """replay a concrete history on the real ShmUpdater; extract's outcome classes are realised by real trackings:
    class 1: leap 0 fresh; class 2: leap 3; class 0: leap 7; the extracted bound is realised through root_dispersion."""
    toks = [str(drift_val)]
    expect = []
    for d in hist:
        if d['kind'] == 0:
            b = mval(m, d['ext'][0]); c = mval(m, d['ext'][1])
            leap = {1: 0, 2: 3, 0: 7}[c]
            # a dispersion that yields exactly b ns is not always representable: use whole milliseconds and move the rest into the PHC term
            ms = min(b // 10 ** 6, 10 ** 6)
            disp = ms / 1000.0
            age = REF_BASE - (mval(m, d['ref']) if mval(m, d['ref']) is not None else REF_BASE - 10 ** 6)
            ml = mval(m, d['leap']) if d.get('leap') is not None else None
            if c == 2 and ((ml is not None and ml <= 2) or (stale_variant and ml is None)):
                # the other way a report is FreeRunning-class: leap status "synchronised" with a reference time older than 8 update intervals
                leap = ml if ml is not None else 0; age = 10 ** 12
            elif c == 1 and ml is not None and ml <= 2:
                leap = ml
            elif c == 0 and ml is not None and ml > 3:
                leap = ml
            elif c == 0 and ml is not None and ml <= 3:
                # Unknown-class with a valid leap status: a reference time in the future
                leap = ml; age = -10 ** 9
            if stale_variant and c == 2:
                leap = 0 if leap == 3 else leap; age = 10 ** 12
            phc = max(-2 ** 40, min(mval(m, d['phc']) or 0, 2 ** 40))
            tok = 'R,%s,%s,%s,%s,%d,%d,%d,%d,%d' % (f64_hex(0.0), f64_hex(0.0), f64_hex(disp), f64_hex(4096.0 if (c == 1 and age > 100 * NS) else 16.0), leap, age, phc, mval(m, d['as_s']), mval(m, d['as_n']))
            fl = d.get('floats') or {}
            if cmd == 'history' and ('skew_ppm' in fl or 'last_offset' in fl):
                sk = mval(m, fl['skew_ppm']) if 'skew_ppm' in fl else 0
                lo_ = mval(m, fl['last_offset']) if 'last_offset' in fl else 0
                tok += ',%s,%s' % (f64_hex(float(sk or 0)), f64_hex(float(lo_ or 0)))
            toks.append(tok)
            expect.append(('R', c, ms, phc, b, mval(m, d['as_s']), mval(m, d['as_n'])))
        elif d['kind'] == 1:
            toks.append('G'); expect.append(('G',))
        else:
            toks.append('N'); expect.append(('N',))
    out = rp.ask(cmd + ' ' + ' '.join(toks[:1] + list(prefix) + toks[1:]))
    return out, expect


def oracle_history(out, expect, drift, prop):
    """exact evaluation of C08/C09 on the records the real updater published for a replayed history.
    The bound of a synchronised report is whatever the real extract returned plus the PHC term handed in, taken from the record
    itself when it first appears (C07 decides its value); afterwards it must stay frozen until the next synchronised report."""
    if not out.startswith('ok'):
        return ['native run: ' + out]
    recs = [tuple(int(x) for x in r.split(':')) for r in out.split()[1:]]
    bad = []
    if len(recs) != len(expect):
        bad.append('C08: %d steps produced %d publications' % (len(expect), len(recs)))
        return bad
    seen = False
    cur = None       # (as_s, as_n, bound)
    cur_bound_prev = None
    for i, (e, r) in enumerate(zip(expect, recs)):
        as_s, as_n, vs, vn, bound, dr, status = r
        if e[0] == 'R':
            cls = e[1]
            if cls == 1:
                seen = True
                # the as-of instant of a synchronised report is the one that was handed in; the bound is whatever the real extract returned (C07's subject)
                cur = (e[5], e[6], bound)
                if prop == 'C08' and cur_bound_prev is not None and e[2] != cur_bound_prev[0] and bound == cur_bound_prev[1]:
                    bad.append('C08: step %d (R): a synchronised report with a different dispersion left the published bound unchanged (%d)' % (i + 1, bound))
                cur_bound_prev = (e[2], bound)
        elif e[0] == 'G':
            cls = 2
        else:
            cls = 0
        exp_status = cls if seen else 0
        if prop == 'C09' and not seen and status != 0:
            bad.append('C09: step %d (%s) before any synchronised report publishes status %s with bound %d, as_of (%d,%d)' % (i + 1, e[0], CLS.get(status, status), bound, as_s, as_n))
        if prop == 'C09' and seen and status != 0 and cur is not None and (as_s, as_n) != cur[:2]:
            bad.append('C09: step %d (%s) publishes status %s with as_of (%d,%d), bound %d: not the as-of of the synchronised report (%d,%d) - the status is advertised next to a placeholder, the measurement was not taken over' % (i + 1, e[0], CLS.get(status, status), as_s, as_n, bound, cur[0], cur[1]))
        if prop == 'C08':
            if seen and status != exp_status:
                bad.append('C08: step %d (%s): status %s, expected %s' % (i + 1, e[0], CLS.get(status, status), CLS[exp_status]))
            if cur is not None and (as_s, as_n, bound) != cur:
                bad.append('C08: step %d (%s): record (as_of, bound) = (%d,%d,%d) but the last synchronised report was (%d,%d,%d)' % ((i + 1, e[0], as_s, as_n, bound) + cur))
            if cur is None and (as_s, as_n, bound) != (0, 0, 0):
                bad.append('C08: step %d: bound/as_of changed without a synchronised report' % (i + 1))
            if (vs, vn) != (as_s + 1000, 0):
                bad.append('C08: step %d: void_after (%d,%d) is not as_of.tv_sec + 1000 s' % (i + 1, vs, vn))
            if dr != drift:
                bad.append('C08: step %d: drift %d published, configured %d' % (i + 1, dr, drift))
    return bad


def report_status_part(ck, prog, seed, tier):
    """C10, second half: the class extract_bound_from_tracking assigns to a report is the status of the record published after
    that report - from a fresh daemon and after every short history (each FSM state, each value of private updater state a
    history can produce).  Histories of length <= H ending in a report."""
    um = UpdaterModel(prog)
    drift = z3.Int('drift')
    H = 3 if tier == 'quick' else 4
    pr = Prover(seed)
    rp = common.Replay('debug')
    stats = [0, 0]
    nside = 0
    nh = 0

    def confirm_for(hist):
        def confirm(m):
            stats[0] += 1
            dv = mval(m, drift)
            out, expect = native_history(rp, m, hist, dv)
            bad = [b for b in oracle_history(out, expect, dv, 'C08') if b.startswith('C08') and ': status ' in b]
            if bad:
                stats[1] += 1
                ck.violation('status-after-report', '%s  [history %s, real ShmUpdater]' % ('; '.join(bad[:2]).replace('C08: ', ''), ' '.join(e[0] + (CLS[e[1]][0] if e[0] == 'R' else '') for e in expect)),
                             {'cmd': 'history', 'native': out, 'steps': [str(e) for e in expect]})
                return bad[0]
            return None
        return confirm
    for h in range(1, H + 1):
        hists = run_history(um, h, drift)
        pr.add(um.ex.side[nside:]); nside = len(um.ex.side)
        for st, hist in hists:
            last = hist[-1]
            if last['kind'] != 0 or last['rec'] is None:
                continue
            nh += 1
            label = 'history[%s]' % ''.join('RGN'[d['kind']] for d in hist)
            pcd = z3.And(st.pcond(), *(hist_domain(hist) + [drift >= 0, drift < 2 ** 32]))
            stt = rec_fields(last['rec'])[7]
            sb, ss, sn, cls, seen = spec_after(hist, drift)
            pr.prove_cegar(label + '/the status published after the report is the class of that report (Unknown until a first synchronised report)', pcd,
                           stt == z3.If(seen, cls, z3.IntVal(0)), confirm_for(hist), lambda m: [])
    rp.close()
    ck.absorb(pr, 'updater: ')
    ck.cov['report_status_histories'] = nh
    ck.cov['counterexamples_replayed'] = ck.cov.get('counterexamples_replayed', 0) + stats[0]
    ck.cov['counterexamples_confirmed'] = ck.cov.get('counterexamples_confirmed', 0) + stats[1]
    return H


def drift_published_part(ck, prog, seed, tier):
    """C19, last link: every record the updater publishes - after every history of <= H outcomes from a fresh daemon, whatever the
    kind of the outcome - carries the configured max_drift_ppb (any u32) and a zero reserved word"""
    um = UpdaterModel(prog)
    drift = z3.Int('drift')
    H = 3 if tier == 'quick' else 4
    pr = Prover(seed)
    rp = common.Replay('debug')
    stats = [0, 0]
    nside = 0
    nh = 0

    def confirm_for(hist):
        def confirm(m):
            stats[0] += 1
            dv = mval(m, drift)
            for variant in (False, True):
                out, expect = native_history(rp, m, hist, dv, stale_variant=variant)
                if not out.startswith('ok'):
                    continue
                recs = [tuple(int(x) for x in r.split(':')) for r in out.split()[1:]]
                for i, r in enumerate(recs):
                    if r[5] != dv:
                        stats[1] += 1
                        ck.violation('drift-in-record', 'step %d of the history [%s]%s: the real ShmUpdater (configured with %d ppb) published a record with max_drift_ppb = %d (status %s)'
                                     % (i + 1, ' '.join(e[0] + (CLS[e[1]][0] if e[0] == 'R' else '') for e in expect), ' (the FreeRunning-class report has a synchronised leap status and a stale reference time)' if variant else '',
                                        dv, r[5], CLS.get(r[6], r[6])), {'cmd': 'history', 'native': out, 'steps': [str(e) for e in expect]})
                        return 'drift'
            return None
        return confirm
    for h in range(1, H + 1):
        hists = run_history(um, h, drift)
        pr.add(um.ex.side[nside:]); nside = len(um.ex.side)
        for st, hist in hists:
            last = hist[-1]
            if last['rec'] is None:
                continue
            nh += 1
            label = 'history[%s]' % ''.join('RGN'[d['kind']] for d in hist)
            pcd = z3.And(st.pcond(), *(hist_domain(hist) + [drift >= 0, drift < 2 ** 32]))
            f = rec_fields(last['rec'])
            pr.prove_cegar(label + '/the record published last carries the configured max_drift_ppb and reserved = 0', pcd, z3.And(f[5] == drift, f[6] == 0), confirm_for(hist), lambda m: [],
                           hints=[[drift == 1000], [drift == 4294967000]])
    rp.close()
    ck.absorb(pr, 'updater: ')
    ck.cov['drift_in_record_histories'] = nh
    ck.cov['counterexamples_replayed'] = ck.cov.get('counterexamples_replayed', 0) + stats[0]
    ck.cov['counterexamples_confirmed'] = ck.cov.get('counterexamples_confirmed', 0) + stats[1]
    return H


def void_after_part(ck, prog, seed, tier):
    """C06's premise about the daemon: every record it publishes is void no earlier than 5 s after its as-of (the client tests the 5 s
    restart grace period before it tests void_after).  All histories of <= H outcomes through the real updater, reports with reference
    times up to 2000 s old."""
    um = UpdaterModel(prog, ref_span_ns=2000 * NS)
    drift = z3.Int('drift')
    H = 2 if tier == 'quick' else 3
    pr = Prover(seed)
    rp = common.Replay('debug')
    nside = 0
    nh = 0

    def confirm_for(hist):
        def confirm(m):
            dv = mval(m, drift)
            out, expect = native_history(rp, m, hist, dv)
            if not out.startswith('ok'):
                return None
            recs = [tuple(int(x) for x in r.split(':')) for r in out.split()[1:]]
            for i, r in enumerate(recs):
                a_ns = r[0] * NS + r[1]; v_ns = r[2] * NS + r[3]
                if v_ns < a_ns + 5 * NS:
                    ck.violation('void-after-within-the-grace-period', 'step %d of the history [%s] (a report whose reference time is %s s old): the real ShmUpdater publishes as_of %d.%09d with void_after %d.%09d, less than 5 s later - a client reading it inside the 5 s grace period reports the stored status although the record is already void'
                                 % (i + 1, ' '.join(e[0] + (CLS[e[1]][0] if e[0] == 'R' else '') for e in expect), [((REF_BASE - mval(m, d['ref'])) // NS) for d in hist if d['kind'] == 0], r[0], r[1], r[2], r[3]),
                                 {'cmd': 'history', 'native': out, 'steps': [str(e) for e in expect]})
                    return 'void_after'
            return None
        return confirm
    for h in range(1, H + 1):
        hists = run_history(um, h, drift)
        pr.add(um.ex.side[nside:]); nside = len(um.ex.side)
        for st, hist in hists:
            last = hist[-1]
            if last['rec'] is None:
                continue
            nh += 1
            label = 'history[%s]' % ''.join('RGN'[d['kind']] for d in hist)
            pcd = z3.And(st.pcond(), *(hist_domain(hist) + [drift >= 0, drift < 2 ** 32]))
            f = rec_fields(last['rec'])
            refs = [d['ref'] for d in hist if d['kind'] == 0]
            pr.prove_cegar(label + '/the record published last is void no earlier than 5 s after its as-of', pcd, (f[2] - f[0]) * NS + (f[3] - f[1]) >= 5 * NS, confirm_for(hist), lambda m: [],
                           hints=[[z3.And([r_ == REF_BASE - 997 * NS for r_ in refs])] if refs else [], [z3.And([r_ <= REF_BASE - 1000 * NS for r_ in refs])] if refs else []])
    rp.close()
    ck.absorb(pr, 'daemon: ')
    ck.cov['void_after_histories'] = nh
    return H


def first_report_composed(ck, prog, seed):
    """C09 with the real classifier in the loop: a fresh updater processes its first report through the REAL
    extract_bound_from_tracking; a status other than Unknown is published only if the report is synchronised and fresh by the
    documented rules (the C10 reading: leap 0..2, reference time not in the future and not older than max(0, 8 x interval))."""
    from .daemon_extract import TrackingModel, native_extract, NS
    from fractions import Fraction
    tm = TrackingModel(prog, tag='_fr')
    pubs_seen = []

    def h_publish(ex, st, callee, args, fn):
        rec = ex.deref(st, args[1])
        st.trace = st.trace + (Event('publish', (), rec),)
        return UNIT
    ex = Exec(prog, env=time_env(tm.now_ns) + [(r'^<W as ShmWrite>::write$', h_publish)])
    ex.const_hooks = time_consts()
    f_new = prog.find1('new', self_ty='ShmUpdater'); f_update = prog.find1('process_clock_update', self_ty='ShmUpdater')
    drift = z3.Int('drift_fr')
    outs0 = ex.run(f_new, [Opaque('writer'), drift], State())
    if len(outs0) != 1:
        raise EngineError('ShmUpdater::new has %d paths' % len(outs0))
    st = State(); st.mem[(0, 'u')] = outs0[0].value
    phc = z3.Int('phc_fr'); as_s, as_n = z3.Int('asof_s_fr'), z3.Int('asof_n_fr')
    outs = [o for o in ex.run(f_update, [Ref(0, 'u'), tm.value, phc, Struct([as_s, as_n])], st) if o.kind == 'return']
    pr = Prover(seed); pr.add(ex.side); pr.add(tm.domain(neg_iv=True))
    pr.add(drift >= 0, drift < 2 ** 32, phc >= 0, phc < 2 ** 40, as_s >= 0, as_s < 2 ** 40, as_n >= 0, as_n < NS)
    age = tm.now_ns - tm.ref_ns
    thr = z3.If(tm.iv < 0, z3.RealVal(0), 8 * tm.iv)
    truly = z3.And(tm.leap <= 2, tm.now_ns >= tm.ref_ns, z3.ToReal(age) <= thr * NS + 1)
    rp = common.Replay('debug')
    stats = [0, 0]

    def confirm(m):
        stats[0] += 1
        iv = mval(m, tm.iv); leap = mval(m, tm.leap); a = mval(m, tm.now_ns) - mval(m, tm.ref_ns)
        if abs(iv) > 2 ** 31 or a > 2 ** 45 or a < -10 ** 12:
            return None
        nat = native_extract(rp, 0.0, 0.0, 0.0, iv, leap, a)
        if 'status' not in nat:
            return None
        out = rp.ask('history 1000 R,%s,%s,%s,%s,%d,%d,0,7,7' % (f64_hex(0.0), f64_hex(0.0), f64_hex(0.0), f64_hex(float(iv)), leap, a))
        if not out.startswith('ok') or len(out.split()) < 2:
            return None
        status = int(out.split()[1].split(':')[-1])
        fresh = leap <= 2 and nat['age_ns'] >= 0 and Fraction(nat['age_ns']) <= max(0, 8 * nat['iv']) * NS + 1
        if status != 0 and not fresh:
            stats[1] += 1
            ck.violation('status-before-first-measurement', 'a fresh daemon whose first report has leap=%d, update interval=%s s and a reference time %.9f s old publishes status %s: that report is not synchronised by the documented rules, no measurement exists yet'
                         % (leap, float(nat['iv']), nat['age_ns'] / 1e9, CLS.get(status, status)), {'cmd': 'history', 'native': out})
            return 'first-report'
        return None
    k1, k2 = z3.Int('hint_fr1'), z3.Int('hint_fr2')
    hints = [[tm.iv * 16 == z3.ToReal(k1), tm.iv <= 4096, tm.iv >= -4096, age == k2 * 1000000, k2 >= 0, k2 < 10 ** 9]]
    for i, o in enumerate(outs):
        pubs = [e for e in o.state.trace if e.kind == 'publish']
        if not pubs:
            continue
        stt = rec_fields(pubs[-1].ret)[7]
        pr.prove_cegar('first report through the real classifier, path %d: a status other than Unknown only for a report that is synchronised and fresh' % i, o.state.pcond(),
                       z3.Implies(stt != 0, truly), confirm, lambda m: [], hints=hints)
    rp.close()
    ck.absorb(pr, 'composed: ')
    ck.cov['first_report_composed'] = {'paths': len(outs), 'counterexamples_replayed': stats[0], 'confirmed': stats[1]}


def message_loop_part(ck, prog, seed):
    """C08 through the writer thread's message loop: every outcome message the loop takes from its mailbox is handed to the updater -
    one call per message, in order, with that message's own data (nothing dropped, merged or reordered), whatever else is queued."""
    from .thread_exit import Models, loop_summary, ctx_value
    M = Models(prog)
    ex, fn, S = loop_summary(M, 'process_messages', [ctx_value(M, 'ShmWriter'), Opaque('updater')])
    pr = Prover(seed); pr.add(ex.side)
    K_update = {M.msg['ClockErrorBoundData']: 'process_clock_update'}
    K_missing = {M.msg[k]: 'process_missing_clock_update' for k in ('ChronyNotRespondingGracePeriod', 'PhcErrorBoundRetrievalFailedGracePeriod', 'ChronyNotResponding', 'PhcErrorBoundRetrievalFailed') if k in M.msg}
    handled = dict(K_update); handled.update(K_missing)
    failed = []
    n = 0
    for g in S.iteration:
        rc = [e for e in g.events if e.kind in ('recv', 'recv_timeout', 'try_recv')]
        up = [e for e in g.events if e.kind == 'updater']
        for a in g.alts:
            if a.kind not in ('stop', 'return') or not rc:
                continue
            n += 1
            cnt = z3.Sum([z3.If(z3.And(e.ret[0], z3.Or([e.ret[1] == k for k in handled])), 1, 0) for e in rc])
            label = 'message loop path %d [%s]' % (n, ' '.join(e.kind for e in g.events))
            res = pr.prove(label + ': one updater call per outcome message received (%d receive(s), %d call(s))' % (len(rc), len(up)), a.guard, cnt == len(up), need_reach=False)
            if isinstance(res, tuple):
                failed.append(label)
            # the call matches the message kind (first received handled message -> first call, ...)
            if len(rc) == 1 and len(up) == 1:
                ok_, kind_, _e = rc[0].ret
                want = z3.Or([z3.And(kind_ == k, z3.BoolVal(up[0].args[0] == nm)) for k, nm in handled.items()])
                res = pr.prove(label + ': the updater entry point is the one for the message kind', z3.And(a.guard, ok_, z3.Or([kind_ == k for k in handled])), want, need_reach=False)
                if isinstance(res, tuple):
                    failed.append(label)
    if getattr(S, 'carried_struct', None):
        failed.append('the loop keeps structured state from one turn to the next (%s)' % sorted(S.carried_struct))
    ck.cov['message_loop'] = {'paths': n, 'suspicious': failed[:4]}
    # native: the same outcome sequence through the real loop and through direct updater calls must publish the same records
    if failed:
        rp = common.Replay('debug')
        R = lambda leap, disp, a_s: 'R,%s,%s,%s,%s,%d,%d,%d,%d,%d' % (f64_hex(0.0), f64_hex(0.0), f64_hex(disp), f64_hex(16.0), leap, 10 ** 6, 0, a_s, 5)
        seqs = [[R(0, 0.001, 10), R(3, 0.002, 11)], [R(0, 0.001, 10), R(0, 0.002, 11), R(3, 0.003, 12)], [R(0, 0.001, 10), 'G', R(3, 0.002, 12)], [R(3, 0.001, 10), R(0, 0.002, 11)],
                [R(0, 0.001, 10), 'N', R(0, 0.002, 12), R(7, 0.003, 13)], ['G', R(0, 0.001, 10), R(0, 0.002, 11)],
                # every kind of outcome message (PG / PN: the PHC error bound could not be read, within / beyond the grace period)
                [R(0, 0.001, 10), 'PN'], [R(0, 0.001, 10), 'PG', 'PG', 'PN', 'PN'], ['PN', R(0, 0.001, 10), 'PG'], [R(0, 0.001, 10), 'G', 'N', 'PG', 'PN', R(0, 0.002, 15)]]
        hit = False
        for sq in seqs:
            a_ = rp.ask('history 1000 ' + ' '.join({'PG': 'G', 'PN': 'N'}.get(x, x) for x in sq)); b_ = rp.ask('msgloop 1000 ' + ' '.join(sq))
            if a_.startswith('ok') and b_ != a_:
                ck.violation('publication-count', 'the outcome sequence %s queued in the writer thread\'s mailbox: the real message loop published %s ; one record per outcome, each from its own message, is %s'
                             % (' '.join((x[0] + x.split(',')[5]) if x[0] == 'R' else x for x in sq), b_[3:200], a_[3:200]), {'cmd': 'msgloop 1000 ' + ' '.join(sq), 'native': b_, 'history': a_})
                hit = True; break
        rp.close()
        if not hit:
            ck.inconclusive.append('the message loop is not of the one-message-one-call shape (%s) and the native sequences agree with direct updater calls' % failed[0][:120])
        pr.handled = {n_ for n_, m_ in pr.failed}
    ck.absorb(pr, 'loop: ')


def run_check(prop, tier, seed, owner=None, only_clauses=None):
    """owner / only_clauses: run (some of) the clauses of `prop` as part of another property's check; the Check is returned unfinished"""
    ck = Check(owner or prop, tier, seed)
    t0 = time.time()
    prog, mir_wall = load_dlib_program()
    um = UpdaterModel(prog)
    drift = z3.Int('drift')
    # thorough: histories of up to 5 outcomes (3 + 9 + ... + 243 shapes).  Depth 6 (729 more shapes, 30-45 min) decides as well on a quiet
    # machine (VERIF_HISTORY_DEPTH=6), but one of its queries ran into the solver's time limit on a loaded one: it is not the registered bound
    H = 4 if tier == 'quick' else max(4, min(7, int(os.environ.get('VERIF_HISTORY_DEPTH', '5') or 5)))
    pr = Prover(seed)
    rp = common.Replay('debug'); rp2 = common.Replay('release')
    stats = [0, 0]
    drift_dom = [drift >= 0, drift < 2 ** 32]

    def confirm_for(hist, clause):
        def confirm(m):
            stats[0] += 1
            dv = mval(m, drift)
            for prof, p in (('dev', rp), ('release', rp2)):
                out, expect = native_history(p, m, hist, dv)
                bad = [b for b in oracle_history(out, expect, dv, prop) if b.startswith(prop)]
                if bad:
                    stats[1] += 1
                    key = 'status-before-first-measurement' if prop == 'C09' else clause
                    ck.violation(key, '%s  [history %s, real ShmUpdater (%s)]' % ('; '.join(bad[:2]), ' '.join(e[0] + (CLS[e[1]][0] if e[0] == 'R' else '') for e in expect), prof),
                                 {'cmd': 'history', 'native': out, 'steps': [str(e) for e in expect]})
                    return bad[0]
            if um.writer_queries and prop == 'C09':
                # the updater asks its writer about the segment: replay the history as the SECOND life of a daemon whose first life
                # only ever published the placeholder (real ShmWriter on a real file, record read back from the file after every step)
                for first_life in (['N'], ['G', 'N']):
                    out, expect = native_history(rp, m, hist, dv, prefix=first_life + ['X'], cmd='historyseg')
                    if not out.startswith('ok') or '|' not in out.split():
                        continue
                    toks = out.split()[1:]
                    second = toks[toks.index('|') + 1:]
                    bad = [b for b in oracle_history('ok ' + ' '.join(second), expect, dv, prop) if b.startswith(prop)]
                    if bad:
                        stats[1] += 1
                        ck.violation('status-before-first-measurement', '%s  [a daemon that never saw a synchronised report published %s and stopped; restarted on the same segment, history %s, real ShmUpdater over the real ShmWriter]'
                                     % ('; '.join(bad[:2]), ' '.join(first_life), ' '.join(e[0] + (CLS[e[1]][0] if e[0] == 'R' else '') for e in expect)),
                                     {'cmd': 'historyseg', 'native': out, 'steps': [str(e) for e in expect]})
                        return bad[0]
            return None
        return confirm
    # ---- histories from a fresh daemon
    nhist = 0
    nside = 0
    for h in range(1, H + 1):
        hists = run_history(um, h, drift)
        pr.add(um.ex.side[nside:]); nside = len(um.ex.side)
        for st, hist in hists:
            nhist += 1
            pc = st.pcond()
            last = hist[-1]
            label = 'history[%s]' % ''.join('RGN'[d['kind']] for d in hist)
            # C09: the PHC term comes verbatim from a sysfs file (an i64): negative values included
            dom = z3.And(hist_domain(hist, phc_any_sign=(prop == 'C09')) + drift_dom)
            pcd = z3.And(pc, dom)
            if prop == 'C08' and only_clauses is None:
                pr.prove_cegar(label + '/exactly one publication per outcome', pcd, z3.BoolVal(last['npub'] == h), confirm_for(hist, 'publication-count'), lambda m: [], need_reach=False)
            if last['rec'] is None:
                continue
            a_s, a_n, v_s, v_n, b, dr, rsv, stt = rec_fields(last['rec'])
            sb, ss, sn, cls, seen = spec_after(hist, drift)
            if prop == 'C08':
                clauses = {
                    'bound and as_of are those of the latest synchronised report': z3.And(b == sb, a_s == ss, a_n == sn),
                    'void_after = as_of.tv_sec + 1000 s, whole second': z3.And(v_s == a_s + 1000, v_n == 0),
                    'configured drift rate published': dr == drift,
                    'once synchronised, status follows the latest outcome': z3.Implies(seen, stt == cls),
                }
            else:
                clauses = {'no status other than Unknown before the first synchronised report': z3.Implies(z3.Not(seen), stt == 0),
                           # ... and a status other than Unknown always travels with the as-of instant of a synchronised report (not
                           # with the placeholder): a first synchronised report whose measurement the updater discards must not count
                           'a status other than Unknown is published with the as-of of the latest synchronised report': z3.Implies(stt != 0, z3.And(seen, a_s == ss, a_n == sn))}
            for name, cl in clauses.items():
                if only_clauses is not None and not any(name.startswith(x) for x in only_clauses):
                    continue
                pr.prove_cegar(label + '/' + name, pcd, cl, confirm_for(hist, name[:30]), lambda m: [])
    pr.add(um.ex.side[nside:]); nside = len(um.ex.side)
    ck.cov['histories'] = nhist
    if owner:
        ck.absorb(pr)
        rp.close(); rp2.close()
        return ck
    if prop == 'C08':
        # no overflow / panic inside the updater for bounds and PHC terms below 2^61
        gdom = [z3.And(v >= 0, v < 2 ** 61) for v in um.dom_vars] + [z3.And(v >= 0, v < 2 ** 40) for v in um.asof_vars] + drift_dom
        k = 0
        for ob in um.ex.obligations:
            k += 1
            if k > 400:
                break
            pr.prove('no panic[%d]: %s in %s' % (k, ob.desc, ob.fn.split('>::')[-1][:30]), z3.And(ob.pc, *gdom), z3.BoolVal(False), need_reach=False)
    # ---- one inductive step from an arbitrary updater state (C08 a-d for histories of any length)
    if prop == 'C08':
        um2 = UpdaterModel(prog)
        u, sv = um2.arbitrary_updater(drift)
        pr2 = Prover(seed)
        n2 = [0]
        for kind in (0, 1, 2):
            st = State(); st.mem[(0, 'u')] = u
            if kind == 0:
                phc = z3.Int('i_phc'); as_s, as_n = z3.Int('i_asof_s'), z3.Int('i_asof_n')
                trk2, ext2, ref2 = um2.new_report()
                outs = um2.step_report(st, phc, Struct([as_s, as_n]), trk2)
            else:
                outs = um2.step_missing(st, z3.BoolVal(kind == 1))
            for o in outs:
                pubs = [e for e in o.state.trace if e.kind == 'publish']
                pc = o.state.pcond()
                label = 'inductive step %s' % 'RGN'[kind]
                dom = [sv['bound'] >= 0, sv['bound'] < 2 ** 62, sv['as_s'] >= 0, sv['as_s'] < 2 ** 40, sv['as_n'] >= 0, sv['as_n'] < 10 ** 9] + drift_dom
                if kind == 0:
                    eb, ec = ext2
                    dom += [eb >= 0, eb < 2 ** 61, phc >= 0, phc < 2 ** 61, as_s >= 0, as_s < 2 ** 40, as_n >= 0, as_n < 10 ** 9]
                    cls = ec
                    nb = z3.If(ec == 1, eb + phc, sv['bound']); ns_ = z3.If(ec == 1, as_s, sv['as_s']); nn = z3.If(ec == 1, as_n, sv['as_n'])
                else:
                    cls = z3.IntVal(2 if kind == 1 else 0)
                    nb, ns_, nn = sv['bound'], sv['as_s'], sv['as_n']
                pr2.add(um2.ex.side[n2[0]:]); n2[0] = len(um2.ex.side)
                pcd = z3.And(pc, *dom)
                pr2.prove(label + '/exactly one publication', pcd, z3.BoolVal(len(pubs) == 1), need_reach=False)
                if not pubs:
                    continue
                a_s, a_n, v_s, v_n, b, dr, rsv, stt = rec_fields(pubs[-1].ret)
                pr2.prove(label + '/record = (frozen or advanced measurement, as_of+1000 s, drift); status is the class of the latest outcome or Unknown', pcd,
                          z3.And(b == nb, a_s == ns_, a_n == nn, v_s == a_s + 1000, v_n == 0, dr == drift, z3.Or(stt == cls, stt == 0)))
                if kind == 0:
                    pr2.prove(label + '/a synchronised report is published as Synchronized', z3.And(pcd, cls == 1), stt == 1)
                # the stored state after the step is the model's state (so the step can be iterated)
                u2 = o.state.mem[(0, 'u')]
                ix = um2.idx
                pr2.prove(label + '/updater state after the step = reference model state', pcd,
                          z3.And(u2.f[ix['bound_nsec']] == nb, u2.f[ix['as_of']].f[0] == ns_, u2.f[ix['as_of']].f[1] == nn, u2.f[ix['max_drift_ppb']] == drift))
        if pr2.failed:
            for name, mm in pr2.failed:
                ck.inconclusive.append('inductive step failed in the encoding without a native witness: ' + name[:100])
        ck.absorb(pr2, '')
    # overflow / panic obligations of the updater code in the stated domain
    ck.absorb(pr)
    rp.close(); rp2.close()
    if prop == 'C08':
        try:
            message_loop_part(ck, prog, seed)
        except EngineError as e:
            # the loop is outside the encodable fragment: the native comparison still runs
            ck.inconclusive.append('message loop of the writer thread: %s' % e)
            rp_ = common.Replay('debug')
            R_ = lambda leap, disp, a_s: 'R,%s,%s,%s,%s,%d,%d,%d,%d,%d' % (f64_hex(0.0), f64_hex(0.0), f64_hex(disp), f64_hex(16.0), leap, 10 ** 6, 0, a_s, 5)
            for sq in ([R_(0, 0.001, 10), R_(3, 0.002, 11)], [R_(0, 0.001, 10), R_(0, 0.002, 11), R_(3, 0.003, 12)], [R_(0, 0.001, 10), 'G', R_(3, 0.002, 12)]):
                a_ = rp_.ask('history 1000 ' + ' '.join(sq)); b_ = rp_.ask('msgloop 1000 ' + ' '.join(sq))
                if a_.startswith('ok') and b_ != a_:
                    ck.violation('publication-count', 'outcomes queued in the writer thread\'s mailbox: the real message loop published %s ; one record per outcome is %s' % (b_[3:200], a_[3:200]),
                                 {'cmd': 'msgloop 1000 ' + ' '.join(sq), 'native': b_, 'history': a_})
                    break
            rp_.close()
    if prop == 'C08' and not ck.violations:
        # clause (d) rests on the class of each report: the real classifier (extract_bound_from_tracking) assigns the documented class to
        # every report - the clauses of C10, discharged here on the same tree and reported under C08
        try:
            from .daemon_extract import check_c10
            sub = check_c10(tier, seed, owner='C08')
            for key, desc, path in sub.violations:
                ck.violations.append(('classifier:' + key, 'the class of a report (on which the published status rests): ' + desc, path))
            ck.inconclusive += ['classifier: ' + i for i in sub.inconclusive]
            for k_ in ('obligations', 'discharged', 'queries', 'evaluations', 'distinct_nontrivial'):
                ck.cov[k_] = ck.cov.get(k_, 0) + sub.cov.get(k_, 0)
        except EngineError as e:
            ck.inconclusive.append('classifier (extract_bound_from_tracking): %s' % e)
    if prop == 'C09':
        try:
            first_report_composed(ck, prog, seed)
        except EngineError as e:
            ck.inconclusive.append('first report through the real classifier: %s' % e)
        # the segment a daemon starts on is not its own: ShmWriter::new keeps a valid record a previous daemon left (C04), which may be a
        # Synchronized one.  From the first non-synchronised poll outcome of the restarted daemon on, the record in the file says Unknown.
        if not ck.violations:
            rtok = 'R,%s,%s,%s,%s,0,%d,0,5000,0' % (f64_hex(0.0), f64_hex(0.0), f64_hex(0.001), f64_hex(16.0), 10 ** 6)
            runs = []
            rp3 = common.Replay('debug')
            for second in (['N'], ['G'], ['N', 'N', 'G'], ['G', 'N']):
                out = rp3.ask('historyseg 1000 ' + ' '.join([rtok, 'X'] + second))
                runs.append({'second_life': second, 'native': out[:300]})
                if not out.startswith('ok') or '|' not in out.split():
                    ck.inconclusive.append('restart over a previous daemon\'s Synchronized record: native run: %s' % out[:200])
                    break
                toks = out.split()[1:]
                recs = toks[toks.index('|') + 1:]
                badi = [(i, r) for i, r in enumerate(recs) if r.count(':') == 6 and int(r.split(':')[6]) != 0]
                if len(recs) != len(second) or badi:
                    stats[1] += 1
                    i, r = badi[0] if badi else (0, ' '.join(recs))
                    ck.violation('status-before-first-measurement', 'a daemon published a Synchronized record and stopped; the daemon restarted on the same segment got %s as its %s poll outcome and the record clients read afterwards is %s (as_of:void_after:bound:drift:..:status) - status %s although this daemon has no measurement  [real ShmUpdater over the real ShmWriter on a real file]'
                                 % ({'N': 'no answer (beyond grace)', 'G': 'no answer (within grace)'}[second[i]], ['first', 'second', 'third'][i], r, CLS.get(int(r.split(':')[6]), '?') if r.count(':') == 6 else '?'),
                                 {'cmd': 'historyseg', 'native': out, 'steps': [rtok, 'X'] + second})
                    break
            rp3.close()
            ck.cov['restart_over_synchronized_record'] = runs
            ck.cov['evaluations'] = ck.cov.get('evaluations', 0) + len(runs)
        # what clients SEE: the records the daemon publishes before a first measurement are stored with status Unknown (above); the
        # client's evaluation of a record stored as Unknown is Unknown at every instant (any as_of / void_after, in particular the
        # placeholder as_of = 0, void_after = 1000 s evaluated at an uptime below 1000 s)
        if not ck.violations:
            try:
                from . import client_now
                sub = client_now.run_check('C06', tier, seed, owner='C09', restrict=lambda v: v['st'] == 0)
                for key, desc, path in sub.violations:
                    ck.violations.append(('client:' + key, 'a record the daemon stored with status Unknown, evaluated by the client: ' + desc, path))
                ck.inconclusive += ['client evaluation of Unknown records: ' + i for i in sub.inconclusive]
                for k_ in ('obligations', 'discharged', 'queries', 'evaluations', 'distinct_nontrivial'):
                    ck.cov[k_] = ck.cov.get(k_, 0) + sub.cov.get(k_, 0)
                ck.cov['solver_time_s'] = round(ck.cov.get('solver_time_s', 0) + sub.cov.get('solver_time_s', 0), 2)
                ck.cov['client_part'] = 'ClockErrorBound::now() on every record stored with status Unknown: the answer is Unknown (clauses of C06 restricted to stored status 0; native replay)'
            except EngineError as e:
                ck.inconclusive.append('client evaluation of Unknown records: %s' % e)
    ck.cov['functions_encoded'] = sorted({n.split('>::')[-1] if '>::' in n else n for n in um.ex.inlined})
    ck.cov['mir_dump_s'] = round(mir_wall, 1)
    ck.cov['counterexamples_replayed'], ck.cov['counterexamples_confirmed'] = stats
    ck.cov['stubs'] = ['extract_bound_from_tracking: environment here (arbitrary bound >= 0 and arbitrary class; C07 and C10 decide the function itself)',
                       '<W as ShmWrite>::write: observation point (the record handed to the sink)', 'tracing macros: empty-bodied shim crate']
    ck.cov['bounds'] = {'history_length_from_fresh_daemon': 'all %d-step sequences over {report, no answer within grace, no answer beyond grace} for 1..%d steps, reports with arbitrary (bound, class, PHC term, as_of)' % (H, H),
                        'inductive_step': 'C08 only: one arbitrary step from an arbitrary (bound, as_of, FSM state)', 'bound, phc': '[0, 2^61)', 'as_of.tv_sec': '[0, 2^40)'}
    ck.cov['rule'] = 'one obligation per (history shape, clause); non-trivial when the path condition is satisfiable'
    ck.assumptions += ['virtual calls through Box<dyn FSMState> are dispatched on the concrete type recorded at the unsizing cast in the MIR', 'mathematical integers; overflow obligations discharged in the stated domain']
    return ck.finish()
