"""C16 (segment files are validated on open, and repaired by the daemon) and the layout half of C17.

Engine M on the MIR of ShmReader::new (FdGuard, MmapGuard, ShmHeader::read, ShmHeader::is_valid), of
ShmWriter::wipe and of the From<ShmError> conversions of both client libraries.  The operating system is
environment: open/read/mmap/close/munmap may each fail with an arbitrary errno; a successful read of >= 16 bytes
delivers an arbitrary header (the 16 header bytes and the four typed fields are in bijection, native endian)."""
import re
import time

import z3

from mirsym.exec import Exec, State, Event
from mirsym.values import Struct, Enum, Ref, Ptr, Opaque, UNIT, EngineError
from . import common
from .common import Prover, Check, mval
from .client_now import load_shm_program

MAGIC0, MAGIC1 = 0x414D5A4E, 0x43420200


class OpenModel:
    def __init__(self, prog):
        self.prog = prog
        B, I = z3.Bool, z3.Int
        self.open_ok, self.mmap_ok = B('open_ok'), B('mmap_ok')
        self.nread = I('read_ret')
        self.e_open, self.e_read, self.e_mmap = I('errno_open'), I('errno_read'), I('errno_mmap')
        self.m0, self.m1, self.seg, self.ver, self.gen = I('f_magic0'), I('f_magic1'), I('f_segsize'), I('f_version'), I('f_generation')
        self.fd = I('fd')
        self.last_errno = None

    def domain(self):
        return [self.nread >= -1, self.nread <= 16, self.m0 >= 0, self.m0 < 2 ** 32, self.m1 >= 0, self.m1 < 2 ** 32, self.seg >= 0, self.seg < 2 ** 32,
                self.ver >= 0, self.ver < 65536, self.gen >= 0, self.gen < 65536, self.fd >= 0, self.fd < 2 ** 31,
                self.e_open > 0, self.e_open < 4096, self.e_read > 0, self.e_read < 4096, self.e_mmap > 0, self.e_mmap < 4096]

    def env(self):
        def ev(st, kind, args=()):
            st.trace = st.trace + (Event(kind, args, None),)

        def h_open(ex, st, callee, args, fn):
            ev(st, 'open')
            st.mem[('env', 'errno')] = self.e_open
            return z3.If(self.open_ok, self.fd, z3.IntVal(-1))

        def h_read(ex, st, callee, args, fn):
            ev(st, 'read', (args[0], args[2]))
            buf = args[1]
            if not isinstance(buf, Ref):
                raise EngineError('read() into %r' % (buf,))
            hdr = Struct([Struct([self.m0, self.m1]), self.seg, self.ver, self.gen])
            try:
                old = ex.deref(st, buf)
            except EngineError:
                old = None
            # the buffer holds the header only when the read delivered all 16 bytes; otherwise it stays uninitialised
            st.pc.append(z3.And(self.nread >= -1, self.nread <= args[2]))       # POSIX: at most `count` bytes
            s_full = st.fork(); s_full.pc.append(self.nread == 16)
            ex.store(s_full, buf.frame, (buf.local, buf.path), hdr)
            s_part = st; s_part.pc.append(self.nread != 16)
            if isinstance(old, Struct) and len(old.f) == 4 and isinstance(old.f[0], Struct) and all(isinstance(x, z3.ExprRef) for x in list(old.f[0].f) + list(old.f[1:])):
                # the buffer was initialised before the call (e.g. zeroed): a short read overwrites its first `nread` bytes only
                # (little endian: a partly covered field keeps its high bytes)
                n = z3.If(self.nread < 0, z3.IntVal(0), self.nread)

                def mix(new, oldv, start, size):
                    v = z3.If(n >= start + size, new, oldv)
                    for k in range(1, size):
                        m_ = 256 ** k
                        v = z3.If(n == start + k, new % m_ + (oldv / m_) * m_, v)
                    return v
                part = Struct([Struct([mix(self.m0, old.f[0].f[0], 0, 4), mix(self.m1, old.f[0].f[1], 4, 4)]), mix(self.seg, old.f[1], 8, 4), mix(self.ver, old.f[2], 12, 2), mix(self.gen, old.f[3], 14, 2)])
                ex.store(s_part, buf.frame, (buf.local, buf.path), part)
            s_part.mem[('env', 'errno')] = self.e_read
            s_full.mem[('env', 'errno')] = self.e_read
            return [(s_full, self.nread), (s_part, self.nread)]

        def h_mmap(ex, st, callee, args, fn):
            ev(st, 'mmap', (args[1], args[4]))
            s_ok = st.fork(); s_ok.pc.append(self.mmap_ok)
            s_fail = st; s_fail.pc.append(z3.Not(self.mmap_ok)); s_fail.mem[('env', 'errno')] = self.e_mmap
            return [(s_ok, Ptr('seg', 0)), (s_fail, Ptr('MAP_FAILED', 0))]

        def h_close(ex, st, callee, args, fn):
            ev(st, 'close', (args[0],))
            return z3.IntVal(0)

        def h_munmap(ex, st, callee, args, fn):
            ev(st, 'munmap', (args[0], args[1]))
            return z3.IntVal(0)

        def h_errno(ex, st, callee, args, fn):
            return Struct([st.mem.get(('env', 'errno'), z3.Int('errno_stale'))])

        def h_as_bytes(ex, st, callee, args, fn):
            return args[0]

        def h_from_bytes(ex, st, callee, args, fn):
            return Enum(0, {'Ok': Struct([args[0]])})

        def h_into_inner(ex, st, callee, args, fn):
            v = args[0]
            while isinstance(v, Struct) and len(v.f) == 1:
                v = v.f[0]
            return v

        def h_atomic_load(ex, st, callee, args, fn):
            if isinstance(args[0], Ptr):
                # the mapped file holds the same header the read() call delivered
                off = args[0].off
                if off == 12:
                    return self.ver
                if off == 14:
                    return self.gen
                if off == 8:
                    return self.seg
                raise EngineError('atomic load from the mapped segment at offset %d' % off)
            v = ex.deref(st, args[0]) if isinstance(args[0], Ref) else args[0]
            while isinstance(v, Struct) and len(v.f) == 1:
                v = v.f[0]
            return v
        def h_read_rec(ex, st, callee, args, fn):
            # the record area of the mapped file: arbitrary content
            if not hasattr(self, 'rec'):
                I = z3.Int
                self.rec = Struct([Struct([I('rec_as_s'), I('rec_as_n')]), Struct([I('rec_va_s'), I('rec_va_n')]), I('rec_bound'), I('rec_drift'), I('rec_reserved'), Enum(I('rec_status'), {})])
            return self.rec

        def h_fence(ex, st, callee, args, fn):
            return UNIT
        def h_zeroed(ex, st, callee, args, fn):
            return Struct([Struct([Struct([z3.IntVal(0), z3.IntVal(0)]), z3.IntVal(0), z3.IntVal(0), z3.IntVal(0)])])
        def h_other_libc(ex, st, callee, args, fn):
            # any other foreign function: recorded with an arbitrary integer result (it must not be resolved by name to a Rust function
            # that happens to be called the same, e.g. nix::fcntl::flock for libc::flock)
            name = callee.strip().rsplit('::', 1)[-1]
            st.trace = st.trace + (Event('syscall:' + name, tuple(a for a in args if isinstance(a, z3.ExprRef)), None),)
            return ex.fresh('ret_' + name)
        return [(r'MaybeUninit::<(shm_header::)?ShmHeader>::zeroed$', h_zeroed), (r'read_volatile$|ptr::read$', h_read_rec), (r'(^|::)(fence|compiler_fence)$', h_fence), (r'^libc::open$|(^|::)open$', h_open), (r'^libc::read$', h_read), (r'^libc::mmap$', h_mmap), (r'^libc::close$', h_close), (r'^libc::munmap$', h_munmap),
                (r'(^|::)errno::errno$|^errno$', h_errno), (r'<impl str>::as_bytes$', h_as_bytes), (r'CStr::from_bytes_with_nul$', h_from_bytes),
                (r'Atomic(::<\w+>)?::into_inner$', h_into_inner), (r'Atomic(::<\w+>)?::load$', h_atomic_load), (r'(^|::)CStr::as_ptr$', lambda ex, st, c, a, f: Opaque('cptr')),
                (r'^libc::(?!open$|read$|mmap$|close$|munmap$)[a-z_0-9]+$', h_other_libc)]

    def run(self, fn=None, args=None, extra_env=(), opaque=()):
        ex = Exec(self.prog, env=list(extra_env) + self.env(), opaque_calls=list(opaque))
        ex.inline_drops = True
        # open(2) flags other than the access mode (Linux values): carried along; the file model does not depend on them - what they
        # change (symbolic links, close-on-exec ...) is covered by the native opens
        oflags = {'O_CLOEXEC': 0x80000, 'O_NOFOLLOW': 0x20000, 'O_NONBLOCK': 0x800, 'O_NOCTTY': 0x100, 'O_NOATIME': 0x40000, 'O_LARGEFILE': 0, 'O_SYNC': 0x101000, 'O_DSYNC': 0x1000}
        ex.const_hooks = [(r'(^|::)MAP_FAILED$', Ptr('MAP_FAILED', 0)), (r'libc::(O_RDONLY|PROT_READ|MAP_SHARED|EINTR)$', z3.IntVal(0))] + \
                         [(r'libc::%s$' % k, z3.IntVal(v)) for k, v in oflags.items()]
        fn = fn or self.prog.find1('new', self_ty='ShmReader')
        ex.deref_hook = lambda ex_, st, p: h_deref(ex_, st, p, self)
        outs = ex.run(fn, args if args is not None else [Opaque('path')], State())
        self.ex = ex
        return outs

    def expected(self):
        """(is_ok, error kind (0 Syscall, 1 NotInitialized, 2 Malformed), errno, origin)"""
        hdr_sz, total = 16, 72
        valid_magic = z3.And(self.m0 == MAGIC0, self.m1 == MAGIC1)
        steps = [
            (z3.Not(self.open_ok), 0, self.e_open, 'open'),
            (self.nread < 0, 0, self.e_read, 'read SHM segment'),
            (self.nread < hdr_sz, 1, None, None),
            (z3.Not(valid_magic), 1, None, None),
            (self.ver == 0, 1, None, None),
            (self.gen == 0, 1, None, None),
            (self.seg < hdr_sz, 2, None, None),
            (z3.Not(self.mmap_ok), 0, self.e_mmap, 'mmap SHM segment'),
            (self.seg < total, 2, None, None),
        ]
        return steps


def h_deref(ex, st, p, om):
    if p.off == 16:
        for rx, h in ex.env:
            if rx.startswith('read_volatile'):
                return h(ex, st, 'read_volatile', [p], None)
    raise EngineError('plain load from the mapped segment at offset %d' % p.off)


def origin_text(v):
    if isinstance(v, Opaque):
        m = re.search(r'"(.*?)(\\0)?"', v.tag)
        return m.group(1) if m else v.tag
    return None


def native_open_kinds(ck):
    """standing native runs: the kinds of path and the file shapes the property names, through the real ShmReader::new and the real
    client (a panic or a wrong kind here is a violation whatever the symbolic part can or cannot encode)"""
    import struct
    hdr = lambda seg, ver, gen, magic=(0x414D5A4E, 0x43420200): struct.pack('<IIIHH', magic[0], magic[1], seg, ver, gen)
    body = b'\0' * 56
    cases = [('a missing file', 'MISSING', 'SyscallError_errno=2'), ('a directory', 'DIR', 'SyscallError_errno=21'), ('an empty file', '', 'SegmentNotInitialized'),
             ('a file truncated in the header (10 bytes)', hdr(72, 1, 2)[:10].hex(), 'SegmentNotInitialized'), ('garbage', ('ab' * 72), 'SegmentNotInitialized'),
             ('a valid segment', (hdr(72, 1, 2) + body).hex(), 'Ok'), ('a symbolic link to a valid segment', 'LINK:' + (hdr(72, 1, 2) + body).hex(), 'Ok'),
             ('a symbolic link to an empty file', 'LINK:', 'SegmentNotInitialized'), ('generation 0', (hdr(72, 1, 0) + body).hex(), 'SegmentNotInitialized'),
             ('version 0', (hdr(72, 0, 2) + body).hex(), 'SegmentNotInitialized'), ('declared size 40', (hdr(40, 1, 2) + body).hex(), 'SegmentMalformed'),
             ('a zero-filled file of 16 bytes', '00' * 16, 'SegmentNotInitialized'), ('a zero-filled file of 72 bytes', '00' * 72, 'SegmentNotInitialized'),
             ('a header with version 0, generation 0 and declared size 8', hdr(8, 0, 0).hex() + '00' * 56, 'SegmentNotInitialized'),
             # a live header that declares more than the file holds (pages beyond the end of the file are mapped but must not be touched)
             ('a 72-byte file declaring 8192 bytes', (hdr(8192, 1, 2) + body).hex(), 'NOCRASH'), ('a 72-byte file declaring 16 MiB', (hdr(16 * 1024 * 1024, 1, 2) + body).hex(), 'NOCRASH')]
    rp = common.Replay('debug')
    bad = []
    outs = {}
    for name, arg, exp in cases:
        try:
            out = rp.ask('open ' + arg)
        except common.Inconclusive:
            # the process that opened the file was killed (e.g. SIGBUS): "never a crash"
            out = 'reader=KILLED_BY_A_SIGNAL_(the_process_opening_the_file_died)'
            rp = common.Replay('debug')
        outs[name] = out
        got = dict(x.split('=', 1) for x in out.split() if '=' in x).get('reader', out)
        if exp == 'NOCRASH':
            # accepted (the code maps what the header declares) or refused with an error kind: both are within the property; a crash is not
            if 'KILLED' in got or 'panic' in got:
                bad.append('ShmReader::new on %s: %s - opening a file never crashes the client' % (name, got[:120]))
        elif not got.startswith(exp):
            bad.append('ShmReader::new on %s returns %s, documented: %s' % (name, got[:160], exp))
            if 'panic' in got or not out.startswith('reader='):
                rp.close(); rp = common.Replay('debug')
        leaked = dict(x.split('=', 1) for x in out.split() if '=' in x).get('fds_leaked')
        if leaked not in (None, '0'):
            bad.append('ShmReader::new on %s (%s): %s file descriptor(s) still open after the attempt was dropped - a client polling for the segment runs out of descriptors' % (name, got[:60], leaked))
    rp.close()
    ck.cov['native_open_kinds'] = {'cases': len(cases), 'bad': len(bad)}
    ck.cov['traces_validated_against_impl'] = ck.cov.get('traces_validated_against_impl', 0) + len(cases)
    if bad:
        ck.violation('open-outcome', '; '.join(bad[:2]), {'cmd': 'open', 'native': outs})
    return bad


def check_c16(tier, seed):
    ck = Check('C16', tier, seed)
    prog, mir_wall = load_shm_program()
    if native_open_kinds(ck):
        ck.cov['functions_encoded'] = ['(native runs only: a documented outcome is already wrong on a concrete file)']
        return ck.finish()
    om = OpenModel(prog)
    outs = om.run()
    ex = om.ex
    pr = Prover(seed); pr.add(om.domain()); pr.add(ex.side)
    ck.cov['functions_encoded'] = sorted({n.split('>::')[-1] if '>::' in n else n for n in ex.inlined})
    ck.cov['mir_dump_s'] = round(mir_wall, 1); ck.cov['return_paths'] = len(outs)
    steps = om.expected()
    rp = common.Replay('debug')
    stats = [0, 0]

    def file_bytes(m):
        """a concrete file realising the model: header fields little endian, truncated at the modelled read length"""
        import struct
        n = mval(m, om.nread)
        hdr = struct.pack('<IIIHH', mval(m, om.m0), mval(m, om.m1), mval(m, om.seg), mval(m, om.ver), mval(m, om.gen))
        if not mval(m, om.open_ok):
            return 'MISSING'
        if n < 0:
            return 'DIR'
        if n < 16:
            return hdr[:n].hex() if n > 0 else ''
        seg = mval(m, om.seg)
        body = b'\0' * max(0, min(seg, 4096) - 16)
        return (hdr + body).hex()

    def confirm(m):
        stats[0] += 1
        if not mval(m, om.mmap_ok) and mval(m, om.open_ok) and mval(m, om.nread) == 16:
            return None       # an mmap failure cannot be provoked natively on demand
        fb = file_bytes(m)
        out = rp.ask('open ' + fb)
        # expected outcome by the documented rules, evaluated concretely
        exp = None
        for cond, kind, errno, origin in steps:
            if cond is not None and z3.is_true(m.eval(cond, model_completion=True)):
                exp = ('SyscallError', 'SegmentNotInitialized', 'SegmentMalformed')[kind]; break
        if fb == 'MISSING':
            exp = 'SyscallError_errno=2'
        if fb == 'DIR':
            exp = 'SyscallError_errno=21'
        if exp is None:
            exp = 'Ok'
        got = dict(x.split('=', 1) for x in out.split() if '=' in x).get('reader', '')
        n_ = mval(m, om.nread)
        if got.startswith(exp) and mval(m, om.open_ok) and 0 <= n_ < 16:
            # the outcome looks right, but was it computed from bytes the file does not contain?  memcheck decides.
            import subprocess
            binp = common.build_replay('debug')
            p = subprocess.run(['valgrind', '-q', '--error-exitcode=9', '--track-origins=no', binp], input='open %s\n' % fb, capture_output=True, text=True, timeout=300)
            if p.returncode == 9 and ('uninitialised' in p.stderr):
                stats[1] += 1
                ck.violation('uninitialised-header-read', 'ShmReader::new on a file of %d bytes decides from uninitialised memory (valgrind memcheck: %s)' % (len(fb) // 2, p.stderr.strip().split('\n')[0][:120]),
                             {'cmd': 'valgrind verif-replay <<< "open %s"' % fb, 'stderr': p.stderr[-1500:]})
                return 'uninitialised-read'
        if not got.startswith(exp):
            stats[1] += 1
            ck.violation('open-outcome', 'ShmReader::new on a %s returns %s, documented outcome: %s' % (
                'file of %d bytes with header %s' % (len(fb) // 2, fb[:32]) if fb not in ('MISSING', 'DIR') else fb.lower() + ' path', got, exp), {'cmd': 'open ' + fb[:200], 'native': out})
            return 'open-outcome'
        return None
    def confirm_unmap(m):
        """the real reader is opened and dropped in a child process; every address range mapped before must still be mapped"""
        stats[0] += 1
        fb = file_bytes(m)
        if fb in ('MISSING', 'DIR'):
            return None
        out = rp.ask('unmapcheck ' + fb)
        f = dict(x.split('=', 1) for x in out.split() if '=' in x)
        if out.startswith('ok') and int(f.get('lost_bytes', '0')) > 0:
            stats[1] += 1
            ck.violation('unmaps-foreign-memory', 'opening and dropping a reader on a file whose header declares %d bytes unmapped %s bytes of address space that did not belong to the reader (%s): the process can crash at any later access'
                         % (mval(m, om.seg), f.get('lost_bytes'), f.get('first_lost', '')), {'cmd': 'unmapcheck ' + fb[:200], 'native': out})
            return 'unmap'
        if out.startswith('ok crashed'):
            stats[1] += 1
            ck.violation('unmaps-foreign-memory', 'opening and dropping a reader on a file whose header declares %d bytes crashed the process: %s' % (mval(m, om.seg), out), {'cmd': 'unmapcheck ' + fb[:200], 'native': out})
            return 'unmap'
        return None
    n = 0
    for o in outs:
        if o.kind != 'return':
            continue
        n += 1
        pc = o.state.pcond()
        v = o.value
        kinds = [e.kind for e in o.state.trace]
        label = 'path %d [%s]' % (n, ' '.join(kinds))
        is_ok = 'Ok' in v.p and 'Err' not in v.p
        # expected classification
        none_before = []
        exp_ok = z3.And([z3.Not(c) for c, k, e, og in steps])
        if is_ok:
            pr.prove_cegar(label + ': opening succeeds only for (magic, version != 0, generation != 0, declared size >= header+record, all system calls ok)', pc, exp_ok, confirm, lambda m: [])
        else:
            err = v.p['Err'].f[0]
            d = err.disc()
            cl = []
            prev = []
            for c, k, e, og in steps:
                here = z3.And(*(prev + [c]))
                want = [d == k]
                if k == 0 and 'SyscallError' in err.p:
                    pl = err.p['SyscallError']
                    en = pl.f[0].f[0] if isinstance(pl.f[0], Struct) else None
                    if en is not None:
                        want.append(en == e)
                    ot = origin_text(pl.f[1])
                    want.append(z3.BoolVal(ot == og))
                cl.append(z3.Implies(here, z3.And(want)))
                prev.append(z3.Not(c))
            pr.prove_cegar(label + ': the error is the documented kind for the first failing condition (with the failing call\'s errno and origin)', pc, z3.And(z3.Not(exp_ok), *cl), confirm, lambda m: [])
        # no descriptor / mapping leak: every successful open is closed unless the reader owns it... the reader does not keep the fd
        opens = kinds.count('open'); closes = kinds.count('close')
        pr.prove(label + ': the file descriptor is closed again on this path (when it was opened)', pc, z3.Or(z3.Not(om.open_ok), z3.BoolVal(closes == 1)), need_reach=False)
        if not is_ok:
            maps = kinds.count('mmap'); unmaps = kinds.count('munmap')
            pr.prove(label + ': a mapping made on a failing path is unmapped', z3.And(pc, om.mmap_ok), z3.BoolVal(maps == unmaps) if maps else z3.BoolVal(True), need_reach=False)
        # what is unmapped is exactly what was mapped (a longer munmap silently removes whatever follows the mapping)
        trace = list(o.state.trace)
        if is_ok:
            # the successful reader releases its mapping when it is dropped: run its drop glue
            try:
                st2 = o.state.fork()
                st2.mem[(0, 'reader_out')] = v.p['Ok'].f[0]
                ex.inline_drops = True
                ex._drop_value(st2, Ref(0, 'reader_out'), 'ShmReader', om.fn if hasattr(om, 'fn') else None, 0)
                trace = list(st2.trace)
            except EngineError as e:
                ck.inconclusive.append('drop of the reader not executable: %s' % e)
        mm = [e for e in trace if e.kind == 'mmap']; um = [e for e in trace if e.kind == 'munmap']
        if is_ok:
            pr.prove(label + ': dropping the reader unmaps its mapping', z3.And(pc, om.mmap_ok), z3.BoolVal(len(um) == 1 and len(mm) == 1), need_reach=False)
        if mm and um and isinstance(mm[0].args[0], z3.ExprRef) and isinstance(um[0].args[1], z3.ExprRef):
            pr.prove_cegar(label + ': the length unmapped is the length that was mapped', z3.And(pc, om.mmap_ok), um[0].args[1] == mm[0].args[0], confirm_unmap, lambda m: [],
                           hints=[[om.seg >= 8192, om.seg <= 2 ** 20], [om.seg <= 4096]])
    # no panic / overflow on any file
    k = 0
    for ob in ex.obligations:
        k += 1
        pr.prove_cegar('no panic[%d] %s in %s' % (k, ob.desc, ob.fn.split('>::')[-1][:30]), ob.pc, z3.BoolVal(False), confirm, lambda m: [], need_reach=False,
                       hints=[[om.m0 == MAGIC0, om.m1 == MAGIC1, om.seg == 72, om.open_ok]])
    rp.close()
    ck.absorb(pr, 'open: ')
    ck.cov['counterexamples_replayed'], ck.cov['counterexamples_confirmed'] = stats
    # ---- error conversion of the two client libraries (pure matches)
    conv = conversions(ck, prog, seed)
    # ---- the file the daemon re-creates
    wipe_image(ck, prog, seed)
    try:
        wipe_crash_part(ck, prog, seed)
    except EngineError as e:
        ck.inconclusive.append('crash inside wipe(): %s' % e)
    if tier == 'thorough':
        kani_bytes(ck)
    ck.cov['stubs'] = ['libc::open/read/mmap/close/munmap and errno: environment; each call may fail with an arbitrary errno; read returns -1..16',
                       'a successful 16-byte read delivers an arbitrary header (bytes <-> typed fields bijection, native endian)',
                       'File::create / WriteBytesExt / write_all / stream_position / sync_all in wipe(): environment events (n bytes appended, little endian = native on the supported targets)']
    ck.cov['bounds'] = {'file content': 'every header (2^128 values) x every read length -1..16 x every success/failure of open, read, mmap', 'bytes beyond the header': 'never read by ShmReader::new (shown by the event list: one read of 16 bytes)',
                        'outside': 'kinds of path as file-system objects (directory, missing file) appear only as the failing system call they cause; O2: a file shorter than its declared size'}
    ck.cov['rule'] = 'one obligation per (return path of ShmReader::new, clause)'
    ck.assumptions += ['POSIX contract of open/read/mmap for regular files', 'little-endian target (NativeEndian is LittleEndian in the analysed build)']
    return ck.finish()


def kani_bytes(ck):
    """thorough tier: the same iff at byte level with Kani's memory checks on (engine K, C model of the system calls)"""
    from .kani_run import run_kani, harness_dir
    import os
    h = 'open_arbitrary_file'
    r = run_kani(h, timeout=2400, extra=['-Z', 'c-ffi', '--c-lib', os.path.join(harness_dir(), 'env_model.c')])
    ck.cov.setdefault('kani', {})[h] = {k: v for k, v in r.items() if k != 'out'}
    ck.cov['queries'] += 1; ck.cov['evaluations'] += 1; ck.cov['obligations'] += 1
    ck.cov['samples'].append({'obligation': 'Kani: ShmReader::new on every file of every length <= 72 (byte level, C model of open/read/mmap, unwind 80): outcome iff + memory safety, %s CBMC checks' % r.get('checks'),
                              'verdict': r['verdict'], 'solver_s': r.get('solver_s')})
    if r['verdict'] == 'successful' and (not r.get('covers') or r['covers'][0] == r['covers'][1]):
        ck.cov['discharged'] += 1; ck.cov['distinct_nontrivial'] += 1
    elif r['verdict'] == 'failed':
        ck.inconclusive.append('Kani byte-level harness %s failed: %s (engine M\'s typed model is the deciding check; no native replay is wired for Kani traces of this harness)' % (h, r.get('failed_checks')))
    else:
        ck.inconclusive.append('Kani byte-level harness %s: %s %s' % (h, r['verdict'], r.get('out', '')[-200:]))


def wipe_crash_part(ck, prog, seed):
    """the daemon dies INSIDE wipe() (any prefix of its file writes), over any file the start-up judged unusable: what is left must
    not be a segment clients can open - otherwise they read a record nobody published.  File model: create (truncating or not, as
    the code asks), then sequential writes; a crash keeps the bytes written so far (and, without truncation, the old bytes behind)."""
    B = z3.Bool
    flags = {k: z3.BoolVal(True) for k in ('mkdir', 'create', 'w0', 'w1', 'w2', 'w3', 'w4', 'wall', 'pos', 'sync')}
    outs, ex, _sz = _run_wipe(prog, flags)
    if outs is None:
        ck.inconclusive.append('crash inside wipe(): wipe() not executable by engine M (%s)' % ex)
        return
    pr = Prover(seed); pr.add(ex.side)
    I = z3.Int
    pm0, pm1, pseg, pver, pgen, plen = I('prior_m0'), I('prior_m1'), I('prior_segsize'), I('prior_version'), I('prior_generation'), I('prior_len')
    kcr = I('crash_after_writes')
    dom = [pm0 >= 0, pm0 < 2 ** 32, pm1 >= 0, pm1 < 2 ** 32, pseg >= 0, pseg < 2 ** 32, pver >= 0, pver < 65536, pgen >= 0, pgen < 65536, plen >= 0, plen <= 4096]
    valid = lambda m0, m1, seg, ver, gen, ln: z3.And(ln >= 16, m0 == MAGIC0, m1 == MAGIC1, ver != 0, gen != 0, seg >= 72)
    prior_unusable = z3.Not(valid(pm0, pm1, pseg, pver, pgen, plen))
    rp = common.Replay('debug')
    stats = [0, 0]
    n = 0
    for o in outs:
        v = o.value
        if o.kind != 'return' or not ('Ok' in v.p and 'Err' not in v.p):
            continue
        ws = [e for e in o.state.trace if e.kind == 'file_write']
        cre = [e for e in o.state.trace if e.kind == 'file_create']
        if not (len(ws) >= 5 and [w.args[0] for w in ws[:5]] == [4, 4, 4, 2, 2] and len(cre) == 1):
            ck.inconclusive.append('crash inside wipe(): the write sequence is not the 4+4+4+2+2 header followed by the body'); continue
        n += 1
        trunc = 'truncate' in cre[0].args
        sizes = [4, 4, 4, 2, 2] + [w.args[0] if isinstance(w.args[0], int) else 56 for w in ws[5:]]
        new = [w.args[1] for w in ws[:5]]
        wb = z3.Sum([z3.If(kcr > i, z3.IntVal(sz) if isinstance(sz, int) else sz, 0) for i, sz in enumerate(sizes)])
        ln = wb if trunc else z3.If(plen >= wb, plen, wb)
        prior = [pm0, pm1, pseg, pver, pgen]
        fld = [z3.If(kcr > i, new[i], prior[i]) for i in range(5)]
        left_valid = valid(fld[0], fld[1], fld[2], fld[3], fld[4], ln)

        def confirm(m, trunc=trunc):
            stats[0] += 1
            import struct
            k_ = mval(m, kcr)
            limit = sum(sizes[:k_]) if k_ <= len(sizes) else 72
            body = struct.pack('<qqqqqIIiI', 11, 12, 13, 14, 15, 16, 0, 1, 0)
            priorb = (struct.pack('<IIIHH', mval(m, pm0), mval(m, pm1), mval(m, pseg), mval(m, pver), mval(m, pgen)) + body)[:max(0, mval(m, plen))]
            if len(priorb) < mval(m, plen):
                priorb += b'\x11' * (min(mval(m, plen), 200) - len(priorb))
            out = rp.ask('wipecrash %s %d' % (priorb.hex(), limit))
            f = dict(x.split('=', 1) for x in out.split()[1:] if '=' in x)
            if out.startswith('ok') and f.get('reader', '').startswith('Ok'):
                stats[1] += 1
                ck.violation('crash-inside-wipe', 'the daemon starts over an unusable file (%d bytes, header %s), is cut short inside wipe() after %d bytes were written, and leaves a file that clients open successfully (%s): they read a record nobody published'
                             % (len(priorb), priorb[:16].hex(), limit, f.get('reader')), {'cmd': 'wipecrash %s %d' % (priorb.hex(), limit), 'native': out})
                return 'wipe-crash'
            return None
        pr.prove_cegar('wipe() path %d (%s): whatever unusable file was there and wherever wipe() is cut short, the file left behind cannot be opened by clients' % (n, 'truncating create' if trunc else 'create without truncation'),
                       z3.And(o.state.pcond(), prior_unusable, kcr >= 0, kcr <= len(sizes), *dom), z3.Not(left_valid), confirm, lambda m: [],
                       hints=[[plen == 72, pver == 1, pgen == 2, pseg == 72]])
    rp.close()
    ck.absorb(pr, 'wipe crash: ')
    ck.cov['wipe_crash'] = {'paths': n, 'counterexamples_replayed': stats[0], 'confirmed': stats[1]}


def conversions(ck, prog, seed):
    pr = Prover(seed)
    kinds = {'SyscallError': 0, 'SegmentNotInitialized': 1, 'SegmentMalformed': 2, 'CausalityBreach': 3}
    ek = prog.enums.get('ClockBoundErrorKind')
    for crate, enum_name, want in (('clock_bound_client', 'ClockBoundErrorKind', {'SyscallError': 'Syscall', 'SegmentNotInitialized': 'SegmentNotInitialized', 'SegmentMalformed': 'SegmentMalformed', 'CausalityBreach': 'CausalityBreach'}),):
        fns = [f for f in prog.find('from', crate=crate) if f.params and 'ShmError' in f.ltypes.get(f.params[0], '')]
        if len(fns) != 1 or not ek:
            ck.inconclusive.append('From<ShmError> for ClockBoundError not found')
            continue
        ex = Exec(prog, opaque_calls=[r'to_string$', r'String::new$', r'to_str$', r'unwrap_or', r'to_owned$', r'Result::<.*>::unwrap', r'from_utf8'])
        errno = z3.Int('errno_in')
        for name, d in kinds.items():
            payload = Struct([Struct([errno]), Opaque('str:"origin"')]) if name == 'SyscallError' else UNIT
            try:
                outs = ex.run(fns[0], [Enum(d, {name: payload})], State())
            except EngineError as e:
                ck.inconclusive.append('client error conversion not executable: %s' % e); break
            for o in outs:
                if o.kind != 'return':
                    continue
                v = o.value
                fields = prog.struct_fields.get('ClockBoundError', [])
                kd = v.f[fields.index('kind')].disc()
                en = v.f[fields.index('errno')]
                en = en.f[0] if isinstance(en, Struct) else en
                pr.add(ex.side)
                pr.prove('Rust client: ShmError::%s -> kind %s, errno %s' % (name, want[name], 'of the failing call' if name == 'SyscallError' else '0'), o.state.pcond(),
                         z3.And(kd == ek[want[name]], en == (errno if name == 'SyscallError' else 0)))
    ck.absorb(pr, 'conversion: ')


def confirm_recreate(ck, pr=None):
    """the real ShmWriter::new over unusable files of several lengths: what does the re-created file look like?"""
    rp = common.Replay('debug')
    want = '4e5a4d410002424348000000' + '0100' + '0000' + '00' * 56
    bad = []
    outs = {}
    import struct
    hdr = lambda seg, ver, gen: struct.pack('<IIIHH', MAGIC0, MAGIC1, seg, ver, gen).hex()
    # every class of unusable content: empty, truncated, garbage, over-long, and headers that look alive (right magic, version and
    # generation set) but declare a size too small for header + record (the readers call those malformed)
    files = ['', 'deadbeef00112233', 'ab' * 72, 'cd' * 73, '11' * 200, '4e5a4d4100024243800000000000000000' + '77' * 111,
             hdr(40, 1, 2) + '00' * 56, hdr(0, 1, 2) + '00' * 56, hdr(71, 1, 6) + '33' * 84, hdr(16, 1, 2), hdr(72, 0, 2) + '00' * 56, hdr(72, 1, 0) + '00' * 56, hdr(72, 1, 2)[:20]]
    for garbage in files:
        out = rp.ask('recreate ' + garbage)
        outs[len(outs)] = out
        f = dict(x.split('=', 1) for x in out.split()[1:] if '=' in x) if out.startswith('ok') else {}
        if out.startswith('err') or out.startswith('panic'):
            bad.append('over an unusable file of %d bytes (%s...) the daemon\'s ShmWriter::new does not repair the segment, it fails: %s' % (len(garbage) // 2, garbage[:32], out[:100]))
            if out.startswith('panic'):
                rp.close(); rp = common.Replay('debug')
            continue
        if not f.get('bytes') and 'len' in f and f['len'] == '0':
            f['bytes'] = ''
        if 'bytes' in f and f['bytes'] != want:
            bad.append('over an unusable file of %d bytes ShmWriter::new leaves %d bytes %s..., documented: 72 bytes %s...' % (len(garbage) // 2, len(f['bytes']) // 2, f['bytes'][:40], want[:40]))
    rp.close()
    ck.cov['native_recreate'] = {'files': len(outs), 'bad': len(bad)}
    if bad:
        if pr is not None:
            pr.handled = getattr(pr, 'handled', set()) | {n for n, m in pr.failed}
        ck.violation('recreated-file-layout', '; '.join(bad[:2]), {'cmd': 'recreate', 'native': outs})
    return bad


def _run_wipe(prog, flags, has_parent=None, parent_str=None, parent_empty=None):
    """ShmWriter::wipe over the file model; returns (outcomes, executor, segsize variable) or (None, None, None)"""
    B = z3.Bool
    has_parent = B('path_has_parent') if has_parent is None else has_parent
    parent_str = B('parent_is_utf8') if parent_str is None else parent_str
    parent_empty = B('parent_is_empty') if parent_empty is None else parent_empty
    writes = []

    def res(flag, okval=UNIT):
        return Enum(z3.If(flag, z3.IntVal(0), z3.IntVal(1)), {'Ok': Struct([okval]), 'Err': Struct([Opaque('io::Error')])})

    def ev(st, kind, args=()):
        st.trace = st.trace + (Event(kind, args, None),)
    widx = [0]

    def h_write_int(ex, st, callee, args, fn):
        size = 4 if 'write_u32' in callee else 2 if 'write_u16' in callee else 8
        endian = 'little' if 'LittleEndian' in callee else 'big' if 'BigEndian' in callee else 'native'
        i = len([e for e in st.trace if e.kind == 'file_write'])
        ev(st, 'file_write', (size, args[1], endian))
        return res(flags['w%d' % i] if i < 5 else flags['wall'])

    def h_write_all(ex, st, callee, args, fn):
        buf = args[1]
        if isinstance(buf, Ref):
            buf = ex.deref(st, buf)
        if isinstance(buf, Struct) and len(buf.f) == 2 and isinstance(buf.f[0], Opaque) and buf.f[0].tag == 'vec_fill':
            ev(st, 'file_write', (buf.f[1], 'fill', buf.f[0].tag))
        else:
            raise EngineError('write_all of %r' % (buf,))
        return res(flags['wall'])

    def h_from_elem(ex, st, callee, args, fn):
        z = z3.simplify(args[0])
        if not (z3.is_int_value(z) and z.as_long() == 0):
            raise EngineError('vec![x; n] with x != 0')
        return Struct([Opaque('vec_fill'), args[1]])

    OO = ['read', 'write', 'append', 'truncate', 'create', 'create_new']

    def h_oo_set(ex, st, callee, args, fn):
        k = callee.rsplit('::', 1)[1]
        r = args[0]
        cur = ex.deref(st, r) if isinstance(r, Ref) else r
        f = list(cur.f); f[OO.index(k)] = args[1]
        new = Struct(f)
        if isinstance(r, Ref):
            ex.store(st, r.frame, (r.local, r.path), new)
            return r
        return new

    def h_oo_open(ex, st, callee, args, fn):
        r = args[0]
        cur = ex.deref(st, r) if isinstance(r, Ref) else r
        trunc = z3.simplify(cur.f[OO.index('truncate')]); wr = z3.simplify(cur.f[OO.index('write')]); cr = z3.simplify(z3.Or(cur.f[OO.index('create')], cur.f[OO.index('create_new')]))
        mode = tuple(n for n, v in (('truncate', trunc), ('write', wr), ('create', cr)) if z3.is_true(v))
        ev(st, 'file_create', mode)
        return res(flags['create'], Opaque('file'))

    def h_pos(ex, st, callee, args, fn):
        total = z3.IntVal(0)
        for e in st.trace:
            if e.kind == 'file_write':
                total = total + e.args[0]
        return res(flags['pos'], total)
    env = [(r'(^|::)Path::parent$', lambda ex, st, c, a, f: Enum(z3.If(has_parent, z3.IntVal(1), z3.IntVal(0)), {'Some': Struct([Opaque('parent')]), 'None': UNIT})),
           (r'(^|::)Path::to_str$', lambda ex, st, c, a, f: Enum(z3.If(parent_str, z3.IntVal(1), z3.IntVal(0)), {'Some': Struct([Opaque('parent_str')]), 'None': UNIT})),
           (r'^<str as PartialEq>::eq$', lambda ex, st, c, a, f: parent_empty),
           (r'(^|::)create_dir_all(::<.*>)?$', lambda ex, st, c, a, f: (ev(st, 'create_dir_all'), res(flags['mkdir']))[1]),
           (r'(^|::)File::create(::<.*>)?$', lambda ex, st, c, a, f: (ev(st, 'file_create', ('truncate',)), res(flags['create'], Opaque('file')))[1]),
           (r'(^|::)OpenOptions::new$', lambda ex, st, c, a, f: Struct([z3.BoolVal(False)] * 6)),
           (r'(^|::)OpenOptions::(read|write|append|truncate|create|create_new)$', h_oo_set),
           (r'(^|::)OpenOptions::open(::<.*>)?$', h_oo_open),
           (r'WriteBytesExt>::write_u(16|32|64)', h_write_int), (r'Write>::write_all$', h_write_all), (r'(^|::)from_elem(::<.*>)?$', h_from_elem),
           (r'(^|::)File::set_len$', lambda ex, st, c, a, f: (ev(st, 'set_len', (a[1],)), res(flags['sync']))[1]),
           (r'Seek>::stream_position$', h_pos), (r'(^|::)File::sync_all$', lambda ex, st, c, a, f: (ev(st, 'sync_all'), res(flags['sync']))[1])]
    ex = Exec(prog, env=env, opaque_calls=[r'Argument(::<.*>)?::new_debug', r'Arguments(::<.*>)?::new', r'(^|::)format$', r'must_use', r'io::Error::new', r'Error::new'])
    segsize = z3.Int('wipe_segsize')
    fn = prog.find1('wipe', self_ty='ShmWriter')
    try:
        outs = ex.run(fn, [Opaque('path'), segsize], State())
    except EngineError as e:
        return None, str(e), None
    return outs, ex, segsize


def wipe_image(ck, prog, seed):
    """execute ShmWriter::wipe over a file model and decode the bytes it writes"""
    B = z3.Bool
    flags = {k: B('wipe_' + k + '_ok') for k in ('mkdir', 'create', 'w0', 'w1', 'w2', 'w3', 'w4', 'wall', 'pos', 'sync')}
    has_parent, parent_str, parent_empty = B('path_has_parent'), B('parent_is_utf8'), B('parent_is_empty')
    outs, ex, segsize = _run_wipe(prog, flags, has_parent, parent_str, parent_empty)
    if outs is None:
        ck.inconclusive.append('ShmWriter::wipe not executable by engine M: %s' % ex)
        return
    pr = Prover(seed); pr.add(ex.side); pr.add(segsize == 72)
    lay = prog.layouts
    hdr = lay.get('ShmHeader'); rec = lay.get('ClockErrorBound')
    sz_fn = prog.find1('segment_size', self_ty='ShmWriter')
    ex2 = Exec(prog)
    o2 = ex2.run(sz_fn, [], State())
    pr.prove('ShmWriter::segment_size() = %d + %d = 72 (header + record, already a multiple of 8)' % (hdr['size'], rec['size']), z3.BoolVal(True),
             z3.And([z3.And(o.state.pcond(), o.value == 72) if False else z3.Implies(o.state.pcond(), o.value == 72) for o in o2 if o.kind == 'return']), need_reach=False)
    allok = z3.And(list(flags.values()))
    nok = 0
    for o in outs:
        if o.kind != 'return':
            continue
        v = o.value
        pc = o.state.pcond()
        ws = [e for e in o.state.trace if e.kind == 'file_write']
        if 'Ok' in v.p and 'Err' not in v.p:
            nok += 1
            # decode the image
            ok_shape = len(ws) == 6 and [w.args[0] for w in ws[:5]] == [4, 4, 4, 2, 2] and all(w.args[2] in ('little', 'native') for w in ws[:5]) and ws[5].args[1] == 'fill'
            pr.prove('wipe() success path: the file is created (truncated), then written as 4+4+4+2+2 bytes little/native endian followed by a zero fill', pc, z3.BoolVal(bool(ok_shape)), need_reach=False)
            if ok_shape:
                vals = [w.args[1] for w in ws[:5]]
                res = pr.prove('re-created file: magic, declared size 72, generation 0 (not yet published), zero record, 72 bytes in all (docs/PROTOCOL.md layout; the version is set by ShmWriter::new right after)', pc,
                               z3.And(vals[0] == MAGIC0, vals[1] == MAGIC1, vals[2] == 72, vals[4] == 0, ws[5].args[0] == 72 - 16))
                if isinstance(res, tuple):
                    confirm_recreate(ck, pr)
                kinds = [e.kind for e in o.state.trace]
                cre = [e for e in o.state.trace if e.kind == 'file_create']
                r2 = pr.prove('wipe() creates AND truncates the file before writing (whatever its previous length, the result is the 72 bytes written) and syncs it at the end', pc,
                              z3.BoolVal(len(cre) == 1 and 'truncate' in cre[0].args and kinds.index('file_create') < kinds.index('file_write') and kinds[-1] == 'sync_all'), need_reach=False)
                if isinstance(r2, tuple):
                    confirm_recreate(ck, pr)
            pr.prove('wipe() reports success only if every file operation succeeded', pc, z3.And([f for k, f in flags.items() if k != 'mkdir'] + [z3.Or(flags['mkdir'], z3.Not(has_parent), parent_empty)]), need_reach=True)
    pr.prove('wipe() has a success path', z3.BoolVal(True), z3.BoolVal(nok >= 1), need_reach=False)
    if not any(k == 'recreated-file-layout' for k, d, p_ in ck.violations):
        confirm_recreate(ck, pr)
    ck.absorb(pr, 'wipe: ')
    # a wiped file + ShmWriter::new's version store + one write() is a valid segment with generation 2 (C11: 0 -> 1 -> 2)
    from .seqlock_checks import header_validity
    from .seqlock_model import Programs
    try:
        P = Programs(prog)
        H = header_validity(P, seed)
        pr3 = Prover(seed); pr3.add(H['dom']); pr3.add(H['side'])
        m0, m1, seg, ver, gen = H['vars']
        pr3.prove('after wipe + version store + first publication (magic, 72, version 1, generation 2) the header passes ShmHeader::is_valid: new clients can attach',
                  z3.And(H['pc'], m0 == MAGIC0, m1 == MAGIC1, seg == 72, ver == 1, gen == 2), H['val'].disc() == 0)
        ck.absorb(pr3, 'repair: ')
    except EngineError as e:
        ck.inconclusive.append('repair clause: %s' % e)
