"""C07, PHC term: the PHC error bound that reaches the bound is the number written in the sysfs file.

`get_phc_error_bound_from_path` is executed by engine M over a byte-level model of the file: the content is a string of D
symbolic decimal digits (D = 1..18, every digit a solver variable) followed by a newline (or not); the std calls on the way
(`File::open`, `Read::read_to_string` / `read` / `read_to_end`, `fs::read_to_string`, `String`/`str` views, `trim`,
`parse::<i64>`, `from_utf8`, slicing) are given their byte-level semantics below.  The claim per case: the function returns
Ok(the number the digits spell).  A counterexample is a concrete file content; it is written to a real file and the real
function is run on it (replay command `phcfile`).  A std call outside the list ends INCONCLUSIVE, never green."""
import re

import z3

from mirsym.exec import Exec, State, Event
from mirsym.values import Struct, Enum, Ref, Opaque, UNIT, EngineError
from . import common
from .common import mval

I64_MAX = 2 ** 63 - 1


class Bytes:
    """a byte string of concrete length; elements are z3 Int terms"""
    __slots__ = ('b',)

    def __init__(self, b):
        self.b = list(b)

    def __repr__(self):
        return 'Bytes(%d)' % len(self.b)


def kind(e):
    e = z3.simplify(e) if isinstance(e, z3.ExprRef) else z3.IntVal(e)
    if z3.is_int_value(e):
        v = e.as_long()
        if v in (9, 10, 11, 12, 13, 32):
            return 'ws'
        if 48 <= v <= 57:
            return 'digit'
        if v in (43, 45):
            return 'sign'
        return 'other'
    if z3.is_const(e) and e.decl().name().startswith('dig_'):
        return 'digit'
    return 'unknown'


class FileModel:
    def __init__(self, prog, content):
        self.prog = prog
        self.content = content            # list of z3 Int terms

    def val(self, ex, st, v):
        while isinstance(v, Ref):
            v = ex.deref(st, v)
        return v

    def as_bytes(self, ex, st, v):
        v = self.val(ex, st, v)
        if isinstance(v, Bytes):
            return v
        if isinstance(v, Struct) and all(isinstance(x, z3.ExprRef) for x in v.f):
            return Bytes(v.f)             # a byte array
        raise EngineError('not a byte string: %r' % (v,))

    def env(self):
        ok = lambda x: Enum(0, {'Ok': Struct([x])})
        err = lambda tag: Enum(1, {'Err': Struct([Opaque(tag)])})

        def h_string_new(ex, st, callee, args, fn):
            return Bytes([])

        def h_open(ex, st, callee, args, fn):
            st.mem[('file', 'pos')] = 0
            st.trace = st.trace + (Event('open', (), None),)
            return ok(Opaque('file'))

        def remaining(st):
            pos = st.mem.get(('file', 'pos'), 0)
            return self.content[pos:]

        def h_read_to_string(ex, st, callee, args, fn):
            dst = args[-1]
            if not isinstance(dst, Ref):
                raise EngineError('read_to_string into %r' % (dst,))
            cur = self.val(ex, st, dst)
            if not isinstance(cur, Bytes):
                raise EngineError('read_to_string into a non-string')
            rest = remaining(st)
            ex.store(st, dst.frame, (dst.local, list(dst.path)), Bytes(cur.b + rest))
            st.mem[('file', 'pos')] = len(self.content)
            return ok(z3.IntVal(len(rest)))

        def h_fs_read_to_string(ex, st, callee, args, fn):
            return ok(Bytes(self.content))

        def h_read(ex, st, callee, args, fn):
            dst = args[1]
            if not isinstance(dst, Ref):
                raise EngineError('read into %r' % (dst,))
            cur = self.val(ex, st, dst)
            if isinstance(cur, Struct):
                cap = len(cur.f); old = list(cur.f)
            elif isinstance(cur, Bytes):
                cap = len(cur.b); old = list(cur.b)
            else:
                raise EngineError('read into a buffer of unknown shape')
            rest = remaining(st)
            n = min(cap, len(rest))
            new = rest[:n] + old[n:]
            ex.store(st, dst.frame, (dst.local, list(dst.path)), Struct(new) if isinstance(cur, Struct) else Bytes(new))
            st.mem[('file', 'pos')] = st.mem.get(('file', 'pos'), 0) + n
            return ok(z3.IntVal(n))

        def h_view(ex, st, callee, args, fn):
            return self.as_bytes(ex, st, args[0])

        def h_trim(ex, st, callee, args, fn):
            b = list(self.as_bytes(ex, st, args[0]).b)
            which = callee.rsplit('::', 1)[1]
            ks = [kind(x) for x in b]
            if 'unknown' in ks:
                raise EngineError('trim of a string with bytes of unknown class')
            if which in ('trim', 'trim_end', 'trim_right'):
                while b and kind(b[-1]) == 'ws':
                    b.pop()
            if which in ('trim', 'trim_start', 'trim_left'):
                while b and kind(b[0]) == 'ws':
                    b.pop(0)
            return Bytes(b)

        def h_parse(ex, st, callee, args, fn):
            m = re.search(r'parse::<(\w+)>$', callee)
            ty = m.group(1) if m else None
            if ty not in ('i64', 'u64', 'i32', 'u32', 'i128', 'u128', 'usize', 'isize'):
                raise EngineError('parse::<%s>' % ty)
            from mirsym.program import INTTY
            lo, hi = INTTY[ty]
            b = list(self.as_bytes(ex, st, args[0]).b)
            neg = False
            if b and kind(b[0]) == 'sign':
                sv = z3.simplify(b[0]).as_long()
                if sv == 45 and lo == 0:
                    return err('ParseIntError')
                neg = sv == 45; b = b[1:]
            if not b or any(kind(x) != 'digit' for x in b):
                if any(kind(x) == 'unknown' for x in b):
                    raise EngineError('parse of a string with bytes of unknown class')
                return err('ParseIntError')
            v = z3.IntVal(0)
            for x in b:
                v = v * 10 + (x - 48)
            if neg:
                v = -v
            return Enum(z3.If(z3.And(v >= lo, v <= hi), z3.IntVal(0), z3.IntVal(1)), {'Ok': Struct([v]), 'Err': Struct([Opaque('ParseIntError')])})

        def h_from_utf8(ex, st, callee, args, fn):
            return ok(self.as_bytes(ex, st, args[0]))

        def h_index_range(ex, st, callee, args, fn):
            b = self.as_bytes(ex, st, args[0]).b
            r = args[1]
            m = re.search(r'Index(?:Mut)?<(?:std::ops::|core::ops::)?(RangeTo|RangeFrom|Range|RangeFull|RangeInclusive|RangeToInclusive)', callee)
            if not m or not isinstance(r, Struct) and m.group(1) != 'RangeFull':
                raise EngineError('slice index ' + callee)
            def c(x):
                x = z3.simplify(x)
                if not z3.is_int_value(x):
                    raise EngineError('symbolic slice bound')
                return x.as_long()
            k = m.group(1)
            if k == 'RangeTo':
                lo_, hi_ = 0, c(r.f[0])
            elif k == 'RangeFrom':
                lo_, hi_ = c(r.f[0]), len(b)
            elif k == 'Range':
                lo_, hi_ = c(r.f[0]), c(r.f[1])
            elif k == 'RangeToInclusive':
                lo_, hi_ = 0, c(r.f[0]) + 1
            else:
                lo_, hi_ = 0, len(b)
            if not (0 <= lo_ <= hi_ <= len(b)):
                from mirsym.exec import Panic
                raise Panic('slice index out of range')
            return Bytes(b[lo_:hi_])

        def h_len(ex, st, callee, args, fn):
            return z3.IntVal(len(self.as_bytes(ex, st, args[0]).b))

        def h_read_to_end(ex, st, callee, args, fn):
            dst = args[-1]
            cur = self.val(ex, st, dst)
            if not isinstance(cur, Bytes):
                raise EngineError('read_to_end into a non-vector')
            rest = remaining(st)
            ex.store(st, dst.frame, (dst.local, list(dst.path)), Bytes(cur.b + rest))
            st.mem[('file', 'pos')] = len(self.content)
            return ok(z3.IntVal(len(rest)))

        def h_from_utf8_owned(ex, st, callee, args, fn):
            return ok(self.as_bytes(ex, st, args[0]))
        return [
            (r'(^|::)String::new$|(^|::)Vec::<u8>::new$|(^|::)Vec::new$', h_string_new),
            (r'(^|::)File::open(::<.*>)?$', h_open),
            (r'as (std::io::)?Read>::read_to_string$', h_read_to_string),
            (r'as (std::io::)?Read>::read_to_end$', h_read_to_end),
            (r'(^|::)fs::read_to_string(::<.*>)?$|^read_to_string::<', h_fs_read_to_string),
            (r'(^|::)fs::read(::<.*>)?$', h_fs_read_to_string),
            (r'as (std::io::)?Read>::read$', h_read),
            (r'<String as Deref>::deref$|String::as_str$|String::as_bytes$|str>::as_bytes$|<Vec<u8> as Deref>::deref$|Vec::<u8>::as_slice$|as_mut_slice$|String::as_mut_str$', h_view),
            (r'str>::(trim|trim_end|trim_start|trim_left|trim_right)$', h_trim),
            (r'str>::parse::<\w+>$', h_parse),
            (r'(^|::)(str::)?from_utf8$|from_utf8_lossy$', h_from_utf8),
            (r'String::from_utf8$', h_from_utf8_owned),
            (r'as Index(Mut)?<.*Range.*>>::index(_mut)?$', h_index_range),
            (r'str>::len$|\[u8\]>::len$|String::len$', h_len),
        ]


def run_case(prog, D, newline):
    digs = [z3.Int('dig_%d' % i) for i in range(D)]
    content = digs + ([z3.IntVal(10)] if newline else [])
    fm = FileModel(prog, content)
    ex = Exec(prog, env=fm.env(), opaque_calls=[r'Arguments(::<.*>)?::from_str$', r'Arguments(::<.*>)?::new'])
    for d in digs:
        ex.side.append(z3.And(d >= 48, d <= 57))
    fn = prog.find1('get_phc_error_bound_from_path', crate='clock_bound_d')
    outs = ex.run(fn, [Opaque('path')], State())
    want = z3.IntVal(0)
    for d in digs:
        want = want * 10 + (d - 48)
    return ex, outs, digs, want


def check(ck, pr_factory, prog, tier, seed):
    """adds obligations; returns number of cases"""
    Ds = [1, 2, 8, 9, 10, 18] if tier == 'quick' else list(range(1, 19))
    rp = [None]
    stats = [0, 0]
    ncase = 0
    for D in Ds:
        for newline in (True, False):
            ex, outs, digs, want = run_case(prog, D, newline)
            pr = pr_factory()
            pr.add(ex.side)
            ncase += 1

            def confirm(m, digs=digs, newline=newline):
                stats[0] += 1
                if rp[0] is None:
                    rp[0] = common.Replay('debug')
                txt = ''.join(chr(mval(m, d) if mval(m, d) is not None else 48) for d in digs)
                hexs = (txt + ('\n' if newline else '')).encode().hex()
                out = rp[0].ask('phcfile ' + hexs)
                exp = int(txt)
                if out.startswith('ok') and ('value=%d' % exp) in out.split():
                    return None
                stats[1] += 1
                ck.violation('phc-file-value', 'a PHC error-bound file containing "%s%s": the real get_phc_error_bound_from_path returned %s; the file says %d ns - that many nanoseconds must be added to the bound'
                             % (txt, '\\n' if newline else '', out, exp), {'cmd': 'phcfile ' + hexs, 'native': out})
                return 'phc-file'
            label = 'PHC file of %d digits%s' % (D, ' + newline' if newline else '')
            rets = [o for o in outs if o.kind == 'return']
            for i, o in enumerate(rets):
                v = o.value
                good = z3.BoolVal(False)
                if isinstance(v, Enum) and 'Ok' in v.p:
                    good = z3.And(v.disc() == 0, v.p['Ok'].f[0] == want)
                pr.prove_cegar('%s, path %d: the value handed on is the number in the file' % (label, i), o.state.pcond(), good, confirm, lambda m: [])
            # no panic / no other exit for a well-formed file
            for ob in ex.obligations:
                pr.prove_cegar('%s: no panic (%s)' % (label, ob.desc[:40]), ob.pc, z3.BoolVal(False), confirm, lambda m: [], need_reach=False)
            if not rets:
                pr.prove_cegar('%s: the function returns' % label, z3.BoolVal(True), z3.BoolVal(False), confirm, lambda m: [], need_reach=False)
            ck.absorb(pr, 'phc file: ')
    if rp[0] is not None:
        rp[0].close()
    ck.cov['phc_file'] = {'cases': ncase, 'digits': Ds, 'counterexamples_replayed': stats[0], 'confirmed': stats[1]}
    return ncase
