"""ShmWriter::write lays down the whole record (used by C17 - the bytes the daemon writes - and by C19 - the published
drift rate): the function is executed by engine M over a *typed* record (every field a symbolic variable) and an arbitrary
prior segment content; after the call every field of the segment's record must hold the value of the argument's field,
for every start generation.  (The seqlock checks of engine W treat the record as one opaque block; this check is what
justifies that data independence.)"""
import z3

from mirsym.exec import Exec, State, Event
from mirsym.values import Struct, Enum, Ref, Ptr, Opaque, UNIT, EngineError
from . import common
from .common import mval

LEAF_NAMES = ['as_of.tv_sec', 'as_of.tv_nsec', 'void_after.tv_sec', 'void_after.tv_nsec', 'bound_nsec', 'max_drift_ppb', 'reserved1', 'clock_status']


def leaves_of(prog):
    """[(name, offset, size)] of the scalar leaves of ClockErrorBound, from the compiler's layout"""
    lay = prog.layouts['ClockErrorBound']
    out = []
    for f in lay['fields']:
        if f['size'] == 16:
            ts = prog.layouts.get('timespec')
            if not ts:
                raise EngineError('layout of timespec missing')
            for g in ts['fields']:
                out.append(('%s.%s' % (f['name'], g['name']), f['offset'] + g['offset'], g['size']))
        else:
            out.append((f['name'], f['offset'], f['size']))
    return out


def flatten(v):
    if isinstance(v, Struct):
        r = []
        for x in v.f:
            r += flatten(x)
        return r
    if isinstance(v, Enum):
        return [v.disc()]
    return [v]


def run(prog, writer_obj, rec_off):
    """returns (record leaves dict name->var, g, list of (pcond, {leaf name -> stored value or None}))"""
    leaves = leaves_of(prog)
    var = {n: z3.Int('rec_' + n.replace('.', '_')) for n, o, s in leaves}
    names = prog.struct_fields.get('ClockErrorBound')
    fields = []
    for n in names:
        if (n + '.tv_sec') in var:
            fields.append(Struct([var[n + '.tv_sec'], var[n + '.tv_nsec']]))
        elif n == 'clock_status':
            fields.append(Enum(var[n], {}))
        else:
            fields.append(var[n])
    rec = Struct(fields)
    g = z3.Int('g_before')
    nld = [0]

    def h_load(ex, st, callee, args, fn):
        if isinstance(args[0], Ptr):
            st.trace = st.trace + (Event('aload', (args[0].off,), None),)
            # single writer: its own generation loads return what the segment holds (g before the first store)
            last = [e for e in st.trace if e.kind == 'astore' and e.args[0] == args[0].off]
            return last[-1].info['val'] if last else g
        raise EngineError('atomic load through %r' % (args[0],))

    def h_store(ex, st, callee, args, fn):
        st.trace = st.trace + (Event('astore', (args[0].off,), None, {'val': args[1]}),)
        return UNIT

    def h_fence(ex, st, callee, args, fn):
        return UNIT

    def h_pwrite(ex, st, callee, args, fn):
        p = args[0]
        if not isinstance(p, Ptr):
            raise EngineError('ptr write through %r' % (p,))
        st.trace = st.trace + (Event('pwrite', (p.off,), None, {'val': args[1]}),)
        return UNIT

    def h_copy(ex, st, callee, args, fn):
        # copy_nonoverlapping(src, dst, count) of whole records
        src, dst = args[0], args[1]
        if isinstance(dst, Ptr) and isinstance(src, Ref):
            st.trace = st.trace + (Event('pwrite', (dst.off,), None, {'val': ex.deref(st, src)}),)
            return UNIT
        raise EngineError('copy_nonoverlapping %r -> %r' % (src, dst))
    env = [(r'(^|::)Atomic(::<\w+>|[UI]\d+)?::load$', h_load), (r'(^|::)Atomic(::<\w+>|[UI]\d+)?::store$', h_store),
           (r'(^|::)(compiler_)?fence$', h_fence),
           (r'ptr::mut_ptr::<impl \*mut .+>::(write_volatile|write|write_unaligned)$', h_pwrite),
           (r'(^|::)ptr::(write_volatile|write|write_unaligned)(::<.*>)?$', h_pwrite),
           (r'(^|::)(ptr::copy_nonoverlapping|intrinsics::copy_nonoverlapping)', h_copy)]
    ex = Exec(prog, env=env)

    def store_hook(ex_, st, p, path, val):
        off = p.off
        ty = 'ClockErrorBound' if p.off == rec_off else None
        for step in path:
            off, ty = ex_._field_offset(ty, step, off)
        st.trace = st.trace + (Event('pwrite', (off,), None, {'val': val}),)

    def deref_hook(ex_, st, p):
        raise EngineError('write() reads the record area of the segment (offset %d)' % p.off)
    ex.store_hook = store_hook; ex.deref_hook = deref_hook
    ex.side.append(z3.And(g >= 0, g < 65536))
    wr = prog.find1('write', self_ty='ShmWriter')
    st = State(); st.mem[(0, 'w')] = writer_obj; st.mem[(0, 'rec')] = rec
    outs = [o for o in ex.run(wr, [Ref(0, 'w'), Ref(0, 'rec')], st) if o.kind == 'return']
    res = []
    for o in outs:
        cur = {n: None for n, _, _ in leaves}
        for e in o.state.trace:
            if e.kind != 'pwrite':
                continue
            off = e.args[0] - rec_off
            vals = flatten(e.info['val'])
            ls = [l for l in leaves if l[1] >= off]
            if off < 0 or len(ls) < len(vals) or (ls and ls[0][1] != off):
                raise EngineError('store at segment offset %d does not start at a record field' % e.args[0])
            for (n, _, _), v in zip(ls, vals):
                cur[n] = v
        res.append((o.state.pcond(), cur))
    return var, g, res, ex


def check(ck, pr, prog, P, only=None, tag=''):
    """adds the obligations to prover pr; replays counterexamples natively (command `rewrite`)"""
    var, g, res, ex = run(prog, P.writer_obj, P.wptr_ceb.off)
    pr.add(ex.side)
    rp = [None]
    stats = [0, 0]

    def confirm_for(name):
        def confirm(m):
            stats[0] += 1
            if rp[0] is None:
                rp[0] = common.Replay('debug')
            g0 = mval(m, g)
            vals = [max(0, min(2 ** 31 - 1, abs(mval(m, var[n]) or 0))) for n in LEAF_NAMES]
            # distinct, recognisable values; status within its three codes
            vals = [1000 + i if v == 0 else v for i, v in enumerate(vals)]
            vals[-1] = vals[-1] % 3
            out = rp[0].ask('rewrite %d %s' % (g0, ' '.join(map(str, vals))))
            if not out.startswith('ok'):
                return None
            f = dict(x.split('=') for x in out.split()[1:] if '=' in x)
            got = [int(x) for x in f.get('fields', '').split(',') if x]
            bad = [(n, w, h) for n, w, h in zip(LEAF_NAMES, vals, got) if w != h and (only is None or n in only)]
            if bad:
                stats[1] += 1
                n, w, h = bad[0]
                ck.violation('record-store:' + n, 'real ShmWriter::new on a segment left at generation %d (record area filled with 0xAA), then write() of a record with %s = %d: the segment holds %s = %d afterwards'
                             % (g0, n, w, n, h), {'cmd': 'rewrite %d %s' % (g0, ' '.join(map(str, vals))), 'native': out})
                return 'record-store'
            return None
        return confirm
    n_ob = 0
    for i, (pc, cur) in enumerate(res):
        for n in LEAF_NAMES:
            if only is not None and n not in only:
                continue
            if n not in cur:
                raise EngineError('record leaf %s not in the layout' % n)
            v = cur[n]
            claim = z3.BoolVal(False) if v is None else (v == var[n])
            pr.prove_cegar('%swrite() path %d: after the call the segment\'s %s is the argument\'s %s (any start generation, any prior content)' % (tag, i, n, n), pc, claim, confirm_for(n), lambda m: [])
            n_ob += 1
    if rp[0] is not None:
        rp[0].close()
    ck.cov.setdefault('record_store', {}).update({'paths_of_write': len(res), 'fields_checked': n_ob // max(1, len(res)), 'counterexamples_replayed': stats[0], 'confirmed': stats[1]})
    return stats
