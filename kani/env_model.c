#include <stddef.h>
#include <string.h>
unsigned char VERIF_FILE[72];
size_t VERIF_FLEN;
unsigned long VERIF_MAP[9];
int open(const char *p, int f, ...) { return 3; }
int close(int fd) { return 0; }
long read(int fd, void *buf, size_t count) {
  size_t n = count < VERIF_FLEN ? count : VERIF_FLEN;
  memcpy(buf, VERIF_FILE, n);
  return (long)n;
}
void *mmap(void *a, size_t len, int p, int f, int fd, long o) { memcpy(VERIF_MAP, VERIF_FILE, 72); return VERIF_MAP; }
int munmap(void *a, size_t len) { return 0; }
