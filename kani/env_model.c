#include <stddef.h>
#include <string.h>
/* C model of the system calls ShmReader::new makes (linked into the Kani harness with -Z c-ffi):
   one file whose content and length the harness chooses, one descriptor (3) whose open/closed state is tracked,
   read() may fail (a directory: EISDIR), close() of a descriptor that is not open fails with EBADF. */
unsigned char VERIF_FILE[72];
size_t VERIF_FLEN;
unsigned long VERIF_MAP[9];
int VERIF_READ_FAILS;
int VERIF_FD_OPEN;
int VERIF_CLOSES;
static int verif_errno;
int *__errno_location(void) { return &verif_errno; }
int open(const char *p, int f, ...) { VERIF_FD_OPEN = 1; return 3; }
int close(int fd) {
  VERIF_CLOSES++;
  if (fd != 3 || !VERIF_FD_OPEN) { verif_errno = 9; return -1; }
  VERIF_FD_OPEN = 0;
  return 0;
}
long read(int fd, void *buf, size_t count) {
  if (fd != 3 || !VERIF_FD_OPEN) { verif_errno = 9; return -1; }
  if (VERIF_READ_FAILS) { verif_errno = 21; return -1; }
  size_t n = count < VERIF_FLEN ? count : VERIF_FLEN;
  memcpy(buf, VERIF_FILE, n);
  return (long)n;
}
void *mmap(void *a, size_t len, int p, int f, int fd, long o) { memcpy(VERIF_MAP, VERIF_FILE, 72); return VERIF_MAP; }
int munmap(void *a, size_t len) { return 0; }
