//! Engine K (Kani): bit-precise harnesses over the compiled crates, for code engine M does not interpret
//! (iterator / Vec / closure chains).
#[cfg(kani)]
mod proofs {
    use clock_bound_d::refid_to_u32;

    /// C13 (configured reference id): for every string of at most 4 ASCII bytes the configured id is the big-endian
    /// packing of exactly those bytes (case preserved) - the value chronyd puts on the wire for the same refid -;
    /// anything else is refused.
    #[kani::proof]
    #[kani::unwind(6)]
    fn refid_is_the_big_endian_packing_of_its_ascii_bytes() {
        let len: usize = kani::any();
        kani::assume(len <= 5);
        let bytes: [u8; 5] = kani::any();
        // any byte sequence that is valid UTF-8: restrict to ASCII or to one 2-byte sequence at the front
        let all_ascii = bytes[0] < 128 && bytes[1] < 128 && bytes[2] < 128 && bytes[3] < 128 && bytes[4] < 128;
        kani::assume(all_ascii);
        let s = unsafe { std::str::from_utf8_unchecked(&bytes[..len]) };
        let r = refid_to_u32(s);
        if len <= 4 {
            let mut want: u32 = 0;
            let mut i = 0;
            while i < len {
                want = (want << 8) | bytes[i] as u32;
                i += 1;
            }
            assert!(r == Ok(want));
            kani::cover!(len == 4 && bytes[0] == b'p', "a lower-case id is reachable");
        } else {
            assert!(r.is_err());
        }
    }

    /// C16, byte level (thorough tier): ShmReader::new on an arbitrary file of arbitrary length <= 72, through a C model of
    /// open/read/mmap/close/munmap (env_model.c, linked with -Z c-ffi): outcome iff, no panic, no out-of-bounds access
    /// (Kani's memory checks are on).
    mod open_file {
        use clock_bound_shm::{ShmError, ShmReader};
        use std::ffi::CStr;

        extern "C" {
            #[link_name = "VERIF_FILE"]
            static mut FILE: [u8; 72];
            #[link_name = "VERIF_FLEN"]
            static mut FLEN: usize;
            #[link_name = "VERIF_READ_FAILS"]
            static mut READ_FAILS: i32;
            #[link_name = "VERIF_FD_OPEN"]
            static mut FD_OPEN: i32;
            #[link_name = "VERIF_CLOSES"]
            static mut CLOSES: i32;
        }

        #[kani::proof]
        #[kani::unwind(80)]
        fn open_arbitrary_file() {
            unsafe {
                FILE = kani::any();
                FLEN = kani::any();
                kani::assume(FLEN <= 72);
                READ_FAILS = if kani::any::<bool>() { 1 } else { 0 };
                FD_OPEN = 0;
                CLOSES = 0;
            }
            let path = CStr::from_bytes_with_nul(b"/x\0").unwrap();
            let r = ShmReader::new(path);
            let f = unsafe { FILE };
            let magic_ok = f[0] == 0x4E && f[1] == 0x5A && f[2] == 0x4D && f[3] == 0x41 && f[4] == 0 && f[5] == 2 && f[6] == 0x42 && f[7] == 0x43;
            let segsize = u32::from_ne_bytes([f[8], f[9], f[10], f[11]]);
            let ver = u16::from_ne_bytes([f[12], f[13]]);
            let gen = u16::from_ne_bytes([f[14], f[15]]);
            let flen = unsafe { FLEN };
            let read_fails = unsafe { READ_FAILS } != 0;
            let should_open = !read_fails && flen >= 16 && magic_ok && ver != 0 && gen != 0 && segsize >= 72;
            match &r {
                Ok(_) => assert!(should_open),
                Err(ShmError::SegmentNotInitialized) => assert!(!read_fails && (flen < 16 || !magic_ok || ver == 0 || gen == 0)),
                Err(ShmError::SegmentMalformed) => assert!(!read_fails && flen >= 16 && magic_ok && ver != 0 && gen != 0 && segsize < 72),
                // a failing read(2) (the path is a directory) is reported as the failing system call, never a panic
                Err(ShmError::SyscallError(_, _)) => assert!(read_fails),
                #[allow(unreachable_patterns)]
                Err(_) => assert!(false),
            }
            // the descriptor is closed exactly once on every path (a second close would hit someone else's descriptor)
            assert!(unsafe { FD_OPEN } == 0 && unsafe { CLOSES } == 1);
            kani::cover!(matches!(r, Err(ShmError::SyscallError(_, _))), "a failing read is reachable");
            kani::cover!(r.is_ok(), "a file that opens is reachable");
            kani::cover!(matches!(r, Err(ShmError::SegmentMalformed)), "a malformed file is reachable");
            std::mem::forget(r);
        }
    }
}
