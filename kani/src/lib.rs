//! Engine K (Kani): bit-precise harnesses over the compiled crates, for code engine M does not interpret
//! (iterator / Vec / closure chains).
#[cfg(kani)]
mod proofs {
    use clock_bound_d::refid_to_u32;

    /// C13 (configured reference id): for every string of at most 4 ASCII bytes the configured id is the big-endian
    /// packing of exactly those bytes (case preserved) - the value chronyd puts on the wire for the same refid -;
    /// anything else is refused.
    #[kani::proof]
    #[kani::unwind(6)]
    fn refid_is_the_big_endian_packing_of_its_ascii_bytes() {
        let len: usize = kani::any();
        kani::assume(len <= 5);
        let bytes: [u8; 5] = kani::any();
        // any byte sequence that is valid UTF-8: restrict to ASCII or to one 2-byte sequence at the front
        let all_ascii = bytes[0] < 128 && bytes[1] < 128 && bytes[2] < 128 && bytes[3] < 128 && bytes[4] < 128;
        kani::assume(all_ascii);
        let s = unsafe { std::str::from_utf8_unchecked(&bytes[..len]) };
        let r = refid_to_u32(s);
        if len <= 4 {
            let mut want: u32 = 0;
            let mut i = 0;
            while i < len {
                want = (want << 8) | bytes[i] as u32;
                i += 1;
            }
            assert!(r == Ok(want));
            kani::cover!(len == 4 && bytes[0] == b'p', "a lower-case id is reachable");
        } else {
            assert!(r.is_err());
        }
    }
}
