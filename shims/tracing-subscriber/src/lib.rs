//! empty verification shim
