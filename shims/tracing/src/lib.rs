//! Verification shim: logging macros with empty bodies (arguments type-checked, never evaluated).
#[macro_export]
macro_rules! __noop_log { ($($t:tt)*) => {{ if false { let _ = ::core::format_args!($($t)*); } }}; }
#[macro_export]
macro_rules! trace { ($($t:tt)*) => { $crate::__noop_log!($($t)*) }; }
#[macro_export]
macro_rules! debug { ($($t:tt)*) => { $crate::__noop_log!($($t)*) }; }
#[macro_export]
macro_rules! info { ($($t:tt)*) => { $crate::__noop_log!($($t)*) }; }
#[macro_export]
macro_rules! warn { ($($t:tt)*) => { $crate::__noop_log!($($t)*) }; }
#[macro_export]
macro_rules! error { ($($t:tt)*) => { $crate::__noop_log!($($t)*) }; }
pub struct Level;
impl Level { pub const DEBUG: Level = Level; pub const INFO: Level = Level; }
